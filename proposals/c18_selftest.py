"""Self-test helper (not part of the check): run C18 with the *proposed* known keys."""
import pathlib
import sys

sys.path.insert(0, str(pathlib.Path(__file__).resolve().parent.parent))
from vf import env  # noqa: E402

env.setup()
from vf import harness  # noqa: E402

harness.KNOWN_PATH = pathlib.Path(__file__).with_name("C18.known.json")
from vf.checks import c18  # noqa: E402

sys.exit(c18.main(sys.argv[1:]))
