"""Test-only helper: run a check with /verif/proposals/<ID>.known.json as the known list.

    cd /verif && /venv/bin/python proposals/run_with_local_known.py C16 --tier quick

The checks themselves read only /verif/known_findings.json (through vf.harness).
"""
import sys

sys.path.insert(0, "/verif")
from vf import env, harness  # noqa: E402

pid = sys.argv[1].upper()
harness.KNOWN_PATH = env.VERIF / "proposals" / f"{pid}.known.json"
from vf import run  # noqa: E402

sys.exit(run.main())
