// Persistent TypeScript syntax oracle used by the checks C20/C21 under /verif.
//
//   node --experimental-vm-modules --no-warnings tscheck.mjs
//
// For every file: (1) node's own type transform (the swc-based transform that node 22
// applies when it loads a .ts file under --experimental-transform-types) must accept
// the source; (2) V8 must compile the transformed text as an ES module (this reports
// the *early errors* of ECMAScript such as duplicate lexical declarations).  Nothing is
// linked or evaluated, so module-resolution and run-time errors cannot occur.
//
// Protocol: lines of absolute paths terminated by a line END; answer: one JSON object per
// rejected file and a final {"done": n}.
import { stripTypeScriptTypes } from 'node:module';
import fs from 'node:fs';
import readline from 'node:readline';
import vm from 'node:vm';

const rl = readline.createInterface({ input: process.stdin, crlfDelay: Infinity });
let files = [];
process.stdout.write('READY\n');
for await (const line of rl) {
  if (line === 'QUIT') break;
  if (line !== 'END') {
    if (line.length > 0) files.push(line);
    continue;
  }
  for (const f of files) {
    let src;
    try {
      src = fs.readFileSync(f, 'utf8');
    } catch (e) {
      process.stdout.write(JSON.stringify({ file: f, stage: 'read', name: e.name, message: String(e.message) }) + '\n');
      continue;
    }
    let js;
    try {
      js = stripTypeScriptTypes(src, { mode: 'transform' });
    } catch (e) {
      process.stdout.write(JSON.stringify({ file: f, stage: 'transform', name: e.name, code: e.code || '', message: String(e.message).slice(0, 600) }) + '\n');
      continue;
    }
    try {
      new vm.SourceTextModule(js, { identifier: f });
    } catch (e) {
      process.stdout.write(JSON.stringify({ file: f, stage: 'v8-compile', name: e.name, code: e.code || '', message: String(e.message).slice(0, 600), stack: String(e.stack).split('\n').slice(0, 4).join('\n') }) + '\n');
    }
  }
  process.stdout.write(JSON.stringify({ done: files.length }) + '\n');
  files = [];
}
