// Persistent front end to the real javac (JDK's javax.tools / com.sun.source API) used by
// the checks C20 and C21 under /verif.  Started once per worker with the single-file
// source launcher:  java JavaSyntax.java
//
// Protocol (stdin/stdout, UTF-8, one request at a time):
//   PARSE                      -- only lex + parse the files (JavacTask.parse())
//   ANALYZE <classpath>        -- parse + enter + attribute (JavacTask.analyze()), no code
//   <absolute path of a .java file>  (one per line)
//   END
// Response: one line per diagnostic
//   D \t kind \t code \t path \t line \t message (first line)
// followed by  DONE \t <number of files>.
import com.sun.source.util.JavacTask;

import java.io.BufferedReader;
import java.io.File;
import java.io.InputStreamReader;
import java.io.PrintStream;
import java.nio.charset.StandardCharsets;
import java.util.ArrayList;
import java.util.List;
import java.util.Locale;

import javax.tools.Diagnostic;
import javax.tools.DiagnosticListener;
import javax.tools.JavaCompiler;
import javax.tools.JavaFileObject;
import javax.tools.StandardJavaFileManager;
import javax.tools.ToolProvider;

public class JavaSyntax {
  public static void main(String[] args) throws Exception {
    final PrintStream out = new PrintStream(System.out, false, "UTF-8");
    BufferedReader in =
        new BufferedReader(new InputStreamReader(System.in, StandardCharsets.UTF_8));
    JavaCompiler compiler = ToolProvider.getSystemJavaCompiler();
    if (compiler == null) {
      out.println("FATAL\tno system java compiler");
      out.flush();
      return;
    }
    out.println("READY");
    out.flush();
    String line;
    while ((line = in.readLine()) != null) {
      line = line.trim();
      if (line.isEmpty()) {
        continue;
      }
      if (line.equals("QUIT")) {
        break;
      }
      boolean analyze = line.startsWith("ANALYZE");
      String classpath = analyze ? line.substring("ANALYZE".length()).trim() : "";
      List<File> files = new ArrayList<>();
      while ((line = in.readLine()) != null) {
        if (line.equals("END")) {
          break;
        }
        if (!line.isEmpty()) {
          files.add(new File(line));
        }
      }
      DiagnosticListener<JavaFileObject> listener =
          d -> {
            String path = d.getSource() == null ? "" : d.getSource().toUri().getPath();
            String message = String.valueOf(d.getMessage(Locale.ROOT));
            int nl = message.indexOf('\n');
            if (nl >= 0) {
              message = message.substring(0, nl);
            }
            out.println(
                "D\t" + d.getKind() + "\t" + d.getCode() + "\t" + path + "\t"
                    + d.getLineNumber() + "\t" + message.replace('\t', ' '));
          };
      try (StandardJavaFileManager fm =
          compiler.getStandardFileManager(listener, Locale.ROOT, StandardCharsets.UTF_8)) {
        List<String> options = new ArrayList<>();
        options.add("-proc:none");
        options.add("-Xmaxerrs");
        options.add("100000");
        options.add("-Xmaxwarns");
        options.add("0");
        options.add("-nowarn");
        if (analyze && !classpath.isEmpty()) {
          options.add("-cp");
          options.add(classpath);
        }
        JavacTask task =
            (JavacTask)
                compiler.getTask(
                    null, fm, listener, options, null, fm.getJavaFileObjectsFromFiles(files));
        try {
          if (analyze) {
            task.analyze();
          } else {
            task.parse();
          }
        } catch (Throwable t) {
          out.println("D\tCRASH\tjavac.crash\t\t0\t" + String.valueOf(t).replace('\n', ' '));
        }
      }
      out.println("DONE\t" + files.size());
      out.flush();
    }
  }
}
