// C19 driver: prints what each emitted TypeScript/JavaScript literal denotes.
//
// usage: node driver.mjs <dir>
//
// First tries to import <dir>/cases.mjs (all literals in one UTF-8 module, the way a
// generated file is read).  If that module cannot be parsed or evaluated, every
// literal of <dir>/sources.json is evaluated on its own so that the broken ones are
// pinpointed.
import fs from "node:fs";
import path from "node:path";
import vm from "node:vm";
import { pathToFileURL } from "node:url";

const dir = process.argv[2];
const X = "␟X␟";
const out = [];

function show(id, value) {
  if (typeof value === "string") {
    const units = [];
    for (let i = 0; i < value.length; i++) {
      units.push(value.charCodeAt(i).toString(16));
    }
    out.push(`${id} ok S ${units.join(" ")}`);
  } else if (value instanceof Uint8Array) {
    out.push(`${id} ok B ${Array.from(value).map((b) => b.toString(16)).join(" ")}`);
  } else {
    out.push(`${id} err not-a-string-or-Uint8Array: ${typeof value}`);
  }
}

let batch = null;
let how = "module";
try {
  const mod = await import(pathToFileURL(path.join(dir, "cases.mjs")).href);
  batch = mod.default(X);
} catch (err) {
  how = `single (module failed: ${String(err).split("\n")[0].slice(0, 120)})`;
}

if (batch !== null) {
  for (const [id, value] of batch) {
    show(id, value);
  }
} else {
  const sources = JSON.parse(
    fs.readFileSync(path.join(dir, "sources.json"), { encoding: "utf-8" })
  );
  for (const [id, src] of sources) {
    try {
      const fn = new vm.Script("(function (X) { return (\n" + src + "\n); })").runInThisContext();
      show(id, fn(X));
    } catch (err) {
      const text = String(err).split("\n")[0].slice(0, 200);
      out.push(`${id} err ${JSON.stringify(text)}`);
    }
  }
}
out.push(`# how=${how}`);
process.stdout.write(out.join("\n") + "\n");
