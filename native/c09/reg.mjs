// Registers the resolve hook of hooks.mjs (node >= 22 with --experimental-transform-types).
import { register } from "node:module";
register("./hooks.mjs", import.meta.url);
