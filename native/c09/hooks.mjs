// Resolve hook: the generated TypeScript imports its siblings without an extension
// ("./common"); node's ESM loader wants a file name, so ".ts" is appended.
export async function resolve(specifier, context, nextResolve) {
  if (
    (specifier.startsWith("./") || specifier.startsWith("../")) &&
    !/\.[cm]?[jt]s$/.test(specifier) &&
    !specifier.endsWith(".json")
  ) {
    try {
      return await nextResolve(specifier + ".ts", context);
    } catch (err) {
      // fall through to the default behaviour
    }
  }
  return nextResolve(specifier, context);
}
