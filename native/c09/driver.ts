// C09 driver for the generated TypeScript SDK (static; parameterised by spec.json).
//
//   node --experimental-transform-types --import ./reg.mjs driver.ts spec.json out.jsonl
//
// Every name used to reach into the SDK comes from spec.json, where the harness put what
// aas_core_codegen.typescript.naming returned.
import * as fs from "node:fs";
import * as AasTypes from "./src/types";
import * as AasJsonization from "./src/jsonization";
import * as AasVerification from "./src/verification";
import * as AasConstants from "./src/constants";
import * as AasStringification from "./src/stringification";

const spec = JSON.parse(fs.readFileSync(process.argv[2], "utf-8"));
const out: string[] = [];

function describe(err: unknown): string {
  if (err instanceof Error) {
    return `${err.name}: ${err.message}`;
  }
  return String(err);
}

function segmentsOf(path: any): Array<string | number> {
  const result: Array<string | number> = [];
  for (const seg of path.segments) {
    if (seg instanceof AasVerification.PropertySegment) {
      result.push(seg.name);
    } else if (seg instanceof AasVerification.IndexSegment) {
      result.push(seg.index);
    } else {
      result.push("?" + String(seg));
    }
  }
  return result;
}

// -- constants and enumerations
{
  const enums: any = {};
  for (const e of spec.enums) {
    const table: any = {};
    const toString = (AasStringification as any)[e.toString];
    const fromString = (AasStringification as any)[e.fromString];
    const enumObject = (AasTypes as any)[e.lang];
    for (const [metaLiteral, langLiteral] of e.literals) {
      let text: any = null;
      let back = false;
      try {
        const value = enumObject[langLiteral];
        text = value === undefined ? null : toString(value);
        back = text !== null && fromString(text) === value;
      } catch (err) {
        text = "!" + describe(err);
      }
      table[metaLiteral] = [text, back];
    }
    enums[e.name] = table;
  }
  const constants: any = {};
  for (const c of spec.constants) {
    try {
      const value = (AasConstants as any)[c.lang];
      if (value === undefined) {
        constants[c.name] = { missing: true };
      } else if (c.kind === "set_enum") {
        const toString = (AasStringification as any)[c.toString];
        constants[c.name] = { set: Array.from(value as Set<any>).map((v) => toString(v)) };
      } else if (c.kind.startsWith("set_")) {
        constants[c.name] = { set: Array.from(value as Set<any>) };
      } else if (value instanceof Uint8Array) {
        constants[c.name] = { bytes: Array.from(value) };
      } else {
        constants[c.name] = { value: value };
      }
    } catch (err) {
      constants[c.name] = { crash: describe(err) };
    }
  }
  out.push(JSON.stringify({ tables: { enums: enums, constants: constants } }));
}

// -- cases
for (const c of spec.cases) {
  const record: any = { case: c.i, accepted: false, errors: null, json: null };
  let parsed: any;
  try {
    parsed = JSON.parse(c.doc);
  } catch (err) {
    record.stage = "json-parse";
    record.message = describe(err);
    out.push(JSON.stringify(record));
    continue;
  }
  let instance: any = null;
  try {
    const either = (AasJsonization as any)[c.fn](parsed);
    if (either.error !== null) {
      record.stage = "deserialize";
      record.message = either.error.message;
      record.where = either.error.path.toString();
    } else {
      instance = either.mustValue();
      record.accepted = true;
    }
  } catch (err) {
    record.stage = "deserialize-crash";
    record.message = describe(err);
  }
  if (instance !== null) {
    try {
      const errors: any[] = [];
      for (const error of AasVerification.verify(instance)) {
        errors.push([segmentsOf(error.path), error.message]);
      }
      record.errors = errors;
    } catch (err) {
      record.verify_crash = describe(err);
    }
    try {
      record.json = AasJsonization.toJsonable(instance);
    } catch (err) {
      record.serialize_crash = describe(err);
    }
  }
  let line: string;
  try {
    line = JSON.stringify(record);
  } catch (err) {
    record.json = null;
    record.serialize_crash = "JSON.stringify: " + describe(err);
    line = JSON.stringify(record);
  }
  out.push(line);
}

fs.writeFileSync(process.argv[3], out.join("\n") + "\n");
