"""
Audit logger for CLI subprocesses of the checks C23/C24 (no source edits).

Activated only when ``VF_AUDIT_DIR`` is set; this directory must come first on
``PYTHONPATH`` so that ``site`` imports the module at interpreter start-up.

Every file-system relevant audit event of the process is appended as one JSON line
to ``$VF_AUDIT_DIR/<pid>.jsonl``:

    {"ev": "open", "path": <absolute path>, "mode": ..., "flags": ..., "w": bool}
    {"ev": "os.rename", "path": <src>, "dst": <dst>}
    {"ev": "os.remove" | "os.mkdir" | "os.rmdir" | "os.listdir" | "os.scandir" | ...}

With ``VF_PICKLE_CHUNKS`` > 0 also ``pickle.dump`` / ``pickle.load`` are wrapped:
a dump is written in that many chunks with ``VF_PICKLE_SLEEP_MS`` pauses between
the chunks, and the bytes produced / consumed are logged by sha256:

    {"ev": "pickle.dump", "sha": ..., "len": ..., "text_sha": ..., "path": ...}
    {"ev": "pickle.load", "sha": ..., "len": ..., "path": ..., "error": ...}
"""
import os
import sys


def _install() -> None:
    log_dir = os.environ.get("VF_AUDIT_DIR")
    if not log_dir:
        return

    import json

    fd = os.open(
        os.path.join(log_dir, f"{os.getpid()}.jsonl"),
        os.O_WRONLY | os.O_CREAT | os.O_APPEND,
        0o644,
    )
    owner = os.getpid()
    write_flags = os.O_WRONLY | os.O_RDWR | os.O_CREAT | os.O_TRUNC | os.O_APPEND

    def emit(record: dict) -> None:
        if os.getpid() != owner:
            return
        try:
            os.write(fd, (json.dumps(record, ensure_ascii=True) + "\n").encode())
        except Exception:
            pass

    def abspath(p) -> object:
        if isinstance(p, int):
            return p
        try:
            p = os.fspath(p)
            if isinstance(p, bytes):
                p = os.fsdecode(p)
            return os.path.abspath(p)
        except Exception:
            return repr(p)

    one_path = {
        "os.remove",
        "os.mkdir",
        "os.rmdir",
        "os.listdir",
        "os.scandir",
        "os.truncate",
        "os.chmod",
        "os.chown",
        "os.utime",
        "os.mkfifo",
        "os.mknod",
        "shutil.rmtree",
        "tempfile.mkstemp",
        "tempfile.mkdtemp",
    }
    two_paths = {
        "os.rename",
        "os.link",
        "os.symlink",
        "shutil.move",
        "shutil.copyfile",
        "shutil.copytree",
    }

    def hook(event: str, args: tuple) -> None:
        try:
            if event == "open":
                path, mode, flags = (tuple(args) + (None, None, None))[:3]
                if isinstance(path, int):
                    return
                flags = flags if isinstance(flags, int) else 0
                emit(
                    {
                        "ev": "open",
                        "path": abspath(path),
                        "mode": mode,
                        "flags": flags,
                        "w": bool(flags & write_flags),
                    }
                )
            elif event in one_path:
                path = args[0] if args else None
                if path is None and event in ("os.listdir", "os.scandir"):
                    path = "."
                emit({"ev": event, "path": abspath(path)})
            elif event in two_paths:
                emit({"ev": event, "path": abspath(args[0]), "dst": abspath(args[1])})
        except Exception:
            pass

    sys.addaudithook(hook)

    try:
        chunks = int(os.environ.get("VF_PICKLE_CHUNKS", "0") or 0)
    except ValueError:
        chunks = 0
    if chunks > 0:
        import hashlib
        import pickle
        import time

        try:
            pause = float(os.environ.get("VF_PICKLE_SLEEP_MS", "0") or 0) / 1000.0
        except ValueError:
            pause = 0.0

        real_dumps, real_loads = pickle.dumps, pickle.loads

        def file_name(file) -> object:
            name = getattr(file, "name", None)
            return abspath(name) if isinstance(name, (str, bytes)) else None

        def dump(obj, file, *args, **kwargs) -> None:
            data = real_dumps(obj, *args, **kwargs)
            text = getattr(getattr(obj, "atok", None), "text", None)
            emit(
                {
                    "ev": "pickle.dump",
                    "sha": hashlib.sha256(data).hexdigest(),
                    "len": len(data),
                    "text_sha": hashlib.sha256(text.encode("utf-8")).hexdigest()
                    if isinstance(text, str)
                    else None,
                    "path": file_name(file),
                }
            )
            # The last chunk is kept short so that it stays in the buffer of the
            # file object until the file is flushed or closed, like the tail of a
            # real ``pickle.dump``.
            tail = min(1000, len(data) // 2)
            head = len(data) - tail
            size = max(1, -(-head // max(1, chunks - 1))) if chunks > 1 else head
            cuts = list(range(0, head, size)) if head > 0 else []
            pieces = [data[c : min(c + size, head)] for c in cuts] + [data[head:]]
            for i, piece in enumerate(pieces):
                if i > 0 and pause > 0:
                    time.sleep(pause)
                file.write(piece)

        def load(file, *args, **kwargs):
            if pause > 0:
                time.sleep(pause)
            data = file.read()
            record = {
                "ev": "pickle.load",
                "sha": hashlib.sha256(data).hexdigest(),
                "len": len(data),
                "path": file_name(file),
                "error": None,
            }
            try:
                result = real_loads(data, *args, **kwargs)
            except BaseException as err:
                record["error"] = type(err).__name__
                emit(record)
                raise
            emit(record)
            return result

        pickle.dump = dump
        pickle.load = load


try:
    _install()
except Exception:  # never break (or write into) the program under observation
    pass
