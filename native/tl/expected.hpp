// Stand-in for https://github.com/TartanLlama/expected used only by the verification
// harness under /verif (the real header is not available in this sandbox).
// Minimal, std::variant based; C++17.
#ifndef VERIF_NATIVE_TL_EXPECTED_HPP
#define VERIF_NATIVE_TL_EXPECTED_HPP

#include <stdexcept>
#include <type_traits>
#include <utility>
#include <variant>

namespace tl {

template <class E>
class unexpected {
 public:
  unexpected() = delete;
  constexpr explicit unexpected(const E& e) : val_(e) {}
  constexpr explicit unexpected(E&& e) : val_(std::move(e)) {}
  constexpr const E& value() const& { return val_; }
  E& value() & { return val_; }
  E&& value() && { return std::move(val_); }

 private:
  E val_;
};

template <class E>
unexpected<typename std::decay<E>::type> make_unexpected(E&& e) {
  return unexpected<typename std::decay<E>::type>(std::forward<E>(e));
}

template <class E>
class bad_expected_access : public std::exception {
 public:
  explicit bad_expected_access(E e) : val_(std::move(e)) {}
  const char* what() const noexcept override { return "Bad expected access"; }
  const E& error() const& { return val_; }

 private:
  E val_;
};

template <class T, class E>
class expected {
 public:
  typedef T value_type;
  typedef E error_type;
  typedef unexpected<E> unexpected_type;

  expected() : storage_(std::in_place_index<0>) {}
  expected(const expected&) = default;
  expected(expected&&) = default;
  expected& operator=(const expected&) = default;
  expected& operator=(expected&&) = default;

  template <
      class U = T,
      typename std::enable_if<
          std::is_constructible<T, U&&>::value &&
              !std::is_same<typename std::decay<U>::type, expected>::value &&
              !std::is_same<typename std::decay<U>::type, unexpected<E> >::value,
          int>::type = 0>
  expected(U&& v)  // NOLINT(google-explicit-constructor)
      : storage_(std::in_place_index<0>, std::forward<U>(v)) {}

  template <class G,
            typename std::enable_if<std::is_constructible<E, const G&>::value,
                                    int>::type = 0>
  expected(const unexpected<G>& u)  // NOLINT(google-explicit-constructor)
      : storage_(std::in_place_index<1>, u.value()) {}

  template <class G, typename std::enable_if<
                         std::is_constructible<E, G&&>::value, int>::type = 0>
  expected(unexpected<G>&& u)  // NOLINT(google-explicit-constructor)
      : storage_(std::in_place_index<1>, std::move(u).value()) {}

  bool has_value() const noexcept { return storage_.index() == 0; }
  explicit operator bool() const noexcept { return has_value(); }

  T& value() & {
    if (!has_value()) throw bad_expected_access<E>(std::get<1>(storage_));
    return std::get<0>(storage_);
  }
  const T& value() const& {
    if (!has_value()) throw bad_expected_access<E>(std::get<1>(storage_));
    return std::get<0>(storage_);
  }
  T&& value() && {
    if (!has_value()) throw bad_expected_access<E>(std::get<1>(storage_));
    return std::move(std::get<0>(storage_));
  }

  T& operator*() & { return std::get<0>(storage_); }
  const T& operator*() const& { return std::get<0>(storage_); }
  T&& operator*() && { return std::move(std::get<0>(storage_)); }
  T* operator->() { return &std::get<0>(storage_); }
  const T* operator->() const { return &std::get<0>(storage_); }

  E& error() & { return std::get<1>(storage_); }
  const E& error() const& { return std::get<1>(storage_); }
  E&& error() && { return std::move(std::get<1>(storage_)); }

 private:
  std::variant<T, E> storage_;
};

}  // namespace tl

#endif  // VERIF_NATIVE_TL_EXPECTED_HPP
