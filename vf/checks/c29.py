"""C29 — Python SDK traversal and accessors are complete."""
import concurrent.futures
import traceback
from typing import Any, Dict, List, Tuple

from vf import corpus, driver, harness, instances, mmgen, pyexec, pysdk, sdkloop

RULE = (
    "accepted meta-models (MMG sdk-safe with nested, optional, list-valued and "
    "polymorphic class properties, implementation-specific X_or_default methods; corpus) "
    "x instance graphs of depth <= 3 (at most 60 nodes judged per graph); descend_once/descend are compared by identity with "
    "the abstract instance tree (property order taken from the real symbol table), a "
    "dynamically built recording visitor/transformer (plain and with context) must be "
    "dispatched to the method of the concrete class exactly once per node, "
    "over_X_or_empty and X_or_default are compared with Python's evaluation of the "
    "meta-model; distinct_nontrivial = distinct (model, class) with >= 1 nested instance"
)


def property_order(symbol_table, cls_name: str) -> List[str]:
    from aas_core_codegen.common import Identifier

    cls = symbol_table.must_find_class(Identifier(cls_name))
    return [str(p.name) for p in cls.properties]


def direct_children(pm, symbol_table, inst, memo) -> List[Any]:
    result = []
    for pname in property_order(symbol_table, inst.cls):
        value = inst.props.get(pname)
        if isinstance(value, instances.Inst):
            result.append(memo[id(value)])
        elif isinstance(value, list):
            for item in value:
                if isinstance(item, instances.Inst):
                    result.append(memo[id(item)])
                elif isinstance(item, list):
                    # lists of lists are not generated for the SDK-safe profile
                    pass
    return result


def preorder(pm, symbol_table, inst, memo) -> List[Any]:
    result = []
    for pname in property_order(symbol_table, inst.cls):
        value = inst.props.get(pname)
        items = value if isinstance(value, list) else [value]
        for item in items:
            if isinstance(item, instances.Inst):
                result.append(memo[id(item)])
                result.extend(preorder(pm, symbol_table, item, memo))
    return result


def same_identities(a: List[Any], b: List[Any]) -> bool:
    return len(a) == len(b) and all(x is y for x, y in zip(a, b))


def make_recorder(base_cls: type, prefix: str, with_context: bool, log: List[Tuple[str, Any]]):
    namespace: Dict[str, Any] = {}
    for attr in dir(base_cls):
        if attr.startswith(prefix + "_") and attr not in (f"{prefix}_with_context",):
            def method(self, that, *rest, _attr=attr):
                log.append((_attr, that) + tuple(rest))
                return _attr

            namespace[attr] = method
    return type("Recorder", (base_cls,), namespace)


def check_model(chk: harness.Check, name: str, text: str, rng, n_instances: int) -> None:
    opened = sdkloop.open_sdk(chk, name, text)
    if opened is None:
        return
    pm, sdk = opened
    try:
        loaded, _, _ = driver.load_inprocess(text)
        symbol_table = loaded[0]
        gen = instances.InstanceGenerator(pm, rng, max_depth=3)
        classes = gen.instantiable()
        if not classes:
            return
        types = sdk.types
        for i in range(n_instances):
            cls = classes[i % len(classes)]
            inst = gen.gen_instance(cls)
            memo: Dict[int, Any] = {}
            shadow_memo: Dict[int, Any] = {}
            instances.to_shadow(pm, inst, shadow_memo)
            base = {"model": name, "text": text, "cls": cls, "instance": instances.to_jsonable_sample(inst)}
            try:
                obj = sdk.build(inst, memo)
            except Exception:
                chk.violation("sdk-constructor-raised", dict(base, error=traceback.format_exc()[-1500:]))
                continue
            nodes = [(p, v) for p, v, _ in instances.walk(pm, inst) if isinstance(v, instances.Inst)]
            nested = len(nodes) > 1
            if len(nodes) > 60:
                # judge the root, and a sample of the nested nodes
                nodes = nodes[:1] + rng.sample(nodes[1:], 59)
            chk.case(
                distinct_key=(name, cls) if nested else None,
                sample={"model": name, "cls": cls, "nodes": len(nodes),
                        "preorder_classes": [type(o).__name__ for o in obj.descend()][:10]}
                if nested and i < 2 else None,
            )
            for path, node in nodes:
                sdk_node = memo[id(node)]
                node_base = dict(base, node_path=list(path), node_cls=node.cls)
                # descend_once / descend
                try:
                    got_once = list(sdk_node.descend_once())
                    got_all = list(sdk_node.descend())
                except Exception:
                    chk.violation("descend-raised", dict(node_base, error=traceback.format_exc()[-1500:]))
                    continue
                chk.count("descend_once_compared")
                if not same_identities(got_once, direct_children(pm, symbol_table, node, memo)):
                    chk.violation("descend-once/differs", dict(
                        node_base, got=[type(o).__name__ for o in got_once],
                        expected=[type(o).__name__ for o in direct_children(pm, symbol_table, node, memo)]))
                chk.count("descend_compared")
                if not same_identities(got_all, preorder(pm, symbol_table, node, memo)):
                    chk.violation("descend/differs-from-pre-order", dict(
                        node_base, got=[type(o).__name__ for o in got_all],
                        expected=[type(o).__name__ for o in preorder(pm, symbol_table, node, memo)]))
                # dispatch
                snake = str(sdk.pn.method_name(sdk.Identifier(f"visit_{node.cls}")))
                snake_t = str(sdk.pn.method_name(sdk.Identifier(f"transform_{node.cls}")))
                context = object()
                for kind, base_cls, prefix, call, expected_method, extra in (
                    ("visitor", types.AbstractVisitor, "visit", lambda r: sdk_node.accept(r), snake, ()),
                    ("visitor-with-context", types.AbstractVisitorWithContext, "visit",
                     lambda r: sdk_node.accept_with_context(r, context), snake + "_with_context", (context,)),
                    ("transformer", types.AbstractTransformer, "transform", lambda r: sdk_node.transform(r), snake_t, ()),
                    ("transformer-with-context", types.AbstractTransformerWithContext, "transform",
                     lambda r: sdk_node.transform_with_context(r, context), snake_t + "_with_context", (context,)),
                ):
                    log: List[Tuple] = []
                    try:
                        recorder = make_recorder(base_cls, prefix, bool(extra), log)()
                        result = call(recorder)
                    except Exception:
                        chk.violation(f"dispatch/{kind}/raised", dict(node_base, error=traceback.format_exc()[-1500:]))
                        continue
                    chk.count("dispatches_checked")
                    ok = (
                        len(log) == 1
                        and log[0][0] == expected_method
                        and log[0][1] is sdk_node
                        and all(a is b for a, b in zip(log[0][2:], extra))
                        and (prefix == "visit" or result == expected_method)
                    )
                    if not ok:
                        chk.violation(f"dispatch/{kind}/wrong-method", dict(
                            node_base, expected=expected_method, log=[e[0] for e in log], result=repr(result)))
                # accessors
                for _, prop in pm.all_props(node.cls):
                    t = prop.type
                    if t.kind == "optional" and t.inner.kind == "list":
                        accessor = str(sdk.pn.method_name(sdk.Identifier(f"over_{prop.name}_or_empty")))
                        if not hasattr(sdk_node, accessor):
                            chk.violation("over-or-empty/missing", dict(node_base, prop=prop.name, expected_name=accessor))
                            continue
                        got = list(getattr(sdk_node, accessor)())
                        value = getattr(sdk_node, sdk.prop_name(prop.name))
                        expected = list(value) if value is not None else []
                        chk.count("over_or_empty_checked")
                        if not same_identities(got, expected) and got != expected:
                            chk.violation("over-or-empty/differs", dict(node_base, prop=prop.name))
                # X_or_default (implementation-specific, reference body from the meta-model)
                shadow = shadow_memo[id(node)]
                for anc in pm.ancestors(node.cls) + [node.cls]:
                    for method in pm.classes[anc].own_methods:
                        if not method.name.endswith("_or_default") or method.args:
                            continue
                        py_name = str(sdk.pn.method_name(sdk.Identifier(method.name)))
                        try:
                            expected = getattr(shadow, method.name)()
                            got = getattr(sdk_node, py_name)()
                        except Exception:
                            chk.violation("or-default/raised", dict(node_base, method=method.name, error=traceback.format_exc()[-1200:]))
                            continue
                        chk.count("or_default_checked")
                        import enum as _enum

                        if isinstance(expected, _enum.Enum):
                            same = got is sdk.enum_literal(type(expected).__name__, expected.name)
                        else:
                            same = type(got) is type(expected) and got == expected or (
                                isinstance(expected, (bytes, bytearray)) and bytes(got) == bytes(expected))
                        if not same:
                            chk.violation("or-default/differs", dict(node_base, method=method.name, got=repr(got), expected=repr(expected)))
    finally:
        sdk.close()


#: names of the generated traversal and accessor members; a model that uses one of them
#: for a property or a method must be refused -- if the front end lets it through, the
#: generated SDK has to work all the same, and it is checked like any other model
RESERVED_MEMBERS = ["descend", "descend_once", "accept", "transform", "over_parts_or_empty"]


def reserved_member_model(member: str, as_method: bool) -> str:
    if as_method:
        cabin = f'''
class Cabin(DBC):
    parts: Optional[List["Floor"]]

    @implementation_specific
    def {member}(self) -> bool:
        raise NotImplementedError()

    def __init__(self, parts: Optional[List["Floor"]] = None) -> None:
        self.parts = parts
'''
    else:
        cabin = f'''
class Cabin(DBC):
    parts: Optional[List["Floor"]]
    {member}: Optional["Floor"]

    def __init__(
        self, parts: Optional[List["Floor"]] = None, {member}: Optional["Floor"] = None
    ) -> None:
        self.parts = parts
        self.{member} = {member}
'''
    return mmgen.IMPORTS + f'''
class Floor(DBC):
    level: int

    def __init__(self, level: int) -> None:
        self.level = level

{cabin}

class Building(DBC):
    cabins: List["Cabin"]
    main_cabin: Optional["Cabin"]

    def __init__(self, cabins: List["Cabin"], main_cabin: Optional["Cabin"] = None) -> None:
        self.cabins = cabins
        self.main_cabin = main_cabin


__version__ = "dummy"
__xml_namespace__ = "https://dummy.com"
'''


def worker(args) -> Dict[str, Any]:
    argv, shard, n_shards, n_models, n_instances = args[:-1]
    mins = args[-1]
    chk = harness.Check("C29", "exploration", RULE, argv)
    chk.set_worker_minimums(mins, n_shards)
    budget = chk.wall_budget(150, 900)
    models: List[Tuple[str, str]] = []
    if shard == 0:
        models += corpus.small_common()
    probes = [(m, False) for m in RESERVED_MEMBERS] + [(m, True) for m in RESERVED_MEMBERS[:4]]
    for k, (member, as_method) in enumerate(probes):
        if k % n_shards == shard:
            chk.count("reserved_member_probes")
            models.append((f"reserved-member/{member}/{'method' if as_method else 'property'}",
                           reserved_member_model(member, as_method)))
    for i in range(shard, n_models, n_shards):
        profile = mmgen.Profile(
            sdk_safe=True, n_classes=(3, 8), p_list=0.45, p_optional=0.45, p_invariant=0.1,
            p_impl_method=0.5, max_props=4, n_cprims=(0, 2), p_abstract=0.4,
        )
        m = mmgen.generate(chk.rng("model", i), profile)
        models.append((f"mmg/{chk.seed}/{i}", m.text))
    for idx, (name, text) in enumerate(models):
        if chk.should_stop(budget):
            chk.count("models_skipped_for_budget", len(models) - idx)
            break
        try:
            check_model(chk, name, text, chk.rng("inst", name), n_instances)
        except Exception as err:  # noqa
            # a traversal or accessor member of the generated SDK raised where the oracle
            # only calls what the generator documents
            import traceback as tb

            chk.violation(
                f"sdk-member-raised/{type(err).__name__}|{harness.normalize_message(str(err))[:60]}",
                {"model": name, "text": text, "traceback": tb.format_exc()[-2500:]},
            )
    return chk.export()


def main(argv) -> int:
    chk = harness.Check("C29", "exploration", RULE, argv)
    n_models = chk.pick(48, 800)
    n_instances = chk.pick(25, 150)
    n_shards = 12
    mins = {
        "descend_compared": chk.pick(1000, 10000),
        "dispatches_checked": chk.pick(4000, 30000),
        "over_or_empty_checked": chk.pick(100, 1000),
        "or_default_checked": chk.pick(20, 200),
    }
    with concurrent.futures.ProcessPoolExecutor(max_workers=n_shards) as pool:
        jobs = [pool.submit(worker, (list(argv), s, n_shards, n_models, n_instances, mins)) for s in range(n_shards)]
        for job in jobs:
            try:
                chk.merge(job.result())
            except Exception as err:
                chk.harness_error(f"worker failed: {err!r}")
    chk.assume("X_or_default methods are implementation-specific: the snippet is the reference body written in the meta-model, renamed with the repo's naming functions")
    for counter_name, minimum in mins.items():
        chk.require_min(counter_name, minimum)
    return chk.finish()
