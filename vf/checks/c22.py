"""C22 — generation is deterministic."""
import difflib
import hashlib
import itertools
import json
import os
import pathlib
import queue
import re
import shutil
import subprocess
import threading
import time
from typing import Any, Dict, List, Optional, Tuple

from vf import corpus, driver, env, harness

RULE = (
    "real CLI subprocesses on corpus meta-models (succeeding, rejected and crashing ones; "
    "the big v3 model with its real snippet directories in the thorough tier) x 8 targets; "
    "every (model, target, snippets) group has a reference run (PYTHONHASHSEED=0, fresh "
    "output directory, private TMPDIR) and variant runs that change the hash seed, the "
    "output directory (other path / pre-populated with stale and foreign files), the "
    "order in which the snippet files were created, the order in which directory listings "
    "are returned (sitecustomize shim shuffling os.scandir/os.listdir/Path.glob) and the "
    "model cache (cold and warm runs sharing a TMPDIR); one case = one variant run "
    "compared with its reference (exit status, stdout and stderr modulo paths, every "
    "file byte for byte); a case is non-trivial when the reference wrote >= 1 file or "
    "reported on stderr; distinct = distinct (model, target, variant)"
)

WORKERS = 14
STALE_LINE = b"// stale line left over from an earlier run\n"

# ---------------------------------------------------------------------------
# The listing-order shim (put first on PYTHONPATH of selected children).
# ---------------------------------------------------------------------------

SHIM = r'''
"""Harness shim: return directory listings in a seeded random order."""
import atexit
import json
import os
import random

_seed = os.environ.get("VF_C22_SHUFFLE")
if _seed:
    _rng = random.Random(int(_seed))
    _calls = {"scandir": 0, "listdir": 0, "glob": 0, "iterdir": 0, "entries": 0}
    _real_scandir = os.scandir
    _real_listdir = os.listdir

    class _Shuffled:
        def __init__(self, entries):
            self._it = iter(entries)

        def __iter__(self):
            return self

        def __next__(self):
            return next(self._it)

        def __enter__(self):
            return self

        def __exit__(self, *args):
            return False

        def close(self):
            pass

    def _scandir(path=None):
        with (_real_scandir() if path is None else _real_scandir(path)) as it:
            entries = list(it)
        _rng.shuffle(entries)
        _calls["scandir"] += 1
        _calls["entries"] += len(entries)
        return _Shuffled(entries)

    def _listdir(path=None):
        entries = _real_listdir() if path is None else _real_listdir(path)
        _rng.shuffle(entries)
        _calls["listdir"] += 1
        _calls["entries"] += len(entries)
        return entries

    os.scandir = _scandir
    os.listdir = _listdir

    import pathlib

    def _wrap(name):
        real = getattr(pathlib.Path, name)

        def wrapper(self, *args, **kwargs):
            entries = list(real(self, *args, **kwargs))
            _rng.shuffle(entries)
            _calls["glob" if "glob" in name else "iterdir"] += 1
            return iter(entries)

        wrapper.__name__ = name
        setattr(pathlib.Path, name, wrapper)

    for _name in ("glob", "rglob", "iterdir"):
        _wrap(_name)

    _log = os.environ.get("VF_C22_SHUFFLE_LOG")
    if _log:

        def _dump():
            try:
                with open(_log, "w") as fid:
                    json.dump(_calls, fid)
            except OSError:
                pass

        atexit.register(_dump)
'''

# ---------------------------------------------------------------------------
# Groups, run specifications, observations.
# ---------------------------------------------------------------------------

EXTRA_SNIPPETS: Dict[str, bytes] = {
    "Extra/alpha.txt": b"alpha",
    "Extra/beta.txt": b"beta",
    "Extra/Nested/gamma.txt": b"gamma",
    "Extra/Nested/delta.txt": b"delta",
    "zeta.txt": b"zeta",
    "Alpha.txt": b"Alpha",
}
BROKEN_SNIPPETS: Dict[str, bytes] = {
    "bad-one.txt": b"x",
    "bad two.txt": b"y",
    "Dir/3rd.txt": b"z",
    "Dir/undecodable.bin": b"head \xff tail",
    "Dir/Sub/also bad.txt": b"w",
    "another-bad.txt": b"v",
}


class Group:
    def __init__(
        self,
        model_name: str,
        model_text: str,
        target: str,
        snippets: Dict[str, bytes],
        kind: str,
        entry: str,
        timeout: float,
        weight: float,
    ) -> None:
        self.model_name = model_name
        self.model_text = model_text
        self.target = target
        self.snippets = snippets
        self.kind = kind  # "small" | "v3" | "corpus" | "broken-snippets"
        self.entry = entry  # "module" | "console"
        self.timeout = timeout
        self.weight = weight
        self.ref: Optional["Observation"] = None

    @property
    def name(self) -> str:
        return f"{self.model_name}@{self.target}" + (
            "+broken-snippets" if self.kind == "broken-snippets" else ""
        )


class Spec:
    def __init__(
        self,
        group: Group,
        label: str,
        hash_seed: str = "0",
        out_history: str = "fresh",
        snippet_order: str = "given",
        listing_shuffle: Optional[int] = None,
        cache: str = "private",
    ) -> None:
        self.group = group
        self.label = label
        self.hash_seed = hash_seed
        self.out_history = out_history
        self.snippet_order = snippet_order
        self.listing_shuffle = listing_shuffle
        self.cache = cache  # "private" | "shared-cold" | "shared-warm"

    def describe(self) -> Dict[str, Any]:
        return {
            "label": self.label,
            "PYTHONHASHSEED": self.hash_seed,
            "output_dir_history": self.out_history,
            "snippet_creation_order": self.snippet_order,
            "listing_shuffle_seed": self.listing_shuffle,
            "cache": self.cache + ("" if self.cache == "private" else " (--cache_model)"),
            "entry": self.group.entry,
        }


class Observation:
    def __init__(self, spec: Spec) -> None:
        self.spec = spec
        self.status = "ok"  # "ok" | "timeout" | "skipped" | "harness-error"
        self.detail = ""
        self.rc: Optional[int] = None
        self.stdout = ""
        self.stderr = ""
        self.workdir: Optional[pathlib.Path] = None
        self.output_dir: Optional[pathlib.Path] = None
        self.tree: Dict[str, Tuple[str, int]] = {}
        self.preexisting: Dict[str, str] = {}  # rel -> "stale" | "foreign"
        self.shuffle_calls: Optional[Dict[str, int]] = None
        self.cache_files_before = 0
        self.cache_files_after = 0
        self.wall = 0.0

    def cleanup(self) -> None:
        if self.workdir is not None:
            shutil.rmtree(self.workdir, ignore_errors=True)


def digest_tree(root: pathlib.Path) -> Dict[str, Tuple[str, int]]:
    result: Dict[str, Tuple[str, int]] = {}
    if not root.is_dir():
        return result
    for dirpath, _, filenames in os.walk(root):
        for fn in filenames:
            full = os.path.join(dirpath, fn)
            if not os.path.isfile(full):
                continue
            with open(full, "rb") as fid:
                data = fid.read()
            rel = os.path.relpath(full, root).replace(os.sep, "/")
            result[rel] = (hashlib.sha256(data).hexdigest(), len(data))
    return result


def count_files(root: pathlib.Path) -> int:
    n = 0
    for _, _, filenames in os.walk(root):
        n += len(filenames)
    return n


class Runner:
    def __init__(self, seed: int, deadline: float) -> None:
        self.deadline = deadline
        # runs on the big model are not started in the last 40 % of the budget
        self.heavy_deadline = time.time() + 0.6 * (deadline - time.time())
        # runs still going at the end of the budget are cut shortly afterwards
        self.hard_deadline = deadline + 0.15 * (deadline - time.time())
        self.seed = seed
        self.shim_dir = env.new_dir("c22-shim")
        (self.shim_dir / "sitecustomize.py").write_text(SHIM)
        self.pyc_dir = env.new_dir("c22-pyc")

    #: set by main(): are the minimum observation counts still unmet?
    need_more = staticmethod(lambda: False)
    #: no run is started after this moment, whatever is still missing
    cap = 0.0

    def overtime(self) -> bool:
        """On a crowded machine go on past the budget until the minimum counts are met."""
        return time.time() < self.cap and bool(self.need_more())

    def child_env(self, spec: Spec, tmpdir: pathlib.Path, workdir: pathlib.Path) -> Dict[str, str]:
        environ = env.child_env(TMPDIR=str(tmpdir), PYTHONHASHSEED=spec.hash_seed)
        # byte-code cache in scratch: the children need not recompile the package each time
        environ.pop("PYTHONDONTWRITEBYTECODE", None)
        environ["PYTHONPYCACHEPREFIX"] = str(self.pyc_dir)
        environ.pop("VF_C22_SHUFFLE", None)
        environ.pop("VF_C22_SHUFFLE_LOG", None)
        if spec.listing_shuffle is not None:
            environ["PYTHONPATH"] = f"{self.shim_dir}:{environ['PYTHONPATH']}"
            environ["VF_C22_SHUFFLE"] = str(spec.listing_shuffle)
            environ["VF_C22_SHUFFLE_LOG"] = str(workdir / "shuffle-log.json")
        return environ

    def run(self, spec: Spec, shared_tmp: Optional[pathlib.Path]) -> Observation:
        obs = Observation(spec)
        group = spec.group
        limit = self.deadline if group.weight <= 1 else self.heavy_deadline
        if time.time() > limit and not self.overtime():
            obs.status = "skipped"
            return obs
        t0 = time.time()
        try:
            workdir = env.new_dir("c22")
            obs.workdir = workdir
            model_path = workdir / "meta_model.py"
            model_path.write_text(group.model_text, encoding="utf-8", errors="surrogatepass")

            # snippets, created in the requested order
            snippets_dir = workdir / "snippets"
            snippets_dir.mkdir()
            keys = list(group.snippets)
            if spec.snippet_order == "reversed":
                keys.reverse()
            elif spec.snippet_order.startswith("shuffled:"):
                import random

                random.Random(int(spec.snippet_order.split(":")[1])).shuffle(keys)
            for key in keys:
                path = snippets_dir / key
                path.parent.mkdir(parents=True, exist_ok=True)
                path.write_bytes(group.snippets[key])

            # output directory history
            if spec.out_history == "fresh":
                output_dir = workdir / "output"
            elif spec.out_history == "other-path":
                output_dir = workdir / "elsewhere" / "deeper.dir" / "generated-2"
            elif spec.out_history == "prepopulated":
                output_dir = workdir / "output"
                output_dir.mkdir()
                ref_tree = group.ref.tree if group.ref is not None else {}
                for i, (rel, (_, size)) in enumerate(sorted(ref_tree.items())):
                    path = output_dir / rel
                    path.parent.mkdir(parents=True, exist_ok=True)
                    if i % 3 == 2:
                        junk = b"stale"  # shorter than the real content
                    else:
                        junk = STALE_LINE * (size // 40 + 3)
                    path.write_bytes(junk)
                    obs.preexisting[rel] = "stale"
                for rel, data in (
                    ("README.foreign.md", b"# not from the generator\n"),
                    ("zz_foreign/dir/file.bin", b"\x00\x01\x02"),
                    ("stale_from_another_model.py", b"# stale\n"),
                ):
                    if rel in obs.preexisting:
                        continue
                    path = output_dir / rel
                    path.parent.mkdir(parents=True, exist_ok=True)
                    path.write_bytes(data)
                    obs.preexisting[rel] = "foreign"
            else:
                raise ValueError(spec.out_history)
            obs.output_dir = output_dir

            tmpdir = shared_tmp if shared_tmp is not None else workdir / "tmp"
            tmpdir.mkdir(parents=True, exist_ok=True)
            obs.cache_files_before = count_files(tmpdir)

            if group.entry == "module":
                head = [env.PY, "-m", "aas_core_codegen"]
            else:
                head = [
                    env.PY,
                    "-c",
                    "import sys; from aas_core_codegen.main import entry_point; "
                    "sys.exit(entry_point())",
                ]
            cmd = head + [
                "--model_path", str(model_path),
                "--snippets_dir", str(snippets_dir),
                "--output_dir", str(output_dir),
                "--target", group.target,
            ]
            if spec.cache != "private":
                # the pinned tree caches regardless of the flag; with the flag honoured
                # the shared-TMPDIR runs still exercise the cold and the warm cache
                cmd.append("--cache_model")
            try:
                proc = subprocess.run(
                    cmd,
                    cwd=str(workdir),
                    env=self.child_env(spec, tmpdir, workdir),
                    stdout=subprocess.PIPE,
                    stderr=subprocess.PIPE,
                    timeout=min(group.timeout, max(20.0, (self.cap if self.overtime() else self.hard_deadline) - time.time())),
                )
            except subprocess.TimeoutExpired:
                # cut by the watchdog or by the end of the wall budget: never a verdict
                obs.status = "timeout" if time.time() < max(self.hard_deadline, self.cap if self.overtime() else 0.0) else "skipped"
                return obs
            obs.rc = proc.returncode
            replacements = sorted(
                [
                    (str(output_dir), "<OUT>"),
                    (str(model_path), "<MODEL>"),
                    (str(snippets_dir), "<SNIPPETS>"),
                    (str(tmpdir), "<TMP>"),
                    (str(workdir), "<WORK>"),
                ],
                key=lambda pair: -len(pair[0]),
            )
            out = proc.stdout.decode("utf-8", "backslashreplace")
            err = proc.stderr.decode("utf-8", "backslashreplace")
            for old, new in replacements:
                out = out.replace(old, new)
                err = err.replace(old, new)
            obs.stdout, obs.stderr = out, err
            obs.tree = digest_tree(output_dir)
            obs.cache_files_after = count_files(tmpdir)
            log = workdir / "shuffle-log.json"
            if spec.listing_shuffle is not None and log.exists():
                try:
                    obs.shuffle_calls = json.loads(log.read_text())
                except ValueError:
                    obs.shuffle_calls = None
        except Exception as error:  # harness-side trouble, never a verdict
            obs.status = "harness-error"
            obs.detail = f"{type(error).__name__}: {error}"
        finally:
            obs.wall = time.time() - t0
        return obs

    def run_job(self, specs: List[Spec]) -> List[Observation]:
        """Run the specs one after another; shared-cache specs share one TMPDIR."""
        shared: Optional[pathlib.Path] = None
        if any(s.cache != "private" for s in specs):
            shared = env.new_dir("c22-tmp")
        result = []
        for spec in specs:
            result.append(self.run(spec, shared if spec.cache != "private" else None))
        if shared is not None:
            shutil.rmtree(shared, ignore_errors=True)
        return result


# ---------------------------------------------------------------------------
# Comparison.
# ---------------------------------------------------------------------------

_ADDR = re.compile(r"0x[0-9a-fA-F]{6,}")


def slug(text: str) -> str:
    return re.sub(r"[^a-z0-9]+", "-", text.lower()).strip("-")[:70] or "empty"


def stderr_stage(text: str) -> str:
    lines = [line for line in text.splitlines() if line.strip()]
    if not lines:
        return "empty"
    if lines[0].startswith("Traceback"):
        return "traceback-" + slug(lines[-1].split(":")[0].split(".")[-1])
    return slug(re.sub(r"<[A-Z]+>\S*", "", lines[0]))


def text_diff(a: str, b: str, limit: int = 14) -> Dict[str, Any]:
    la, lb = a.splitlines(), b.splitlines()
    reordered = sorted(la) == sorted(lb)
    diff = [
        line
        for line in difflib.unified_diff(la, lb, "reference", "variant", n=1, lineterm="")
    ][: limit + 2]
    return {"reordered": reordered, "diff": [line[:300] for line in diff]}


def bytes_diff(a: bytes, b: bytes) -> Dict[str, Any]:
    try:
        return text_diff(a.decode("utf-8"), b.decode("utf-8"))
    except UnicodeDecodeError:
        i = next((k for k in range(min(len(a), len(b))) if a[k] != b[k]), min(len(a), len(b)))
        return {
            "reordered": False,
            "first_difference_at": i,
            "reference": a[max(0, i - 20): i + 40],
            "variant": b[max(0, i - 20): i + 40],
        }


def compare(chk: harness.Check, ref: Observation, obs: Observation) -> None:
    group, spec = obs.spec.group, obs.spec
    base = {
        "model": group.model_name,
        "target": group.target,
        "group_kind": group.kind,
        "reference": ref.spec.describe(),
        "variant": spec.describe(),
        "snippet_keys": sorted(group.snippets)[:40],
        "model_text": group.model_text if len(group.model_text) < 3500 else
        f"<{len(group.model_text)} chars; corpus model {group.model_name}>",
    }
    target = group.target

    if ref.rc != obs.rc:
        chk.violation(
            f"exit-status-differs/{target}",
            dict(base, reference_rc=ref.rc, variant_rc=obs.rc,
                 reference_stderr=ref.stderr[-1500:], variant_stderr=obs.stderr[-1500:]),
        )
    if ref.stdout != obs.stdout:
        chk.violation(
            f"stdout-differs/{target}",
            dict(base, **text_diff(ref.stdout, obs.stdout)),
        )
    ref_err, obs_err = ref.stderr, obs.stderr
    if "Traceback (most recent call last)" in ref_err or "Traceback (most recent call last)" in obs_err:
        ref_err, obs_err = _ADDR.sub("0xADDR", ref_err), _ADDR.sub("0xADDR", obs_err)
    if ref_err != obs_err:
        d = text_diff(ref_err, obs_err)
        chk.violation(
            f"stderr-differs/{stderr_stage(ref_err)}/{'reordered' if d['reordered'] else 'changed'}",
            dict(base, **d),
        )

    # files
    assert ref.output_dir is not None and obs.output_dir is not None
    ref_files = set(ref.tree)
    if spec.out_history == "prepopulated":
        obs_files = {
            rel for rel in obs.tree
            if not (obs.preexisting.get(rel) == "foreign" and rel not in ref_files)
        }
    else:
        obs_files = set(obs.tree)
    if ref_files != obs_files:
        chk.violation(
            f"file-set-differs/{target}",
            dict(base, only_in_reference=sorted(ref_files - obs_files)[:20],
                 only_in_variant=sorted(obs_files - ref_files)[:20]),
        )
    n_files = n_bytes = 0
    for rel in sorted(ref_files & obs_files):
        n_files += 1
        n_bytes += ref.tree[rel][1]
        if ref.tree[rel] == obs.tree[rel]:
            continue
        stale_survives = False
        try:
            a = (ref.output_dir / rel).read_bytes()
            b = (obs.output_dir / rel).read_bytes()
            d = bytes_diff(a, b)
            stale_survives = obs.preexisting.get(rel) == "stale" and (
                b == b"stale" or (STALE_LINE in b and STALE_LINE not in a)
            )
        except OSError as error:
            d = {"reordered": False, "diff": [f"could not re-read: {error}"]}
        if stale_survives:
            kind = "stale-content-survives"
        else:
            kind = "reordered" if d.get("reordered") else "changed"
        chk.violation(f"file-differs/{target}/{rel}/{kind}", dict(base, file=rel, **d))
    chk.count("files_compared", n_files)
    chk.count("bytes_compared", n_bytes)
    if spec.out_history == "prepopulated":
        chk.count("stale_files_checked_overwritten", sum(1 for r in ref_files if obs.preexisting.get(r) == "stale"))


# ---------------------------------------------------------------------------
# Workload.
# ---------------------------------------------------------------------------


def read_snippet_dir(root: pathlib.Path) -> Dict[str, bytes]:
    result: Dict[str, bytes] = {}
    for dirpath, _, filenames in os.walk(root):
        for fn in sorted(filenames):
            full = pathlib.Path(dirpath) / fn
            result[full.relative_to(root).as_posix()] = full.read_bytes()
    return dict(sorted(result.items()))


def small_snippets(text: str, target: str) -> Dict[str, bytes]:
    result = {k: v.encode("utf-8") for k, v in driver.base_snippets(text, target).items()}
    for k, v in EXTRA_SNIPPETS.items():
        result.setdefault(k, v)
    return result


def build_groups(chk: harness.Check) -> List[Group]:
    rng = chk.rng("groups")
    groups: List[Group] = []
    entry_cycle = ["module", "console"]

    def entry() -> str:
        return entry_cycle[len(groups) % 2]

    small = corpus.small_common()
    if chk.tier == "quick":
        chosen = rng.sample(small, 2)
    else:
        chosen = list(small)
    for name, text in chosen:
        for target in driver.TARGETS:
            groups.append(Group(name, text, target, small_snippets(text, target), "small", entry(), 180.0, 1.0))

    # a hand-written model full of what is kept in sets and dictionaries on the way:
    # several patterns tightening one inherited property, multiple inheritance, sets of
    # literals, strings and numbers, subsets; and a variant rejected with several errors
    data = pathlib.Path(__file__).resolve().parent.parent / "data"
    rich = (data / "c22_rich_model.py.txt").read_text(encoding="utf-8")
    rich_targets = list(driver.TARGETS)
    if chk.tier == "quick":
        rich_targets = ["jsonschema", "xsd"] + rng.sample(
            [t for t in driver.TARGETS if t not in ("jsonschema", "xsd")], 2
        )
    for target in rich_targets:
        groups.append(Group("targeted/rich", rich, target, small_snippets(rich, target), "small", entry(), 180.0, 1.0))
    rejected = (data / "c22_rich_rejected_model.py.txt").read_text(encoding="utf-8")
    for target in rng.sample(driver.TARGETS, chk.pick(1, 3)):
        groups.append(Group("targeted/rich-rejected", rejected, target, small_snippets(rich, target), "corpus", entry(), 180.0, 1.0))

    # rejected / crashing / other fixture models
    others = [m for m in corpus.models() if not m[0].startswith("common_meta_models/")]
    failing = [m for m in others if "/unexpected/" in m[0]]
    passing = [m for m in others if "/unexpected/" not in m[0]]
    n_fail, n_pass, n_targets = chk.pick((2, 1, 1), (12, 10, 3))
    picked = rng.sample(failing, min(n_fail, len(failing))) + rng.sample(passing, min(n_pass, len(passing)))
    for name, text in picked:
        for target in rng.sample(driver.TARGETS, n_targets):
            groups.append(Group(name, text, target, small_snippets(text, target), "corpus", entry(), 180.0, 1.0))

    # several offending snippet files: the report lists them
    name, text = small[0]
    for target in chk.pick(["csharp"], ["csharp", "python", "xsd"]):
        snippets = small_snippets(text, target)
        snippets.update(BROKEN_SNIPPETS)
        groups.append(Group(name, text, target, snippets, "broken-snippets", entry(), 180.0, 1.0))

    only = os.environ.get("VF_C22_TARGETS")  # debugging aid: restrict the targets
    if only:
        groups = [g for g in groups if g.target in only.split(",")]
    if chk.tier == "thorough" and not only:
        text = corpus.v3()
        for target in driver.TARGETS:
            sdir = corpus.DATA / "main" / target / "expected" / "aas_core_meta.v3" / "input" / "snippets"
            if not sdir.is_dir():
                chk.unavailable_leg(f"v3 snippets for {target} not found at {sdir}")
                continue
            groups.append(Group("aas_core_meta.v3", text, target, read_snippet_dir(sdir), "v3", "module", 900.0, 5.0))
    return groups


def variant_jobs(chk: harness.Check, group: Group, index: int) -> List[List[Spec]]:
    rng = chk.rng("variants", group.name)

    def rseed() -> str:
        return str(rng.randrange(3, 2**32 - 1))

    if chk.tier == "quick" or group.kind == "corpus":
        # combined axes: few runs per group
        return [
            [Spec(group, "seed1+other-path+snippets-reversed", "1", "other-path", "reversed")],
            [Spec(group, "seed2+prepopulated+listing-shuffled", "2", "prepopulated", "given", rng.randrange(1, 10**6))],
            [
                Spec(group, "cache-cold+seedN", rseed(), "fresh", f"shuffled:{rng.randrange(10**6)}", None, "shared-cold"),
                Spec(group, "cache-warm+seed-random", "random", "fresh", "given", None, "shared-warm"),
            ],
        ]
    # one axis at a time
    return [
        [Spec(group, "same-again", "0")],
        [Spec(group, "seed1", "1")],
        [Spec(group, "seedN", rseed())],
        [Spec(group, "seed-random", "random")],
        [Spec(group, "other-path", "0", "other-path")],
        [Spec(group, "prepopulated", "0", "prepopulated")],
        [Spec(group, "snippets-reversed", "0", "fresh", "reversed")],
        [Spec(group, "listing-shuffled", "0", "fresh", "given", rng.randrange(1, 10**6))],
        [
            Spec(group, "cache-cold", "0", "fresh", "given", None, "shared-cold"),
            Spec(group, "cache-warm+seedN", rseed(), "fresh", "given", None, "shared-warm"),
        ],
    ] if group.kind != "v3" else [
        [Spec(group, "seed1+other-path", "1", "other-path")],
        [Spec(group, "seed2+prepopulated", "2", "prepopulated")],
        [Spec(group, "seedN+snippets-reversed", rseed(), "fresh", "reversed")],
        [Spec(group, "seed-random+listing-shuffled", "random", "fresh", "given", rng.randrange(1, 10**6))],
        [
            Spec(group, "cache-cold+seedN", rseed(), "fresh", "given", None, "shared-cold"),
            Spec(group, "cache-warm+seedN", rseed(), "fresh", "given", None, "shared-warm"),
        ],
    ]


class PriorityPool:
    """Worker threads that take the job with the smallest priority tuple first."""

    def __init__(self, workers: int, fn) -> None:
        self.fn = fn
        self.todo: "queue.PriorityQueue" = queue.PriorityQueue()
        self.done: "queue.Queue" = queue.Queue()
        self.pending = 0
        self.seq = itertools.count()
        self.threads = [threading.Thread(target=self._work, daemon=True) for _ in range(workers)]
        for t in self.threads:
            t.start()

    def _work(self) -> None:
        while True:
            _, _, payload = self.todo.get()
            if payload is None:
                return
            try:
                result = self.fn(payload)
            except BaseException as error:  # reported by the parent as a harness error
                result = error
            self.done.put((payload, result))

    def submit(self, priority: Tuple, payload: Any) -> None:
        self.pending += 1
        self.todo.put((priority, next(self.seq), payload))

    def results(self):
        """Yield (payload, result); the consumer may submit more while iterating."""
        while self.pending > 0:
            item = self.done.get()
            self.pending -= 1
            yield item

    def close(self) -> None:
        for _ in self.threads:
            self.todo.put(((10**9,), next(self.seq), None))
        for t in self.threads:
            t.join(timeout=5)


def main(argv) -> int:
    chk = harness.Check("C22", "exploration", RULE, argv)
    budget = chk.wall_budget(68, 600)
    runner = Runner(chk.seed, chk.t0 + budget)
    floors = {
        "variant_runs_compared": chk.pick(30, 150), "files_compared": chk.pick(100, 1000),
        "groups_success": chk.pick(8, 20), "runs_with_shuffled_listings": chk.pick(4, 15),
        "warm_runs_with_cache_entry_present": chk.pick(4, 15), "groups_failing": chk.pick(2, 8),
    }
    runner.need_more = lambda: any(chk.counters.get(k, 0) < v for k, v in floors.items())  # type: ignore
    runner.cap = chk.t0 + 8 * budget

    groups = build_groups(chk)
    if chk.replay:
        data = json.loads(pathlib.Path(chk.replay).read_text())
        w = data.get("witness", data)
        groups = [g for g in groups if g.model_name == w.get("model") and g.target == w.get("target")
                  and g.kind == w.get("group_kind")] or groups[:1]
    chk.extra["groups"] = len(groups)

    # warm the byte-code cache once so that parallel children do not all compile
    subprocess.run(
        [env.PY, "-c", "import aas_core_codegen.main"],
        env=runner.child_env(Spec(groups[0], "warm-up"), env.new_dir("c22-warm"), env.new_dir("c22-warm")),
        stdout=subprocess.DEVNULL, stderr=subprocess.DEVNULL, timeout=600,
    )

    refs_done: List[Observation] = []
    pairs = set()

    def on_reference(group: Group, index: int, obs: Observation, pool: "PriorityPool") -> None:
        chk.count("runs_executed")
        chk.hist("run_status", obs.status)
        if obs.status == "skipped":
            chk.count("references_skipped_by_budget")
            obs.cleanup()
            return
        if obs.status == "harness-error":
            chk.harness_error(f"reference of {group.name}: {obs.detail}")
        if obs.status != "ok":
            obs.cleanup()
            return
        group.ref = obs
        refs_done.append(obs)
        chk.count("reference_runs")
        outcome = (
            "crash" if "Traceback (most recent call last)" in obs.stderr
            else "reported-failure" if obs.stderr.strip()
            else "success"
        )
        chk.hist("reference_outcome", outcome)
        chk.count(f"groups_{outcome}")
        chk.hist("reference_exit_status", obs.rc)
        chk.hist("hash_seed", "0")
        # the variants of a finished reference go before the outstanding references, so
        # that a slow machine yields complete groups rather than references only
        variants = variant_jobs(chk, group, index)
        for j, specs in enumerate(variants):
            rank = -1 if group.weight > 1 else 0
            pool.submit((rank, (j - index) % len(variants), index), specs)

    def on_variant(obs: Observation) -> None:
        spec, group = obs.spec, obs.spec.group
        chk.hist("run_status", obs.status)
        if obs.status == "skipped":
            chk.count("runs_skipped_by_budget")
            obs.cleanup()
            return
        chk.count("runs_executed")
        if obs.status == "harness-error":
            chk.harness_error(f"{group.name} {spec.label}: {obs.detail}")
            obs.cleanup()
            return
        if obs.status == "timeout":
            chk.count("timeouts")
            obs.cleanup()
            return
        ref = group.ref
        assert ref is not None
        compare(chk, ref, obs)
        chk.count("variant_runs_compared")
        pairs.add((group.model_name, group.target))
        chk.hist("hash_seed", spec.hash_seed if spec.hash_seed in ("0", "1", "2", "random") else "other-int")
        chk.hist("output_dir_history", spec.out_history)
        chk.hist("snippet_creation_order", spec.snippet_order.split(":")[0])
        chk.hist("cache", spec.cache)
        chk.hist("variant", spec.label)
        chk.hist("target", group.target)
        chk.hist("entry", group.entry)
        chk.hist("group_kind", group.kind)
        if spec.listing_shuffle is not None:
            calls = obs.shuffle_calls or {}
            if calls.get("scandir", 0) + calls.get("listdir", 0) + calls.get("glob", 0) > 0:
                chk.count("runs_with_shuffled_listings")
                chk.count("shuffled_listing_calls", sum(v for k, v in calls.items() if k != "entries"))
            else:
                chk.count("runs_where_shim_saw_nothing")
        if spec.cache == "shared-warm":
            if obs.cache_files_before > 0:
                chk.count("warm_runs_with_cache_entry_present")
            else:
                chk.count("warm_runs_without_cache_entry")
        nontrivial = bool(ref.tree) or bool(ref.stderr.strip())
        sample = None
        if chk.evaluations % 37 == 0:
            sample = dict(
                model=group.model_name, target=group.target, variant=spec.describe(),
                rc=obs.rc, stdout=obs.stdout[:200], stderr=obs.stderr[:300],
                files=len(obs.tree), bytes=sum(s for _, s in obs.tree.values()),
                wall_s=round(obs.wall, 1),
            )
        chk.case((group.model_name, group.target, group.kind, spec.label) if nontrivial else None, sample)
        obs.cleanup()

    pool = PriorityPool(WORKERS, runner.run_job)
    # references: the heavy groups first, then round-robin over the kinds of groups so
    # that a slow machine still sees succeeding, failing and broken-snippet groups early
    kind_rank = {"v3": 0, "broken-snippets": 1, "small": 2, "corpus": 3}
    within: Dict[str, int] = {}
    nth: Dict[int, int] = {}
    for i, g in enumerate(groups):
        nth[i] = within.get(g.kind, 0)
        within[g.kind] = nth[i] + 1
    order = sorted(
        range(len(groups)),
        key=lambda i: (0 if groups[i].kind == "v3" else 1, nth[i], kind_rank.get(groups[i].kind, 3), i),
    )
    for position, i in enumerate(order):
        g = groups[i]
        pool.submit((-1 if g.weight > 1 else 1, position, i), [Spec(g, "reference", "0")])
    index_of = {id(g): i for i, g in enumerate(groups)}
    for specs, result in pool.results():
        if isinstance(result, BaseException):
            chk.harness_error(f"worker failed: {type(result).__name__}: {result}")
            continue
        for obs in result:
            if obs.spec.label == "reference":
                on_reference(obs.spec.group, index_of[id(obs.spec.group)], obs, pool)
            else:
                on_variant(obs)
    pool.close()
    for obs in refs_done:
        obs.cleanup()
    chk.count("model_target_pairs_compared", len(pairs))
    chk.extra["workers"] = WORKERS

    if not chk.replay:
        chk.require_min("variant_runs_compared", chk.pick(30, 150))
        chk.require_min("model_target_pairs_compared", chk.pick(10, 40))
        chk.require_min("files_compared", chk.pick(100, 1000))
        chk.require_min("groups_success", chk.pick(8, 20))
        chk.require_min("runs_with_shuffled_listings", chk.pick(4, 15))
        chk.require_min("warm_runs_with_cache_entry_present", chk.pick(4, 15))
        chk.require_min("stale_files_checked_overwritten", chk.pick(20, 200))
        failing_groups = chk.counters.get("groups_crash", 0) + chk.counters.get("groups_reported-failure", 0)
        chk.counters["groups_failing"] = failing_groups
        chk.require_min("groups_failing", chk.pick(2, 8))
    else:
        chk.distinct.add("replay-a")
        chk.distinct.add("replay-b")
    chk.assume(
        "paths of the run (output directory, model, snippets directory, TMPDIR, working "
        "directory) are replaced by placeholders in stdout and stderr before comparing; "
        "memory addresses (0x...) are masked in stderr only when a Python traceback is present"
    )
    chk.assume(
        "in a pre-populated output directory the files compared are those the reference "
        "run wrote; foreign files may stay"
    )
    chk.assume(
        "children use a byte-code cache in scratch (PYTHONPYCACHEPREFIX) so that start-up "
        "is affordable; it is the same for all runs"
    )
    return chk.finish()
