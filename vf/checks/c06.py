"""C06 — accepted meta-models satisfy the structural rules."""
import ast
import concurrent.futures
import copy
import re
from typing import Any, Callable, Dict, List, Optional, Tuple

from vf import corpus, driver, harness, mmgen, pyexec

RULE = (
    "single-rule mutations of meta-models the front end accepts (MMG output and corpus "
    "fixtures): one mutator per structural rule of the statement (inheritance cycle / self "
    "/ dangling / enum base; duplicate type, constant, function; reserved type, member, "
    "constant and function names incl. case variants and reserved prefixes; re-declared "
    "inherited property; constructor argument missing, extra, renamed, retyped, reordered; "
    "optional argument without default or with a non-None default; Optional[Optional], "
    "List[Optional]; duplicate invariant description in a class and across an inheritance "
    "edge; dangling :class:/:attr:/:const: reference; pattern unanchored or empty). The "
    "mutated model must be rejected by run.load_model; the unmutated twin and, where one "
    "exists, a benign twin of the same edit shape must be accepted. distinct_nontrivial = "
    "distinct (rule, verdict) pairs with >= 1 case"
)

RESERVED_TYPE_NAMES = ["Visitor", "PATH", "Jsonization", "Verification", "Class", "I_thing", "Must_thing", "Record", "Transformer"]
RESERVED_MEMBER_NAMES = ["descend", "Accept", "model_type", "mutable_thing", "descend_once", "TRANSFORM"]


def classes_of(tree: ast.Module, pm: pyexec.PyModel) -> List[ast.ClassDef]:
    return [n for n in tree.body if isinstance(n, ast.ClassDef) and pm.is_class(n.name)]


def rename_word(text: str, old: str, new: str) -> str:
    return re.sub(rf"(?<![A-Za-z0-9_]){re.escape(old)}(?![A-Za-z0-9_])", new, text)


class Mutation:
    def __init__(self, rule: str, text: str, benign: Optional[str] = None, note: str = ""):
        self.rule = rule
        self.text = text
        self.benign = benign
        self.note = note


def mutators() -> Dict[str, Callable]:
    return {name[4:]: fn for name, fn in globals().items() if name.startswith("mut_")}


# Every mutator: (text, pm, rng) -> Optional[Mutation]


def _unparse(tree: ast.Module) -> str:
    ast.fix_missing_locations(tree)
    return ast.unparse(tree) + "\n"


def _pick_class(tree, pm, rng, pred=lambda c: True) -> Optional[ast.ClassDef]:
    candidates = [c for c in classes_of(tree, pm) if pred(c)]
    return rng.choice(candidates) if candidates else None


def mut_inheritance_self(text, pm, rng):
    tree = ast.parse(text)
    cls = _pick_class(tree, pm, rng)
    if cls is None:
        return None
    cls.bases.insert(0, ast.Name(cls.name, ast.Load()))
    return Mutation("inheritance/self", _unparse(tree))


def mut_inheritance_cycle(text, pm, rng):
    tree = ast.parse(text)
    candidates = [c for c in classes_of(tree, pm) if pm.classes[c.name].bases]
    if not candidates:
        return None
    child = rng.choice(candidates)
    parent_name = rng.choice(pm.classes[child.name].bases)
    parent = next((c for c in classes_of(tree, pm) if c.name == parent_name), None)
    if parent is None:
        return None
    parent.bases.insert(0, ast.Name(child.name, ast.Load()))
    return Mutation("inheritance/cycle", _unparse(tree))


def mut_inheritance_dangling(text, pm, rng):
    tree = ast.parse(text)
    cls = _pick_class(tree, pm, rng)
    if cls is None:
        return None
    cls.bases.insert(0, ast.Name("Nonexistent_parent_thing", ast.Load()))
    return Mutation("inheritance/dangling-base", _unparse(tree))


def mut_inheritance_enum_base(text, pm, rng):
    enums = [n for n, c in pm.classes.items() if c.is_enum]
    tree = ast.parse(text)
    cls = _pick_class(tree, pm, rng)
    if cls is None or not enums:
        return None
    cls.bases.insert(0, ast.Name(rng.choice(enums), ast.Load()))
    return Mutation("inheritance/enum-as-base", _unparse(tree))


def mut_duplicate_type(text, pm, rng):
    tree = ast.parse(text)
    classes = [n for n in tree.body if isinstance(n, ast.ClassDef)]
    if not classes:
        return None
    victim = rng.choice(classes)
    index = tree.body.index(victim)
    tree.body.insert(index + 1, copy.deepcopy(victim))
    return Mutation("duplicate/type", _unparse(tree))


def mut_duplicate_constant(text, pm, rng):
    tree = ast.parse(text)
    consts = [n for n in tree.body if isinstance(n, ast.AnnAssign) and isinstance(n.target, ast.Name) and n.target.id in pm.constants]
    if not consts:
        return None
    victim = rng.choice(consts)
    tree.body.insert(tree.body.index(victim) + 1, copy.deepcopy(victim))
    return Mutation("duplicate/constant", _unparse(tree))


def mut_duplicate_function(text, pm, rng):
    tree = ast.parse(text)
    funcs = [n for n in tree.body if isinstance(n, ast.FunctionDef)]
    if not funcs:
        return None
    victim = rng.choice(funcs)
    tree.body.insert(tree.body.index(victim) + 1, copy.deepcopy(victim))
    return Mutation("duplicate/function", _unparse(tree))


def mut_reserved_type_name(text, pm, rng):
    names = [n for n in pm.order if pm.is_class(n) or pm.is_enum(n) or pm.is_constrained_primitive(n)]
    if not names:
        return None
    victim = rng.choice(names)
    new = rng.choice(RESERVED_TYPE_NAMES)
    return Mutation(
        "reserved/type-name",
        rename_word(text, victim, new),
        benign=rename_word(text, victim, "Renamed_harmless_thing"),
        note=f"{victim}->{new}",
    )


def mut_reserved_property_name(text, pm, rng):
    props = [(c, p.name) for c in pm.classes.values() if pm.is_class(c.name) for p in c.own_props]
    if not props:
        return None
    _, victim = rng.choice(props)
    new = rng.choice(RESERVED_MEMBER_NAMES)
    return Mutation(
        "reserved/property-name",
        rename_word(text, victim, new),
        benign=rename_word(text, victim, "renamed_harmless_thing"),
        note=f"{victim}->{new}",
    )


def mut_reserved_constant_name(text, pm, rng):
    if not pm.constants:
        return None
    victim = rng.choice(sorted(pm.constants))
    new = rng.choice(["Jsonization", "Descend", "VISITOR", "Model_type"])
    return Mutation(
        "reserved/constant-name",
        rename_word(text, victim, new),
        benign=rename_word(text, victim, "Renamed_harmless_constant"),
    )


def mut_reserved_function_name(text, pm, rng):
    if not pm.functions:
        return None
    victim = rng.choice(sorted(pm.functions))
    new = rng.choice(["descend", "Accept", "verification", "transform"])
    return Mutation(
        "reserved/function-name",
        rename_word(text, victim, new),
        benign=rename_word(text, victim, "renamed_harmless_function"),
    )


def mut_redeclare_inherited_property(text, pm, rng):
    tree = ast.parse(text)
    candidates = []
    for cls in classes_of(tree, pm):
        inherited = [(a, p) for a, p in pm.all_props(cls.name) if a != cls.name]
        if inherited:
            candidates.append((cls, inherited))
    if not candidates:
        return None
    cls, inherited = rng.choice(candidates)
    _, prop = rng.choice(inherited)
    anc_cls = next(c for c in classes_of(tree, pm) if any(
        isinstance(i, ast.AnnAssign) and isinstance(i.target, ast.Name) and i.target.id == prop.name for i in c.body))
    decl = next(i for i in anc_cls.body if isinstance(i, ast.AnnAssign) and i.target.id == prop.name)
    position = 1 if (cls.body and isinstance(cls.body[0], ast.Expr) and isinstance(cls.body[0].value, ast.Constant)) else 0
    cls.body.insert(position, copy.deepcopy(decl))
    return Mutation("redeclared/inherited-property", _unparse(tree))


def _init_of(cls: ast.ClassDef) -> Optional[ast.FunctionDef]:
    for item in cls.body:
        if isinstance(item, ast.FunctionDef) and item.name == "__init__":
            return item
    return None


def _pick_init(tree, pm, rng, min_args=1):
    candidates = []
    for cls in classes_of(tree, pm):
        init = _init_of(cls)
        own = [p.name for p in pm.classes[cls.name].own_props]
        if init is not None and len(init.args.args) - 1 >= min_args and own:
            candidates.append((cls, init, own))
    return rng.choice(candidates) if candidates else None


def mut_ctor_missing_argument(text, pm, rng):
    tree = ast.parse(text)
    picked = _pick_init(tree, pm, rng)
    if picked is None:
        return None
    cls, init, own = picked
    name = rng.choice(own)
    args = init.args.args
    index = next((i for i, a in enumerate(args) if a.arg == name), None)
    if index is None:
        return None
    n_defaults = len(init.args.defaults)
    first_default = len(args) - n_defaults
    if index >= first_default:
        del init.args.defaults[index - first_default]
    del args[index]
    return Mutation("constructor/argument-missing", _unparse(tree))


def mut_ctor_extra_argument(text, pm, rng):
    tree = ast.parse(text)
    picked = _pick_init(tree, pm, rng, min_args=0)
    if picked is None:
        return None
    cls, init, own = picked
    args = init.args.args
    n_defaults = len(init.args.defaults)
    position = len(args) - n_defaults  # last required position
    args.insert(position, ast.arg("surplus_argument_thing", ast.Name("int", ast.Load())))
    return Mutation("constructor/argument-extra", _unparse(tree))


def mut_ctor_renamed_argument(text, pm, rng):
    tree = ast.parse(text)
    picked = _pick_init(tree, pm, rng)
    if picked is None:
        return None
    cls, init, own = picked
    name = rng.choice(own)
    for arg in init.args.args:
        if arg.arg == name:
            arg.arg = name + "_renamed"
    for node in ast.walk(init):
        if isinstance(node, ast.Name) and node.id == name:
            node.id = name + "_renamed"
        if isinstance(node, ast.keyword) and node.arg == name:
            pass
    return Mutation("constructor/argument-renamed", _unparse(tree))


def mut_ctor_retyped_argument(text, pm, rng):
    tree = ast.parse(text)
    picked = _pick_init(tree, pm, rng)
    if picked is None:
        return None
    cls, init, own = picked
    name = rng.choice(own)
    for arg in init.args.args:
        if arg.arg == name:
            current = ast.unparse(arg.annotation) if arg.annotation is not None else ""
            replacement = "int" if "int" not in current else "str"
            if current.startswith("Optional["):
                replacement = f"Optional[{replacement}]"
            arg.annotation = ast.parse(replacement, mode="eval").body
            return Mutation("constructor/argument-retyped", _unparse(tree), note=f"{current}->{replacement}")
    return None


def mut_ctor_reordered_arguments(text, pm, rng):
    tree = ast.parse(text)
    candidates = []
    for cls in classes_of(tree, pm):
        init = _init_of(cls)
        if init is None:
            continue
        args = init.args.args
        required = len(args) - len(init.args.defaults)
        # two adjacent required arguments of different declared types
        for i in range(1, required - 1):
            a, b = args[i], args[i + 1]
            if a.annotation is not None and b.annotation is not None and ast.unparse(a.annotation) != ast.unparse(b.annotation):
                candidates.append((init, i))
    if not candidates:
        return None
    init, i = rng.choice(candidates)
    init.args.args[i], init.args.args[i + 1] = init.args.args[i + 1], init.args.args[i]
    return Mutation("constructor/arguments-reordered", _unparse(tree))


def mut_optional_argument_without_default(text, pm, rng):
    tree = ast.parse(text)
    candidates = [
        _init_of(c) for c in classes_of(tree, pm)
        if _init_of(c) is not None and _init_of(c).args.defaults
    ]
    if not candidates:
        return None
    init = rng.choice(candidates)
    del init.args.defaults[0]
    return Mutation("constructor/optional-argument-without-default", _unparse(tree))


def mut_optional_argument_non_none_default(text, pm, rng):
    return _default_mutation(text, pm, rng, primitive=True)


def mut_optional_argument_non_primitive_default(text, pm, rng):
    return _default_mutation(text, pm, rng, primitive=False)


def _default_mutation(text, pm, rng, primitive):
    tree = ast.parse(text)
    candidates = [
        _init_of(c) for c in classes_of(tree, pm)
        if _init_of(c) is not None and _init_of(c).args.defaults
    ]
    if not candidates:
        return None
    init = rng.choice(candidates)
    k = rng.randrange(len(init.args.defaults))
    enums = [n for n, c in pm.classes.items() if c.is_enum and c.literals]
    choices = [ast.Constant(5), ast.Constant("x"), ast.Constant(True), ast.Constant(1.5),
               ast.List([], ast.Load()), ast.Call(ast.Name("list", ast.Load()), [], [])]
    if enums:
        enum = rng.choice(enums)
        choices.append(ast.Attribute(ast.Name(enum, ast.Load()), pm.classes[enum].literals[0][0], ast.Load()))
        choices.append(ast.Attribute(ast.Name(enum, ast.Load()), pm.classes[enum].literals[0][0], ast.Load()))
    choices = [c for c in choices if isinstance(c, ast.Constant) == primitive]
    chosen = rng.choice(choices)
    init.args.defaults[k] = chosen
    kind = "primitive" if isinstance(chosen, ast.Constant) else "non-primitive"
    return Mutation(f"constructor/optional-argument-default-not-None/{kind}", _unparse(tree))


class _TypeRewriter(ast.NodeTransformer):
    def __init__(self, prop: str, rewrite: Callable[[str], Optional[str]]) -> None:
        self.prop = prop
        self.rewrite = rewrite
        self.done = 0

    def _fix(self, annotation: Optional[ast.AST]) -> Optional[ast.AST]:
        if annotation is None:
            return None
        new = self.rewrite(ast.unparse(annotation))
        if new is None:
            return annotation
        self.done += 1
        return ast.parse(new, mode="eval").body

    def visit_AnnAssign(self, node: ast.AnnAssign) -> Any:
        if isinstance(node.target, ast.Name) and node.target.id == self.prop:
            node.annotation = self._fix(node.annotation)
        return node

    def visit_arg(self, node: ast.arg) -> Any:
        if node.arg == self.prop:
            node.annotation = self._fix(node.annotation)
        return node


def _rewrite_types(text, pm, rng, rule, select, rewrite):
    props = [
        p.name for c in pm.classes.values() if pm.is_class(c.name)
        for p in c.own_props if select(p.type)
    ]
    if not props:
        return None
    tree = ast.parse(text)
    rewriter = _TypeRewriter(rng.choice(props), rewrite)
    rewriter.visit(tree)
    if not rewriter.done:
        return None
    return Mutation(rule, _unparse(tree))


def mut_nested_optional(text, pm, rng):
    return _rewrite_types(
        text, pm, rng, "type-shape/optional-of-optional",
        lambda t: t.kind == "optional",
        lambda src: f"Optional[{src}]" if src.startswith("Optional[") else None,
    )


def mut_list_of_optional(text, pm, rng):
    def rewrite(src: str) -> Optional[str]:
        m = re.fullmatch(r"(Optional\[)?List\[(.*)\](\])?", src)
        if not m:
            return None
        inner = m.group(2)
        if m.group(1):
            inner = src[len("Optional[List["):-2]
            return f"Optional[List[Optional[{inner}]]]"
        return f"List[Optional[{inner}]]"

    return _rewrite_types(
        text, pm, rng, "type-shape/list-of-optional",
        lambda t: t.kind == "list" or (t.kind == "optional" and t.inner is not None and t.inner.kind == "list"),
        rewrite,
    )


def _invariant_decorators(cls: ast.ClassDef) -> List[ast.Call]:
    return [
        d for d in cls.decorator_list
        if isinstance(d, ast.Call) and isinstance(d.func, ast.Name) and d.func.id == "invariant"
        and len(d.args) >= 2 and isinstance(d.args[1], ast.Constant)
    ]


def mut_duplicate_invariant_description(text, pm, rng):
    tree = ast.parse(text)
    candidates = [c for c in tree.body if isinstance(c, ast.ClassDef) and len(_invariant_decorators(c)) >= 2]
    if not candidates:
        return None
    cls = rng.choice(candidates)
    decos = _invariant_decorators(cls)
    benign_tree = copy.deepcopy(tree)
    decos[1].args[1] = ast.Constant(decos[0].args[1].value)
    benign_cls = next(c for c in benign_tree.body if isinstance(c, ast.ClassDef) and c.name == cls.name)
    _invariant_decorators(benign_cls)[1].args[1] = ast.Constant("A fresh and unique description of this constraint.")
    return Mutation("invariant-description/duplicate-in-class", _unparse(tree), benign=_unparse(benign_tree))


def mut_duplicate_description_across_inheritance(text, pm, rng):
    tree = ast.parse(text)
    by_name = {c.name: c for c in tree.body if isinstance(c, ast.ClassDef)}
    candidates = []
    for name, cls in by_name.items():
        if not _invariant_decorators(cls):
            continue
        for anc in pm.ancestors(name):
            if anc in by_name and _invariant_decorators(by_name[anc]):
                candidates.append((cls, by_name[anc]))
    if not candidates:
        return None
    child, parent = rng.choice(candidates)
    _invariant_decorators(child)[0].args[1] = ast.Constant(_invariant_decorators(parent)[0].args[1].value)
    return Mutation("invariant-description/duplicate-across-inheritance", _unparse(tree))


def mut_dangling_doc_reference(text, pm, rng):
    tree = ast.parse(text)
    cls = _pick_class(tree, pm, rng)
    if cls is None:
        return None
    role, target, kind = rng.choice([
        (":class:`Nonexistent_documented_thing`", None, "class"),
        (":attr:`nonexistent_documented_attribute`", None, "attr"),
        (":const:`Nonexistent_documented_constant`", None, "const"),
        (":attr:`Nonexistent_thing.some_attribute`", None, "attr-of-unknown-class"),
    ])
    existing = rng.choice([n for n in pm.order if pm.is_class(n)])
    has_doc = cls.body and isinstance(cls.body[0], ast.Expr) and isinstance(cls.body[0].value, ast.Constant) and isinstance(cls.body[0].value.value, str)
    benign_tree = copy.deepcopy(tree)
    benign_cls = next(c for c in benign_tree.body if isinstance(c, ast.ClassDef) and c.name == cls.name)
    for node, reference in ((cls, role), (benign_cls, f":class:`{existing}`")):
        doc = ast.Expr(ast.Constant(f"Represent something related to {reference}."))
        if has_doc:
            node.body[0] = doc
        else:
            node.body.insert(0, doc)
    return Mutation(f"doc-reference/dangling-{kind}", _unparse(tree), benign=_unparse(benign_tree))


def _pattern_functions(tree: ast.Module, pm: pyexec.PyModel) -> List[Tuple[ast.FunctionDef, ast.Assign]]:
    result = []
    for node in tree.body:
        if isinstance(node, ast.FunctionDef) and node.name in pm.functions and pm.functions[node.name].pattern is not None:
            assigns = [s for s in node.body if isinstance(s, ast.Assign) and isinstance(s.targets[0], ast.Name) and s.targets[0].id == "pattern"]
            if assigns:
                result.append((node, assigns[-1]))
    return result


def _pattern_mutation(text, pm, rng, kind):
    tree = ast.parse(text)
    fns = _pattern_functions(tree, pm)
    if not fns:
        return None
    fn, assign = rng.choice(fns)
    pattern = pm.functions[fn.name].pattern
    if kind == "no-start-anchor":
        new = pattern[1:]
    elif kind == "no-end-anchor":
        new = pattern[:-1]
    elif kind == "alternation-at-root-unanchored-branch":
        new = pattern + "|x"
    elif kind == "alternation-at-root-unanchored-first-branch":
        new = "x|" + pattern
    else:
        new = ""
    benign_tree = copy.deepcopy(tree)
    assign.value = ast.Constant(new)
    benign_fn = next(n for n in benign_tree.body if isinstance(n, ast.FunctionDef) and n.name == fn.name)
    benign_assign = [s for s in benign_fn.body if isinstance(s, ast.Assign) and s.targets[0].id == "pattern"][-1]
    benign_assign.value = ast.Constant("^[a-f]+x?$")
    return Mutation(f"pattern/{kind}", _unparse(tree), benign=_unparse(benign_tree))


def mut_pattern_no_start_anchor(text, pm, rng):
    return _pattern_mutation(text, pm, rng, "no-start-anchor")


def mut_pattern_no_end_anchor(text, pm, rng):
    return _pattern_mutation(text, pm, rng, "no-end-anchor")


def mut_pattern_empty(text, pm, rng):
    return _pattern_mutation(text, pm, rng, "empty")


def mut_pattern_alternation_unanchored_branch(text, pm, rng):
    return _pattern_mutation(text, pm, rng, "alternation-at-root-unanchored-branch")


def mut_pattern_alternation_unanchored_first_branch(text, pm, rng):
    return _pattern_mutation(text, pm, rng, "alternation-at-root-unanchored-first-branch")


# ------------------------------------------------------------------------------
def verdict(text: str) -> Tuple[str, str]:
    loaded, error, exc = driver.load_inprocess(text)
    if exc is not None:
        return "crashed", harness.crash_signature(exc)
    if error is not None:
        return "rejected", error
    return "accepted", ""


def check_base(chk: harness.Check, name: str, text: str, rng, per_rule: int) -> None:
    base_verdict, _ = verdict(text)
    if base_verdict != "accepted":
        chk.count("base_models_not_accepted")
        return
    try:
        pm = pyexec.PyModel(text, execute=False)
    except Exception:
        chk.count("reference_failed")
        return
    chk.count("base_models")
    # the unparse round trip alone must not change the verdict (harness self-check)
    if verdict(ast.unparse(ast.parse(text)) + "\n")[0] != "accepted":
        chk.count("unparsed_twin_not_accepted")
        return
    for rule_name, mutator in sorted(mutators().items()):
        for _ in range(per_rule):
            try:
                mutation = mutator(text, pm, rng)
            except Exception as err:
                chk.count("mutator_failed")
                chk.hist("mutator_failures", f"{rule_name}:{type(err).__name__}")
                mutation = None
            if mutation is None:
                chk.hist("mutator_not_applicable", rule_name)
                break
            try:
                ast.parse(mutation.text)
            except SyntaxError:
                chk.hist("mutator_produced_invalid_python", rule_name)
                continue
            got, detail = verdict(mutation.text)
            chk.count("mutations_judged")
            chk.hist("verdicts", f"{mutation.rule}:{got}")
            chk.case(
                distinct_key=(mutation.rule, got),
                sample={"rule": mutation.rule, "model": name, "verdict": got,
                        "report": detail.strip().splitlines()[-1][:200] if detail else ""}
                if len(chk.samples) < 8 and rng.random() < 0.02 else None,
            )
            if got == "accepted":
                chk.violation(
                    f"rule-broken-but-accepted/{mutation.rule}",
                    {"model": name, "rule": mutation.rule, "note": mutation.note,
                     "mutated_text": mutation.text, "original_text": text},
                )
            elif got == "crashed":
                chk.count("mutations_crashing_the_front_end")
                chk.hist("crashes_left_to_C01", detail[:90])
            if mutation.benign is not None:
                bgot, bdetail = verdict(mutation.benign)
                chk.count("benign_twins_judged")
                if bgot == "rejected":
                    chk.violation(
                        f"benign-twin-rejected/{mutation.rule}",
                        {"model": name, "rule": mutation.rule, "benign_text": mutation.benign,
                         "report": bdetail},
                    )


def worker(args) -> Dict[str, Any]:
    argv, shard, n_shards, n_models, per_rule = args[:-1]
    mins = args[-1]
    chk = harness.Check("C06", "exploration", RULE, argv)
    chk.set_worker_minimums(mins, n_shards)
    budget = chk.wall_budget(170, 900)
    bases: List[Tuple[str, str]] = []
    if shard == 0:
        bases += [m for m in corpus.small_common()]
    if shard == 1:
        bases += [m for m in corpus.models() if "/expected/" in m[0]][:25]
    for i in range(shard, n_models, n_shards):
        profile = mmgen.Profile(
            n_enums=(1, 2), n_const_sets=(1, 2), n_const_prims=(1, 2), n_pattern_fns=(1, 2),
            n_classes=(3, 6), p_invariant=0.9, max_invariants=3, p_docstrings=0.5,
            p_optional=0.5, p_list=0.4, expr_depth=1,
        )
        m = mmgen.generate(chk.rng("model", i), profile)
        bases.append((f"mmg/{chk.seed}/{i}", m.text))
    for idx, (name, text) in enumerate(bases):
        if chk.should_stop(budget):
            chk.count("bases_skipped_for_budget", len(bases) - idx)
            break
        check_base(chk, name, text, chk.rng("mut", name), per_rule)
    return chk.export()


def main(argv) -> int:
    chk = harness.Check("C06", "exploration", RULE, argv)
    n_models = chk.pick(36, 700)
    per_rule = chk.pick(1, 2)
    n_shards = 12
    mins = {
        "mutations_judged": chk.pick(300, 3000),
    }
    with concurrent.futures.ProcessPoolExecutor(max_workers=n_shards) as pool:
        jobs = [pool.submit(worker, (list(argv), s, n_shards, n_models, per_rule, mins)) for s in range(n_shards)]
        for job in jobs:
            try:
                chk.merge(job.result())
            except Exception as err:
                chk.harness_error(f"worker failed: {err!r}")
    rules_seen = {k.split(":")[0] for k in chk.histograms.get("verdicts", {})}
    chk.extra["rules_exercised"] = sorted(rules_seen)
    for rule_name in sorted(rules_seen):
        n = sum(v for k, v in chk.histograms["verdicts"].items() if k.split(":")[0] == rule_name)
        if n < chk.pick(3, 30):
            chk.mark_inconclusive(f"rule {rule_name} exercised only {n} times")
    if len(rules_seen) < 20:
        chk.mark_inconclusive(f"only {len(rules_seen)} rules exercised")
    chk.assume("a crash of the front end on a mutated model is not judged here (C01 owns it); only acceptance of a rule-breaking model is a C06 violation")
    for counter_name, minimum in mins.items():
        chk.require_min(counter_name, minimum)
    return chk.finish()
