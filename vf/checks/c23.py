"""C23 — model caching is opt-in and transparent."""
import concurrent.futures
import io
import os
import pathlib
import pickle
import re
import shutil
import tempfile
import threading
import time
from typing import Any, Callable, Dict, List, Optional, Sequence, Tuple

from vf import corpus, driver, env, fsmon, harness

RULE = (
    "a case is one CLI subprocess run inside a history (sequence of runs with and "
    "without --cache_model over one private TMPDIR, with edits of the model between "
    "runs) observed by an audit hook (every open/rename/remove/mkdir/listdir) and "
    "directory snapshots, or one in-process comparison of a fresh and an unpickled "
    "symbol table (dump, id-set queries, all generators); non-trivial = the run is "
    "not the first of its history, or it is an unpickled-vs-original comparison of a "
    "model with >= 1 class/enumeration; distinct = distinct (history kind, position, "
    "edit kind, target, model) resp. (model, leg)"
)

CACHE_DIR_PREFIX = "aas-core-codegen-"


# ---------------------------------------------------------------------------
# CLI histories
# ---------------------------------------------------------------------------


class Rec:
    """One observed CLI run."""

    def __init__(self) -> None:
        self.text = ""
        self.target = ""
        self.cached = False
        self.rc: Optional[int] = None
        self.stdout = ""
        self.stderr = ""
        self.tree: Dict[str, str] = {}
        self.events: List[Dict[str, Any]] = []
        self.diff: Dict[str, str] = {}
        self.out_dir = pathlib.Path()
        self.world = pathlib.Path()
        self.tmp = pathlib.Path()
        self.timed_out = False


class World:
    """A private TMPDIR + working directory shared by the runs of one history."""

    def __init__(self) -> None:
        self.root = env.new_dir("c23")
        self.tmp = self.root / "tmp"
        self.work = self.root / "work"
        self.logs = self.root / "logs"
        for d in (self.tmp, self.work, self.logs):
            d.mkdir()
        self.n = 0
        self.producers: Dict[str, str] = {}  # cache file -> text of the last writer

    def run(self, text: str, target: str, cached: bool) -> Rec:
        rec = Rec()
        rec.text, rec.target, rec.cached = text, target, cached
        rec.world, rec.tmp = self.root, self.tmp
        i = self.n
        self.n += 1
        logs = self.logs / str(i)
        logs.mkdir()
        rec.out_dir = self.work / f"out-{i}"
        shutil.rmtree(self.work / "snippets", ignore_errors=True)
        before = fsmon.snapshot(self.root, exclude=[self.logs])
        res = driver.run_cli(
            text,
            target,
            cache_model=cached,
            workdir=self.work,
            output_dir=rec.out_dir,
            tmpdir=self.tmp,
            extra_env=fsmon.audit_env(logs),
            timeout=900,
        )
        after = fsmon.snapshot(self.root, exclude=[self.logs])
        # the harness itself (re)writes the model and the snippets before the run
        rec.diff = {
            k: v
            for k, v in fsmon.snapshot_diff(before, after).items()
            if not (k == "work/meta_model.py" or k == "work/snippets" or k.startswith("work/snippets/"))
        }
        rec.rc = res.rc
        rec.timed_out = res.rc is None
        rec.stdout = normalise(res.stdout, rec.out_dir, self.work)
        rec.stderr = normalise(res.stderr, rec.out_dir, self.work)
        rec.tree = driver.tree_digest(rec.out_dir)
        rec.events = fsmon.read_events(logs)
        return rec

    def cleanup(self) -> None:
        shutil.rmtree(self.root, ignore_errors=True)


def normalise(text: str, out_dir: pathlib.Path, work: pathlib.Path) -> str:
    return text.replace(str(out_dir), "<OUT>").replace(str(work), "<WORK>")


def in_cache_dir(path: str, tmp: pathlib.Path) -> bool:
    if not fsmon.is_under(path, tmp) or path == str(tmp):
        return False
    first = os.path.relpath(path, tmp).split("/")[0]
    return first.startswith(CACHE_DIR_PREFIX)


def cache_hits(rec: Rec) -> List[str]:
    """Cache entries opened for reading by the run."""
    return [
        e["path"]
        for e in rec.events
        if e["ev"] == "open"
        and not e.get("w")
        and isinstance(e.get("path"), str)
        and in_cache_dir(e["path"], rec.tmp)
    ]


def brief_events(rec: Rec) -> List[str]:
    """The cache / temp-dir events and the writes of a run (output dir: count only)."""
    result = []
    under_output = 0
    for e in rec.events:
        paths = fsmon.event_paths(e)
        if any(fsmon.is_under(p, rec.world) for p in paths) and (
            fsmon.is_write(e) or any(fsmon.is_under(p, rec.tmp) for p in paths)
        ):
            if all(fsmon.is_under(p, rec.out_dir) for p in paths):
                under_output += 1
                continue
            rel = [fsmon.path_kind(os.path.relpath(p, rec.world)) for p in paths]
            result.append(f"{e['ev']}{'(w)' if e.get('w') else ''}:{'->'.join(rel)}")
    result = result[:40]
    result.append(f"... and {under_output} writes/mkdirs under --output_dir")
    return result


def judge_plain(chk: harness.Check, rec: Rec, wit: Dict[str, Any]) -> None:
    """Without --cache_model: cache untouched, writes only under --output_dir."""
    for e in rec.events:
        for p in fsmon.event_paths(e):
            if in_cache_dir(p, rec.tmp):
                if fsmon.is_write(e):
                    kind = "write"
                elif e["ev"] in fsmon.LISTINGS:
                    kind = "list"
                else:
                    kind = "read"
                chk.violation(
                    f"plain-run-touches-cache/{kind}",
                    dict(wit, event=e, monitor="audit-hook"),
                )
            elif fsmon.is_write(e):
                if fsmon.is_under(p, rec.out_dir):
                    chk.count("plain_writes_under_output_dir")
                    continue
                if p == "/dev/null" or "__pycache__" in p:
                    continue
                if fsmon.is_under(p, rec.tmp):
                    where = "tempdir"
                elif fsmon.is_under(p, rec.world):
                    where = "next-to-model"
                else:
                    where = "elsewhere"
                chk.violation(
                    f"plain-run-writes-outside-output/{where}",
                    dict(wit, event=e, monitor="audit-hook"),
                )
    out_rel = os.path.relpath(rec.out_dir, rec.world)
    for rel, what in rec.diff.items():
        if rel == out_rel or rel.startswith(out_rel + "/"):
            continue
        full = str(rec.world / rel)
        if in_cache_dir(full, rec.tmp):
            chk.violation(
                "plain-run-touches-cache/write",
                dict(wit, path=fsmon.path_kind(rel), change=what, monitor="directory-snapshot"),
            )
        else:
            where = "tempdir" if fsmon.is_under(full, rec.tmp) else "next-to-model"
            chk.violation(
                f"plain-run-writes-outside-output/{where}",
                dict(wit, path=rel, change=what, monitor="directory-snapshot"),
            )


def compare_to_reference(
    chk: harness.Check, rec: Rec, ref: Rec, state: str, wit: Dict[str, Any]
) -> None:
    for aspect, got, want in (
        ("exit-status", rec.rc, ref.rc),
        ("stdout", rec.stdout, ref.stdout),
        ("stderr", rec.stderr, ref.stderr),
        ("output-tree", rec.tree, ref.tree),
    ):
        if got == want:
            continue
        if aspect == "output-tree":
            differing = sorted(
                k for k in set(got) | set(want) if got.get(k) != want.get(k)  # type: ignore
            )[:10]
            detail: Any = {"differing_files": differing}
        else:
            detail = {"got": str(got)[-1500:], "want": str(want)[-1500:]}
        if state == "plain":
            # nothing was cached and still the run differs from an identical run:
            # not decidable here (determinism is C22's subject)
            chk.mark_inconclusive(f"two plain runs of the same model differ in {aspect}")
        else:
            chk.violation(f"cached-run-differs-from-plain/{state}/{aspect}", dict(wit, **detail))


EDITS: Dict[str, Callable[[str], Optional[str]]] = {}


def _edit(name: str):
    def deco(func):
        EDITS[name] = func
        return func

    return deco


@_edit("trailing-newline")
def _e1(text: str) -> Optional[str]:
    return text + "\n"


@_edit("trailing-blank")
def _e2(text: str) -> Optional[str]:
    return text + " \n"


@_edit("leading-newline")
def _e3(text: str) -> Optional[str]:
    return "\n" + text


@_edit("comment-at-end")
def _e4(text: str) -> Optional[str]:
    return text + ("" if text.endswith("\n") else "\n") + "# edited\n"


@_edit("comment-at-start")
def _e5(text: str) -> Optional[str]:
    return "# edited\n" + text


@_edit("strip-trailing-whitespace")
def _e6(text: str) -> Optional[str]:
    stripped = text.rstrip()
    return stripped if stripped != text else None


@_edit("xml-namespace")
def _e7(text: str) -> Optional[str]:
    new = re.sub(r'(__xml_namespace__\s*=\s*")([^"]*)(")', r"\1\2/edited\3", text, count=1)
    return new if new != text else None


@_edit("rename-class")
def _e8(text: str) -> Optional[str]:
    names = re.findall(r"^class ([A-Z][A-Za-z0-9_]*)\b", text, flags=re.M)
    for name in names:
        if len(re.findall(rf"\b{name}\b", text)) >= 1 and f"{name}_edited" not in text:
            return re.sub(rf"\b{name}\b", f"{name}_edited", text)
    return None


@_edit("rename-property")
def _e9(text: str) -> Optional[str]:
    m = re.search(r"^    ([a-z][a-z0-9_]*): ", text, flags=re.M)
    if m is None:
        return None
    name = m.group(1)
    if name in ("self",) or f"{name}_edited" in text:
        return None
    return re.sub(rf"\b{name}\b", f"{name}_edited", text)


@_edit("version-string")
def _e10(text: str) -> Optional[str]:
    new = re.sub(r'(__version__\s*=\s*")([^"]*)(")', r"\1\2.1\3", text, count=1)
    return new if new != text else None


@_edit("edit-in-last-line")
def _e11(text: str) -> Optional[str]:
    # a change only in the final bytes of the file (the namespace / version tail)
    lines = text.rstrip("\n").split("\n")
    if not lines[-1].startswith("__"):
        return None
    return "\n".join(lines) + "  # tail\n"


BREAKS: Dict[str, Callable[[str], str]] = {
    "syntax-error": lambda t: t + "\n)(\n",
    "unexpected-import": lambda t: "import os\n" + t,
    "unknown-base": lambda t: t.replace(
        "\n__version__", "\nclass Zzz_broken(Unknown_thing):\n    pass\n\n\n__version__", 1
    )
    if "\n__version__" in t
    else t + "\nclass Zzz_broken(Unknown_thing):\n    pass\n",
    "missing-namespace": lambda t: re.sub(r"(?m)^__xml_namespace__.*\n?", "", t),
}


def plan_histories(chk: harness.Check, n: int) -> List[Dict[str, Any]]:
    rng = chk.rng("histories")
    models = [m for m in corpus.models() if len(m[1]) < 4000 and "class " in m[1]]
    common = corpus.small_common()
    kinds = [
        "edit-chain",
        "edit-chain",
        "plain",
        "plain-plain",
        "cold-warm-plain",
        "edit-between-cached",
        "a-b-a-b",
        "failing",
        "cached-then-plain-edited",
        "fail-then-fixed",
        "cross-target",
        "edit-between-cached",
        "cold-warm-plain",
        "edit-between-cached",
    ]
    edit_names = list(EDITS)
    rng.shuffle(edit_names)
    histories = []
    for i in range(n):
        kind = kinds[i % len(kinds)]
        name, a = common[i % len(common)] if i < 2 * len(common) else rng.choice(models)
        target = driver.TARGETS[(i * 3 + rng.randrange(8)) % 8] if i >= 8 else driver.TARGETS[i % 8]
        steps: List[Tuple[str, str, bool, str]] = []  # label, text, cached, target
        meta: Dict[str, Any] = {"kind": kind, "model": name, "target": target}
        if kind == "edit-chain":
            # every edit kind once: A, e1(A), e2(A), ..., A  (only the last may hit)
            half = (i // len(kinds) * 2 + i % len(kinds)) % 2
            part = edit_names[half::2]
            steps = [("A", a, True, target)]
            for edit in part:
                edited = EDITS[edit](a)
                if edited is not None and edited != a:
                    steps.append((f"A+{edit}", edited, True, target))
            steps.append(("A", a, True, target))
            meta["edit"] = "chain:" + ",".join(part)
        elif kind == "plain":
            steps = [("A", a, False, target)]
        elif kind == "plain-plain":
            steps = [("A", a, False, target), ("A", a, False, target)]
        elif kind == "cold-warm-plain":
            steps = [("A", a, True, target), ("A", a, True, target), ("A", a, False, target)]
        elif kind in ("edit-between-cached", "cached-then-plain-edited"):
            edited = None
            for k in range(len(edit_names)):
                edit = edit_names[(i + k) % len(edit_names)]
                edited = EDITS[edit](a)
                if edited is not None and edited != a:
                    break
            if edited is None:
                continue
            meta["edit"] = edit
            if kind == "edit-between-cached":
                steps = [("A", a, True, target), ("A'", edited, True, target),
                         ("A", a, True, target), ("A'", edited, True, target)]
            else:
                steps = [("A", a, True, target), ("A'", edited, False, target),
                         ("A'", edited, True, target), ("A'", edited, True, target)]
        elif kind == "a-b-a-b":
            other = rng.choice([m for m in models if m[1] != a])
            meta["model_b"] = other[0]
            steps = [("A", a, True, target), ("B", other[1], True, target),
                     ("A", a, True, target), ("B", other[1], True, target)]
        elif kind in ("failing", "fail-then-fixed"):
            brk = rng.choice(sorted(BREAKS))
            meta["break"] = brk
            f = BREAKS[brk](a)
            if kind == "failing":
                steps = [("F", f, False, target), ("F", f, True, target), ("F", f, True, target)]
            else:
                steps = [("F", f, True, target), ("A", a, True, target), ("A", a, True, target)]
        elif kind == "cross-target":
            other_target = driver.TARGETS[(driver.TARGETS.index(target) + 1 + rng.randrange(7)) % 8]
            steps = [("A", a, True, target), ("A", a, True, other_target),
                     ("A", a, False, other_target)]
        meta["steps"] = steps
        histories.append(meta)
    return histories


def run_history(
    chk: harness.Check,
    meta: Dict[str, Any],
    reference: Callable[[str, str], Rec],
    lock: threading.Lock,
    hard_deadline: float,
) -> None:
    world = World()
    try:
        cached_before: Dict[str, bool] = {}
        trail: List[Dict[str, Any]] = []
        for pos, (label, text, cached, target) in enumerate(meta["steps"]):
            if time.time() > hard_deadline:
                with lock:
                    chk.count("histories_cut_short_for_budget")
                break
            rec = world.run(text, target, cached)
            ref = reference(text, target)
            hits = cache_hits(rec)
            cache_writes = [
                rel for rel, what in rec.diff.items()
                if in_cache_dir(str(world.root / rel), world.tmp) and what in ("created", "changed")
                and not rel.endswith(".tmp") and (world.root / rel).is_file()
            ]
            entry = {
                "pos": pos, "model": label, "cached_flag": cached, "target": target,
                "rc": rec.rc, "cache_hit": bool(hits), "cache_entries_written": len(cache_writes),
                "events": brief_events(rec),
            }
            trail.append(entry)
            wit = {
                "history": {k: v for k, v in meta.items() if k != "steps"},
                "replay_steps": [[l, c, t] for l, _, c, t in meta["steps"][: pos + 1]],
                "replay_texts": {l: x for l, x, _, _ in meta["steps"][: pos + 1]},
                "position": pos,
                "trail": list(trail),
                "model_text": text,
                "stderr": rec.stderr[-1500:],
            }
            with lock:
                if rec.timed_out or ref.timed_out:
                    chk.mark_inconclusive("a CLI run timed out")
                    continue
                state = "warm" if hits else ("cold" if (cached or cache_writes) else "plain")
                chk.count(f"runs_{'with' if cached else 'without'}_flag")
                chk.count("audit_events_seen", len(rec.events))
                chk.hist("run_states", f"{'flag' if cached else 'noflag'}/{state}/rc={rec.rc}")
                chk.hist("targets", target)
                if not cached:
                    judge_plain(chk, rec, wit)
                else:
                    if hits:
                        chk.count("warm_hits_with_flag")
                    if cache_writes:
                        chk.count("cold_writes_with_flag")
                compare_to_reference(chk, rec, ref, state, wit)
                # provenance of the entries that were read
                for path in hits:
                    producer = world.producers.get(path)
                    chk.count("cache_reads_checked_for_provenance")
                    if producer is not None and producer != text:
                        chk.violation(
                            "cache-entry-reused-for-different-text",
                            dict(wit, entry=fsmon.path_kind(os.path.relpath(path, world.tmp)),
                                 producer_text=producer),
                        )
                    elif producer is not None:
                        chk.count("warm_hits_for_identical_text")
                for rel in cache_writes:
                    world.producers[str(world.root / rel)] = text
                if cached and rec.rc == 0 and cached_before.get(text):
                    chk.count("runs_expected_warm")
                if cached and rec.rc == 0:
                    cached_before[text] = True
                chk.case(
                    distinct_key=(meta["kind"], pos, meta.get("edit"), meta.get("break"), target, meta["model"])
                    if pos > 0 else None,
                    sample={"history": wit["history"], "trail": trail}
                    if pos == len(meta["steps"]) - 1 and meta["kind"] in ("edit-between-cached", "cold-warm-plain")
                    else None,
                )
    finally:
        world.cleanup()


# ---------------------------------------------------------------------------
# in-process: unpickled == original
# ---------------------------------------------------------------------------


def query_answers(symbol_table: Any) -> Dict[str, Any]:
    """
    Answers of the id-set based queries, with objects replaced by their position in
    a deterministic traversal (so that answers of two tables can be compared).
    """
    pool: List[Any] = []
    index: Dict[int, int] = {}

    def add(obj: Any) -> None:
        if obj is not None and id(obj) not in index:
            index[id(obj)] = len(pool)
            pool.append(obj)

    def seq(obj: Any, attr: str) -> List[Any]:
        try:
            value = getattr(obj, attr)
        except Exception:
            return []
        if isinstance(value, (list, tuple)):
            return list(value)
        return []

    for our_type in symbol_table.our_types:
        add(our_type)
    for our_type in list(pool):
        for attr in ("properties", "methods", "invariants", "literals", "inheritances"):
            for item in seq(our_type, attr):
                add(item)
        add(getattr(our_type, "constructor", None))
        interface = getattr(our_type, "interface", None)
        add(interface)
        for attr in ("properties", "signatures", "inheritances", "implementers"):
            for item in seq(interface, attr):
                add(item)
    for constant in symbol_table.constants:
        add(constant)
        for item in seq(constant, "literals"):
            add(item)
    for func in symbol_table.verification_functions:
        add(func)

    def ref(obj: Any) -> Any:
        if obj is None:
            return None
        return index.get(id(obj), f"<not in pool: {type(obj).__name__}>")

    answers: Dict[str, Any] = {"pool": [type(o).__name__ for o in pool]}
    id_sets = 0
    for i, obj in enumerate(pool):
        names = set(dir(type(obj)))
        try:
            names |= set(vars(obj))
        except TypeError:
            pass
        for name in sorted(names):
            if not name.endswith("_id_set"):
                continue
            try:
                value = getattr(obj, name)
                answers[f"{i}.{name}"] = (
                    len(value),
                    sorted(index[j] for j in value if j in index),
                )
                id_sets += 1
            except Exception as err:  # noqa
                answers[f"{i}.{name}"] = ("raised", type(err).__name__)
        for name in ("properties_by_name", "methods_by_name"):
            if hasattr(obj, name):
                try:
                    answers[f"{i}.{name}"] = [(str(k), ref(v)) for k, v in getattr(obj, name).items()]
                except Exception as err:  # noqa
                    answers[f"{i}.{name}"] = ("raised", type(err).__name__)
    answers["__id_sets__"] = id_sets

    from aas_core_codegen import intermediate

    for kind in (intermediate.Class, intermediate.ConstrainedPrimitive):
        members = [o for o in pool if isinstance(o, kind)]
        for x in members:
            row = []
            for y in members:
                try:
                    row.append(bool(x.is_subclass_of(y)))
                except Exception as err:  # noqa
                    row.append(type(err).__name__)
            answers[f"{index[id(x)]}.is_subclass_of"] = row

    names = [str(t.name) for t in symbol_table.our_types]
    names += [str(c.name) for c in symbol_table.constants]
    names += [str(f.name) for f in symbol_table.verification_functions]
    names += ["Does_not_exist_anywhere"]
    from aas_core_codegen.common import Identifier

    finders = sorted(
        n for n in dir(symbol_table)
        if n.startswith("must_find_") or n.startswith("find_")
    )
    for finder in finders:
        func = getattr(symbol_table, finder)
        for name in names:
            try:
                answers[f"{finder}({name})"] = ("ok", ref(func(Identifier(name))))
            except Exception as err:  # noqa
                answers[f"{finder}({name})"] = ("raised", type(err).__name__)
    answers["constants_by_name"] = [(str(k), ref(v)) for k, v in symbol_table.constants_by_name.items()]
    answers["verification_functions_by_name"] = [
        (str(k), ref(v)) for k, v in symbol_table.verification_functions_by_name.items()
    ]
    for attr in ("our_types", "our_types_topologically_sorted", "enumerations",
                 "constrained_primitives", "classes", "concrete_classes"):
        answers[attr] = [ref(o) for o in getattr(symbol_table, attr)]
    literals = [o for o in pool if isinstance(o, intermediate.EnumerationLiteral)]
    for name in names:
        row = []
        for literal in literals:
            try:
                row.append(bool(symbol_table.is_enumeration_literal_of(literal, Identifier(name))))
            except Exception as err:  # noqa
                row.append(type(err).__name__)
        answers[f"is_enumeration_literal_of(*, {name})"] = row
    return answers


def execute_with_table(
    pair: Tuple[Any, Any], text: str, target: str
) -> Tuple[Optional[int], str, str, Dict[str, str], Optional[BaseException]]:
    """Run the real ``main.execute`` with ``run.load_model`` answering ``pair``."""
    from aas_core_codegen import main as cg_main, run as cg_run

    workdir, model_path, snippets_dir, output_dir = driver.prepare(text, target)
    real = cg_run.load_model
    cg_run.load_model = lambda model_path, cache_model=False: (pair, None)  # type: ignore
    stdout, stderr = io.StringIO(), io.StringIO()
    rc, exc = None, None
    try:
        params = cg_main.Parameters(
            model_path=model_path,
            target=cg_main.Target(target),
            snippets_dir=snippets_dir,
            output_dir=output_dir,
        )
        rc = cg_main.execute(params, stdout=stdout, stderr=stderr)
    except Exception as err:  # noqa
        exc = err
    finally:
        cg_run.load_model = real  # type: ignore
    tree = driver.tree_digest(output_dir)
    out = normalise(stdout.getvalue(), output_dir, workdir)
    err_text = normalise(stderr.getvalue(), output_dir, workdir)
    shutil.rmtree(workdir, ignore_errors=True)
    return rc, out, err_text, tree, exc


def unpickled_equivalence(
    argv: Sequence[str], name: str, text: str, targets: Sequence[str],
    deadline: Optional[float] = None,
) -> Dict[str, Any]:
    chk = harness.Check("C23", "exploration", RULE, argv)
    from aas_core_codegen import intermediate, run as cg_run

    if deadline is not None and time.time() > deadline:
        chk.count("inprocess_models_skipped_for_budget")
        return chk.export()

    work = env.new_dir("eq")
    private_tmp = work / "tmp"
    private_tmp.mkdir()
    saved_tmp = tempfile.tempdir
    tempfile.tempdir = str(private_tmp)
    try:
        model_path = work / "meta_model.py"
        model_path.write_text(text, encoding="utf-8")
        try:
            result, error = cg_run.load_model(model_path, cache_model=False)
        except Exception:  # noqa  (a crashing front end is the subject of C01)
            chk.count("inprocess_models_crashing_the_front_end")
            return chk.export()
        if result is None:
            chk.count("inprocess_models_rejected")
            return chk.export()
        shutil.rmtree(private_tmp, ignore_errors=True)  # the pinned tree may have cached
        private_tmp.mkdir()
        symbol_table, atok = result
        nontrivial = len(symbol_table.our_types) >= 1
        wit = {"model": name, "model_text": text}

        cached_class = getattr(cg_run, "_Cached", None)
        legs: List[Tuple[str, Any]] = []
        try:
            if cached_class is not None:
                restored = pickle.loads(pickle.dumps(cached_class(symbol_table=symbol_table, atok=atok)))
                legs.append(("pickle-roundtrip", (restored.symbol_table, restored.atok)))
            else:
                legs.append(("pickle-roundtrip", pickle.loads(pickle.dumps((symbol_table, atok)))))
        except Exception as err:  # noqa
            chk.violation(
                f"unpickled-differs/pickle-roundtrip/raises/{harness.crash_signature(err)}",
                dict(wit, exception=harness.format_exc(err)),
            )
        # the route of a real warm run: load_model twice with cache_model=True
        try:
            first, _ = cg_run.load_model(model_path, cache_model=True)
            entries = [p for p in private_tmp.rglob("*") if p.is_file()]
            second, _ = cg_run.load_model(model_path, cache_model=True)
            if entries and second is not None:
                chk.count("inprocess_warm_loads")
                legs.append(("load_model-warm", second))
        except Exception as err:  # noqa
            chk.violation(
                f"unpickled-differs/load_model-warm/raises/{harness.crash_signature(err)}",
                dict(wit, exception=harness.format_exc(err)),
            )

        want_dump = intermediate.dump(symbol_table)
        want_answers = query_answers(symbol_table)
        chk.count("id_sets_queried", want_answers["__id_sets__"])
        fresh_outputs: Dict[str, Any] = {}
        for leg, (table2, atok2) in legs:
            chk.count("unpickled_tables_compared")
            try:
                if intermediate.dump(table2) != want_dump:
                    chk.violation(f"unpickled-differs/{leg}/intermediate-dump", wit)
                if atok2.text != atok.text:
                    chk.violation(f"unpickled-differs/{leg}/atok-text", wit)
            except Exception as err:  # noqa
                chk.violation(
                    f"unpickled-differs/{leg}/dump-raises/{harness.crash_signature(err)}",
                    dict(wit, exception=harness.format_exc(err)),
                )
            try:
                got_answers = query_answers(table2)
            except Exception as err:  # noqa
                chk.violation(
                    f"unpickled-differs/{leg}/query-raises/{harness.crash_signature(err)}",
                    dict(wit, exception=harness.format_exc(err)),
                )
                got_answers = None
            if got_answers is not None and got_answers != want_answers:
                differing = sorted(
                    k for k in set(got_answers) | set(want_answers)
                    if got_answers.get(k) != want_answers.get(k)
                )
                kinds = sorted({re.sub(r"^\d+\.", "", re.sub(r"\(.*", "", k)) for k in differing})
                chk.violation(
                    f"unpickled-differs/{leg}/query/{kinds[0]}",
                    dict(wit, differing=differing[:20],
                         got={k: got_answers.get(k) for k in differing[:5]},
                         want={k: want_answers.get(k) for k in differing[:5]}),
                )
            chk.count("queries_compared", len(want_answers))
            if leg != "pickle-roundtrip" and len(legs) > 1:
                continue  # the generators run once on an unpickled table
            for target in targets:
                if target not in fresh_outputs:
                    fresh_outputs[target] = execute_with_table((symbol_table, atok), text, target)
                fresh = fresh_outputs[target]
                got = execute_with_table((table2, atok2), text, target)
                chk.count("generator_runs_compared")
                chk.hist("generator_targets", f"{target}/rc={fresh[0]}")
                for aspect, g, w in (
                    ("exit-status", got[0], fresh[0]),
                    ("stdout", got[1], fresh[1]),
                    ("stderr", got[2], fresh[2]),
                    ("output-tree", got[3], fresh[3]),
                    ("exception", type(got[4]).__name__, type(fresh[4]).__name__),
                ):
                    if g != w:
                        chk.violation(
                            f"unpickled-differs/{leg}/generator-{aspect}",
                            dict(wit, target=target, got=str(g)[-1500:], want=str(w)[-1500:]),
                        )
            chk.case(
                distinct_key=("unpickled", name, leg) if nontrivial else None,
                sample={"model": name, "leg": leg, "our_types": len(symbol_table.our_types),
                        "id_sets": want_answers["__id_sets__"], "targets": list(targets)}
                if name.startswith("common_meta_models/deep") else None,
            )
    finally:
        tempfile.tempdir = saved_tmp
        shutil.rmtree(work, ignore_errors=True)
    return chk.export()


# ---------------------------------------------------------------------------


def replay(chk: harness.Check, argv: Sequence[str]) -> int:
    """Re-run the history / the in-process comparison stored in a replay file."""
    import json

    witness = json.loads(pathlib.Path(chk.replay).read_text())["witness"]
    lock = threading.Lock()
    if "replay_steps" in witness:
        texts = witness["replay_texts"]
        meta = dict(witness.get("history", {}))
        meta["steps"] = [(l, texts[l], bool(c), t) for l, c, t in witness["replay_steps"]]
        meta.setdefault("kind", "replay")
        meta.setdefault("model", "replay")
        references: Dict[Tuple[str, str], Rec] = {}

        def reference(text: str, target: str) -> Rec:
            if (text, target) not in references:
                world = World()
                try:
                    references[(text, target)] = world.run(text, target, False)
                finally:
                    world.cleanup()
                judge_plain(chk, references[(text, target)],
                            {"history": {"kind": "reference-plain-run-in-fresh-tmpdir"}, "model_text": text})
            return references[(text, target)]

        run_history(chk, meta, reference, lock, time.time() + 3600)
    elif "model_text" in witness:
        chk.merge(unpickled_equivalence(list(argv), witness.get("model", "replay"),
                                        witness["model_text"], driver.TARGETS))
    else:
        chk.mark_inconclusive("the replay file carries neither a history nor a model")
    if not chk.violations and not chk.known_hits:
        chk.mark_inconclusive("the recorded violation did not show again")
    return chk.finish()


def main(argv) -> int:
    chk = harness.Check("C23", "exploration", RULE, argv)
    if chk.replay:
        return replay(chk, argv)
    quick = chk.tier == "quick"
    budget = chk.wall_budget(85, 660)
    lock = threading.Lock()

    # -- CLI histories ----------------------------------------------------
    histories = plan_histories(chk, chk.pick(16, 300))
    if not quick:
        v3 = corpus.v3()
        histories.insert(
            10,
            {"kind": "cold-warm-plain", "model": "aas_core_meta.v3", "target": "python",
             "steps": [("A", v3, True, "python"), ("A", v3, True, "python"), ("A", v3, False, "python")]},
        )
    references: Dict[Tuple[str, str], Rec] = {}
    ref_locks: Dict[Tuple[str, str], threading.Lock] = {}

    def reference(text: str, target: str) -> Rec:
        key = (text, target)
        with lock:
            key_lock = ref_locks.setdefault(key, threading.Lock())
        with key_lock:
            if key not in references:
                world = World()
                try:
                    rec = world.run(text, target, False)
                finally:
                    world.cleanup()
                with lock:
                    references[key] = rec
                    if not rec.timed_out:
                        chk.count("reference_runs")
                        judge_plain(
                            chk, rec,
                            {"history": {"kind": "reference-plain-run-in-fresh-tmpdir", "target": target},
                             "model_text": text, "trail": [{"events": brief_events(rec)}]},
                        )
            return references[key]

    deadline = chk.t0 + budget * 0.7
    hard_deadline = chk.t0 + budget * 0.9

    mandatory = {id(meta) for meta in histories[:10]}  # one of each kind, always run

    def guarded(meta: Dict[str, Any]) -> None:
        must = id(meta) in mandatory
        if time.time() > deadline and not must:
            with lock:
                chk.count("histories_skipped_for_budget")
            return
        try:
            run_history(chk, meta, reference, lock, hard_deadline if not must else float("inf"))
            with lock:
                chk.count("histories_run")
                chk.hist("history_kinds", meta["kind"] + ("/" + meta["edit"] if "edit" in meta else ""))
        except Exception as err:  # noqa
            with lock:
                chk.harness_error(f"history {meta['kind']}: {harness.format_exc(err)}"[-1500:])

    # -- in-process equivalence runs in worker processes meanwhile --------------
    models = corpus.models()
    rng = chk.rng("inprocess")
    common = [m for m in models if m[0].startswith("common_meta_models/")]
    others = [m for m in models if not m[0].startswith("common_meta_models/")]
    rng.shuffle(others)
    eq_models = common + others[: chk.pick(30, len(others))]
    eq_jobs: List[Tuple[str, str, Sequence[str]]] = []
    for i, (name, text) in enumerate(eq_models):
        if quick and not name.startswith("common_meta_models/"):
            targets: Sequence[str] = [driver.TARGETS[i % 8], driver.TARGETS[(i + 3) % 8]]
        else:
            targets = driver.TARGETS
        eq_jobs.append((name, text, targets))
    if not quick:
        for target in driver.TARGETS:
            eq_jobs.append(("common_meta_models/aas_core_meta.v3.py", corpus.v3(), [target]))

    with concurrent.futures.ProcessPoolExecutor(max_workers=chk.pick(3, 6)) as procs:
        eq_deadline = chk.t0 + budget * 0.8
        heavy_deadline = chk.t0 + budget * 0.35  # v3: ~1 min per job on an idle machine
        futures = [
            procs.submit(
                unpickled_equivalence, list(argv), *job,
                None if i < 12 else (heavy_deadline if "v3" in job[0] else eq_deadline),
            )
            for i, job in enumerate(eq_jobs)
        ]
        with concurrent.futures.ThreadPoolExecutor(max_workers=8) as threads:
            list(threads.map(guarded, histories))
        for future in futures:
            try:
                chk.merge(future.result())
            except BaseException as err:  # noqa
                chk.harness_error(f"in-process worker died: {err!r}")

    chk.require_min("runs_without_flag", chk.pick(5, 40))
    chk.require_min("runs_with_flag", chk.pick(10, 120))
    chk.require_min("warm_hits_with_flag", chk.pick(4, 30))
    chk.require_min("warm_hits_for_identical_text", chk.pick(4, 30))
    chk.require_min("unpickled_tables_compared", chk.pick(16, 150))
    chk.require_min("generator_runs_compared", chk.pick(48, 600))
    chk.require_min("id_sets_queried", 200)
    chk.assume(
        "reads are what the audit hook sees as open()/listdir()/scandir(); a bare "
        "stat()/exists() of the cache path is not counted as reading the cache"
    )
    chk.assume(
        "interpreter internals are ignored: writes to /dev/null and __pycache__ "
        "(runs use PYTHONDONTWRITEBYTECODE=1)"
    )
    return chk.finish()
