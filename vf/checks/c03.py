"""C03 — exit status and error-report contract."""
import concurrent.futures
import io
import re
from typing import Any, Dict, List, Optional, Tuple

from vf import corpus, driver, env, harness, hooks, mmgen, textmut

RULE = (
    "runs of the real main.execute (in-process, all 8 targets) on fixture models, generated "
    "models, text-mutated models and a conservation workload (k = 2,3,5 independent defects "
    "of one kind injected into k classes), plus real CLI subprocess runs for argument errors "
    "(missing model, snippets dir, output dir being a file, unreadable snippet) and both "
    "CLI forms; monitors: (rc, stdout, stderr) and a wrapper on run.write_error_report; "
    "oracle: rc == 0 <=> stderr empty; rc == 0 => stdout ends with the 'Code generated to:' "
    "line; rc != 0 => non-empty stderr that obeys the report grammar whenever it starts with "
    "a headline; each injected defect is named in the report; distinct_nontrivial = distinct "
    "(target, rc, report headline) triples"
)

CLASS_TEMPLATE = '''
class Thing_{i}(DBC):
    some_name_{i}: str

    def __init__(self, some_name_{i}: str) -> None:
        self.some_name_{i} = some_name_{i}
'''
FOOTER = '\n__version__ = "dummy"\n__xml_namespace__ = "https://dummy.com"\n'

DEFECT_KINDS = {
    "unknown-decorator": (lambda body, i: f"\n@unknown_marker_{i}" + body, "unknown_marker_{i}"),
    "reserved-property-prefix": (lambda body, i: body.replace(f"some_name_{i}", f"mutable_name_{i}"), "mutable_name_{i}"),
    "dangling-type": (lambda body, i: body.replace(": str", f": Missing_type_{i}"), "Missing_type_{i}"),
    "optional-argument-without-default": (
        lambda body, i: body.replace(f"some_name_{i}: str", f"some_name_{i}: Optional[str]"), "some_name_{i}"),
    "reserved-type-prefix": (lambda body, i: body.replace(f"Thing_{i}", f"I_thing_{i}"), "I_thing_{i}"),
    "duplicate-invariant-description": (
        lambda body, i: (
            f'\n@invariant(lambda self: len(self.some_name_{i}) > 1, "Same text {i}.")'
            f'\n@invariant(lambda self: len(self.some_name_{i}) > 2, "Same text {i}.")' + body),
        "Same text {i}."),
    "unknown-member-in-invariant": (
        lambda body, i: f'\n@invariant(lambda self: self.missing_{i} > 3, "Bad {i}.")' + body, "missing_{i}"),
}


# Kinds of errors found by the *same* verification battery of the intermediate stage:
# errors of different kinds in different classes are independent and must all be
# reported together (the only documented dependency: the constructor/property match is
# skipped while some property is not initialised).
BATTERY_KINDS = {
    "ctor-type-mismatch": ('''
class Thing_{i}(DBC):
    some_name_{i}: str

    def __init__(self, some_name_{i}: int) -> None:
        self.some_name_{i} = some_name_{i}
''', "some_name_{i}"),
    "optional-no-default": ('''
class Thing_{i}(DBC):
    some_name_{i}: Optional[str]

    def __init__(self, some_name_{i}: Optional[str]) -> None:
        self.some_name_{i} = some_name_{i}
''', "some_name_{i}"),
    "not-initialized": ('''
class Thing_{i}(DBC):
    some_name_{i}: str
    other_name_{i}: str

    def __init__(self, some_name_{i}: str) -> None:
        self.some_name_{i} = some_name_{i}
''', "other_name_{i}"),
    "model-type-missing": ('''
class Base_{i}(DBC):
    some_name_{i}: str

    def __init__(self, some_name_{i}: str) -> None:
        self.some_name_{i} = some_name_{i}


class Child_{i}(Base_{i}):
    def __init__(self, some_name_{i}: str) -> None:
        Base_{i}.__init__(self, some_name_{i}=some_name_{i})


class User_{i}(DBC):
    base_{i}: Base_{i}

    def __init__(self, base_{i}: Base_{i}) -> None:
        self.base_{i} = base_{i}
''', "Base_{i}"),
    "bad-call-in-invariant": ('''
@invariant(lambda self: unknown_function_{i}(self.some_name_{i}), "Must hold {i}.")
class Thing_{i}(DBC):
    some_name_{i}: str

    def __init__(self, some_name_{i}: str) -> None:
        self.some_name_{i} = some_name_{i}
''', "unknown_function_{i}"),
    "dup-invariant": ('''
@invariant(lambda self: len(self.some_name_{i}) > 1, "Same text {i}.")
@invariant(lambda self: len(self.some_name_{i}) > 2, "Same text {i}.")
class Thing_{i}(DBC):
    some_name_{i}: str

    def __init__(self, some_name_{i}: str) -> None:
        self.some_name_{i} = some_name_{i}
''', "Same text {i}."),
}


def mixed_conservation_model(rng) -> Tuple[str, List[str], str]:
    n = rng.choice([2, 2, 3, 4])
    kinds = rng.sample(sorted(BATTERY_KINDS), n)
    if "ctor-type-mismatch" in kinds and "not-initialized" in kinds:
        kinds.remove(rng.choice(["ctor-type-mismatch", "not-initialized"]))
    bodies, markers = [], []
    order = list(enumerate(kinds))
    rng.shuffle(order)
    for i, kind in order:
        template, marker = BATTERY_KINDS[kind]
        bodies.append(template.format(i=i))
        markers.append(marker.format(i=i))
    # a correct class in between
    bodies.insert(rng.randrange(len(bodies) + 1), CLASS_TEMPLATE.format(i=99))
    return "".join(bodies) + FOOTER, markers, "mixed:" + "+".join(sorted(kinds))


def conservation_model(kind: str, k: int, extra: int, rng) -> Tuple[str, List[str]]:
    inject, marker = DEFECT_KINDS[kind]
    n = k + extra
    defective = set(rng.sample(range(n), k))
    bodies, markers = [], []
    for i in range(n):
        body = CLASS_TEMPLATE.format(i=i)
        if i in defective:
            body = inject(body, i)
            markers.append(marker.format(i=i))
        bodies.append(body)
    return "".join(bodies) + FOOTER, markers


def grammar_problem(report: str) -> Optional[str]:
    """Check the report grammar; return the broken clause or None."""
    if not report.endswith("\n"):
        return "no-trailing-newline"
    lines = report[:-1].split("\n")
    headline = lines[0]
    if not headline.endswith(":"):
        return "headline-does-not-end-with-colon"
    if headline.startswith(("*", " ")) or headline.strip() == ":":
        return "headline-malformed"
    if len(lines) < 2:
        return "no-entries"
    in_entry = False
    for line in lines[1:]:
        if line.startswith("* "):
            if line.startswith("* *"):
                return "double-bullet"
            if line[2:].strip() == "":
                return "empty-entry"
            in_entry = True
        elif line.startswith("  ") or line == "":
            if not in_entry:
                return "continuation-before-first-entry"
        else:
            return "line-neither-entry-nor-indented-continuation"
    return None


def render_report(message: str, errors: List[str]) -> str:
    """Render a report as the statement describes it (independent of the repo's helper)."""
    parts = [f"{message}:\n"]
    for error in errors:
        lines = error.split("\n")
        parts.append("* " + lines[0] + "\n")
        for line in lines[1:]:
            parts.append(("  " + line if line.strip() != "" else line) + "\n")
    return "".join(parts)


_SPLITLINES_BREAKS = "\x0b\x0c\x1c\x1d\x1e\x85\u2028\u2029\r"


def loose_layout(text: str) -> str:
    """
    Forget the indentation after a character at which ``str.splitlines`` breaks.

    A message may quote such a character from the model (form feed, U+2028, ...); how the
    continuation is indented is layout that the property does not speak about.
    """
    return re.sub(f"([{_SPLITLINES_BREAKS}])[ ]*", r"\1", text)


def headline_of(stderr: str) -> str:
    first = stderr.split("\n", 1)[0]
    first = re.sub(r"/[^ :]*", "PATH", first)
    return re.sub(r"\d+", "N", first)[:60]


class Recorder:
    def __init__(self) -> None:
        self.calls: List[Tuple[str, List[str], str]] = []

    def observer(self, args, kwargs, result, err) -> None:
        message = kwargs.get("message", args[0] if args else None)
        errors = kwargs.get("errors", args[1] if len(args) > 1 else None)
        stream = kwargs.get("stderr", args[2] if len(args) > 2 else None)
        self.calls.append((message, list(errors or []), "raised" if err is not None else "ok"))


def judge_run(chk: harness.Check, name: str, text: str, target: str, result: driver.RunResult,
              recorder: Recorder, markers: Optional[List[str]] = None, kind: str = "") -> None:
    witness = {"model": name, "target": target, "text": text, "rc": result.rc,
               "stdout": result.stdout[-400:], "stderr": result.stderr[:3000]}
    if result.exc is not None:
        chk.count("runs_crashed_left_to_C01_C02")
        return
    chk.count("runs")
    rc, out, err = result.rc, result.stdout, result.stderr
    chk.case(distinct_key=(target, rc, headline_of(err)))
    if rc == 0:
        chk.count("runs_exit_0")
        if err != "":
            chk.violation("exit-0-with-stderr", witness)
        expected_tail = f"Code generated to: {result.output_dir}\n"
        if not out.endswith(expected_tail):
            chk.violation("exit-0-without-success-line", dict(witness, expected_tail=expected_tail))
    else:
        chk.count("runs_exit_non_zero")
        if err.strip() == "":
            chk.violation("non-zero-exit-with-empty-stderr", witness)
            return
        if rc != 1:
            chk.violation("exit-status-not-0-or-1", witness)
        if "Code generated to:" in out:
            chk.violation("non-zero-exit-with-success-line", witness)
        first = err.split("\n", 1)[0]
        if first.endswith(":") or "\n* " in err or err.startswith("* "):
            problem = grammar_problem(err)
            chk.count("reports_grammar_checked")
            if problem is not None:
                chk.violation(f"report-grammar/{problem}", dict(witness, headline=headline_of(err)))
        else:
            chk.count("single_line_messages")
            if "\n" in err.rstrip("\n"):
                chk.violation("unstructured-multi-line-stderr", witness)
        # every report written through the helper must reach stderr verbatim
        for message, errors, status in recorder.calls:
            if status != "ok":
                chk.violation("write_error_report-precondition-violated", dict(witness, message=message, errors=errors[:5]))
                continue
            rendered = render_report(message, errors)
            chk.count("helper_reports_traced")
            if len(errors) >= 2:
                chk.count("helper_reports_with_several_entries")
            if rendered not in err and loose_layout(rendered) not in loose_layout(err):
                # load_model renders into a string that main writes out: still must be there
                chk.violation(
                    "report-not-rendered-as-headline-and-bulleted-entries"
                    + ("/several-entries" if len(errors) >= 2 else ""),
                    dict(witness, expected_rendering=rendered[:1500]))
        if markers is not None:
            chk.count("conservation_cases")
            missing = [m for m in markers if m not in err]
            chk.count("injected_errors", len(markers))
            chk.count("injected_errors_reported", len(markers) - len(missing))
            if missing:
                chk.violation(f"error-dropped/{kind}", dict(witness, injected=markers, missing=missing))


recorder_original = None


class ErrorBirths:
    """
    Monitor on ``common.Error.__init__``: who constructed an error object during a run.

    A run that exits 0 must not have constructed any -- an error object that exists and is
    not reported has been dropped.  The one legitimate source is the speculative matching
    of ``intermediate.pattern_verification.try_to_understand`` (its errors say "this is not
    a pattern verification function", the function is then tried as a transpilable one).
    """

    SPECULATIVE = ("pattern_verification.py:try_to_understand",)

    def __init__(self) -> None:
        from aas_core_codegen.common import Error

        self.cls = Error
        self.original = Error.__init__
        self.births: List[Tuple[str, str]] = []
        births = self.births
        original = self.original

        def init(this, *args, **kwargs):  # type: ignore
            original(this, *args, **kwargs)
            import traceback as tb

            where = "?"
            for frame in reversed(tb.extract_stack(limit=10)[:-1]):
                if "icontract" in frame.filename or frame.filename == __file__:
                    continue
                where = f"{frame.filename.rsplit('aas_core_codegen/', 1)[-1]}:{frame.name}"
                break
            births.append((where, str(getattr(this, "message", ""))[:200]))

        Error.__init__ = init  # type: ignore

    def uninstall(self) -> None:
        self.cls.__init__ = self.original  # type: ignore

    def dropped(self) -> List[Tuple[str, str]]:
        return [b for b in self.births if not b[0].endswith(self.SPECULATIVE)]


def run_and_judge(chk, name, text, target, markers=None, kind="", extra_snippets=None) -> None:
    global recorder_original
    recorder = Recorder()
    monitor = hooks.Monitor("aas_core_codegen.run", "write_error_report", recorder.observer)
    recorder_original = monitor.original
    births = ErrorBirths()
    try:
        result = driver.run_inprocess(text, target, extra_snippets=extra_snippets)
    finally:
        monitor.uninstall()
        births.uninstall()
    try:
        judge_run(chk, name, text, target, result, recorder, markers, kind)
        chk.count("error_objects_constructed", len(births.births))
        if result.exc is None and result.rc == 0:
            chk.count("runs_exit_0_checked_for_constructed_errors")
            dropped = births.dropped()
            if dropped:
                where = sorted({w for w, _ in dropped})[0]
                chk.violation(
                    f"error-constructed-but-run-exits-0/{target}/{where}",
                    {"model": name, "target": target, "text": text, "rc": result.rc,
                     "errors_constructed_and_not_reported": [list(b) for b in dropped[:12]]},
                )
            else:
                chk.count("speculative_errors_seen", len(births.births))
    finally:
        result.cleanup()


def cli_cases(chk: harness.Check) -> None:
    """Argument errors and both CLI forms through real subprocesses."""
    import os
    import pathlib
    import subprocess

    good = corpus.small_common()[0][1]
    bad = "class Something:\n    x: Missing_type\n" + FOOTER
    cases = []
    for label, text, tweak in [
        ("ok", good, None), ("rejected-model", bad, None), ("missing-model", good, "missing-model"),
        ("missing-snippets", good, "missing-snippets"), ("output-is-file", good, "output-is-file"),
        ("snippet-not-utf8", good, "snippet-not-utf8"), ("model-is-dir", good, "model-is-dir"),
    ]:
        for form in ("-m aas_core_codegen", "-m aas_core_codegen.main"):
            cases.append((label, text, tweak, form))
    for label, text, tweak, form in cases:
        workdir, model_path, snippets_dir, output_dir = driver.prepare(text, "python")
        try:
            if tweak == "missing-model":
                model_path.unlink()
            elif tweak == "missing-snippets":
                import shutil

                shutil.rmtree(snippets_dir)
            elif tweak == "output-is-file":
                output_dir.write_text("not a directory")
            elif tweak == "snippet-not-utf8":
                (snippets_dir / "broken.txt").write_bytes(b"\xff\xfe\xfa")
            elif tweak == "model-is-dir":
                model_path.unlink()
                model_path.mkdir()
            cmd = [env.PY] + form.split() + ["--model_path", str(model_path), "--snippets_dir", str(snippets_dir),
                                             "--output_dir", str(output_dir), "--target", "python"]
            tmp = workdir / "tmp"
            tmp.mkdir()
            try:
                proc = subprocess.run(cmd, cwd=str(workdir), env=env.child_env(TMPDIR=str(tmp)),
                                      stdout=subprocess.PIPE, stderr=subprocess.PIPE, timeout=300)
            except subprocess.TimeoutExpired:
                chk.count("cli_timeouts")
                continue
            out, err = proc.stdout.decode("utf-8", "replace"), proc.stderr.decode("utf-8", "replace")
            chk.count("cli_runs")
            chk.case(distinct_key=("cli", form, label, proc.returncode))
            witness = {"case": label, "cli_form": form, "rc": proc.returncode, "stdout": out[-300:], "stderr": err[:1500]}
            if "Traceback (most recent call last)" in err:
                chk.violation(f"cli/traceback/{label}", witness)
            expect_ok = label == "ok"
            if expect_ok and (proc.returncode != 0 or err != "" or not out.endswith(f"Code generated to: {output_dir}\n")):
                chk.violation(f"cli/good-run-not-clean|{form}", witness)
            if not expect_ok:
                if proc.returncode == 0:
                    chk.violation(f"cli/exit-0-on-rejected-model|python {form}", witness)
                if err.strip() == "":
                    chk.violation(f"cli/no-stderr-on-failure/{label}", witness)
            if (proc.returncode == 0) != (err == ""):
                chk.violation(f"cli/exit-status-disagrees-with-stderr|python {form}", witness)
        finally:
            import shutil

            shutil.rmtree(workdir, ignore_errors=True)


def worker(args) -> Dict[str, Any]:
    argv, shard, n_shards, n_models = args[:-1]
    mins = args[-1]
    chk = harness.Check("C03", "exploration", RULE, argv)
    chk.set_worker_minimums({k: v for k, v in mins.items() if k != "cli_runs"}, n_shards)
    hooks.import_all_repo_modules()
    budget = chk.wall_budget(170, 900)
    jobs: List[Tuple[str, str, str, Optional[List[str]], str]] = []
    targets = driver.TARGETS
    fixtures = corpus.models()
    for k, (name, text) in enumerate(fixtures):
        if k % n_shards == shard:
            if chk.tier == "quick" and k % 2 != chk.seed % 2:
                continue
            jobs.append((name, text, targets[k % len(targets)], None, ""))
    donors = [t for _, t in corpus.small_common()]
    for i in range(shard, n_models, n_shards):
        rng = chk.rng("model", i)
        m = mmgen.generate(rng, mmgen.Profile(sdk_safe=(i % 2 == 0)))
        target = targets[i % len(targets)]
        jobs.append((f"mmg/{chk.seed}/{i}", m.text, target, None, ""))
        mutated, names = textmut.mutate(m.text, rng, rng.choice([1, 2]), donors)
        jobs.append((f"mmg/{chk.seed}/{i}+{'+'.join(names)}", mutated, targets[(i + 3) % len(targets)], None, ""))
        kind = sorted(DEFECT_KINDS)[i % len(DEFECT_KINDS)]
        k = rng.choice([2, 3, 5])
        text, markers = conservation_model(kind, k, rng.choice([0, 1, 3]), rng)
        jobs.append((f"conservation/{kind}/k={k}", text, targets[(i + 5) % len(targets)], markers, kind))
        text, markers, mixed_kind = mixed_conservation_model(rng)
        jobs.append((f"conservation/{mixed_kind}", text, targets[(i + 6) % len(targets)], markers, "mixed-kinds-of-one-stage"))
    # models that only some targets can express: the target must say so, not leave it out
    import pathlib as _pathlib

    data = _pathlib.Path(__file__).resolve().parent.parent / "data"
    targeted = [
        ("targeted/big-integer-in-set", (data / "c03_big_integer_in_set_model.py.txt").read_text(encoding="utf-8")),
        ("targeted/big-integers", (data / "c03_big_integers_model.py.txt").read_text(encoding="utf-8")),
    ]
    for t, (name, text) in enumerate(targeted):
        for k, target in enumerate(targets):
            if (k + 3 * t) % n_shards == shard:
                jobs.insert(min(len(jobs), 2), (name, text, target, None, ""))
    # near-collisions of names (C21's scenarios): a generator that builds the error and
    # then generates anyway shows as an error object constructed in a run that exits 0
    from vf.checks import c21 as collisions

    scenarios = collisions.scenarios(chk.tier)
    chk.rng("collisions").shuffle(scenarios)
    sdk_targets = [t for t in targets if t not in ("jsonschema", "xsd")]
    for j, scenario in enumerate(scenarios[: chk.pick(36, 200)]):
        if j % n_shards == shard:
            jobs.insert(min(len(jobs), 3 + 3 * (j // n_shards)),
                        (f"collision/{scenario.kind}/{scenario.pattern}", scenario.texts()[0],
                         sdk_targets[j % len(sdk_targets)], None, ""))
    # reports with several top-level entries: unexpected imports, invalid snippet keys
    good = corpus.small_common()[shard % len(corpus.small_common())][1]
    for j in range(2):
        rng = chk.rng("several", shard, j)
        imports = rng.sample(["from typing import Any", "from os import path", "from typing import Dict",
                              "from collections import OrderedDict", "from re import search"], rng.choice([2, 3]))
        jobs.append((f"several-entries/imports/{shard}/{j}", "\n".join(imports) + "\n" + good,
                     targets[(shard + j) % len(targets)], [i.split()[-1] for i in imports], "unexpected-imports"))
        bad_keys = rng.sample(["bad name.txt", "1starts_with_digit.txt", "with-dash.txt", "sub dir/x.txt", "ünï.txt"], rng.choice([2, 3]))
        jobs.append((f"several-entries/snippets/{shard}/{j}", good, targets[(shard + j + 1) % len(targets)],
                     list(bad_keys), "invalid-snippet-keys", {k: "content" for k in bad_keys}))
    for idx, job in enumerate(jobs):
        name, text, target, markers, kind = job[:5]
        extra = job[5] if len(job) > 5 else None
        if chk.should_stop(budget):
            chk.count("jobs_skipped_for_budget", len(jobs) - idx)
            break
        run_and_judge(chk, name, text, target, markers, kind, extra)
    return chk.export()


def main(argv) -> int:
    chk = harness.Check("C03", "exploration", RULE, argv)
    n_models = chk.pick(120, 2400)
    n_shards = 12
    mins = {
        "runs_exit_0": 50,
        "runs_exit_non_zero": 50,
        "reports_grammar_checked": 50,
        "conservation_cases": chk.pick(60, 300),
        "cli_runs": 10,
        "helper_reports_with_several_entries": 10,
    }
    with concurrent.futures.ProcessPoolExecutor(max_workers=n_shards) as pool:
        jobs = [pool.submit(worker, (list(argv), s, n_shards, n_models, mins)) for s in range(n_shards)]
        cli_cases(chk)
        for job in jobs:
            try:
                chk.merge(job.result())
            except Exception as err:
                chk.harness_error(f"worker failed: {err!r}")
    chk.assume("one-line messages written without the report helper (argument errors) are accepted as long as stderr is non-empty and the exit status is 1")
    for counter_name, minimum in mins.items():
        chk.require_min(counter_name, minimum)
    return chk.finish()
