"""C30 — generated constants and enumerations match the meta-model."""
import concurrent.futures
import enum
from typing import Any, Dict, List, Tuple

from vf import corpus, harness, mmgen, pyexec, pysdk, sdkloop

RULE = (
    "accepted meta-models with primitive constants, constant sets (incl. superset_of "
    "chains, sets of enumeration literals) and enumerations with tricky literal values "
    "(MMG constants profile + corpus); every <sdk>.constants value, every enumeration "
    "(name, value) table and every <enum>_from_str result on literal values and "
    "neighbours is compared with what Python computes from the meta-model source; "
    "distinct_nontrivial = distinct (kind, size, has superset_of) of constants and "
    "(number of literals) of enumerations observed"
)


def neighbours(value: str) -> List[str]:
    result = [value + " ", " " + value, value.upper(), value.lower(), value.swapcase(),
              value[:-1], value + "x", value.replace("-", "_"), value.replace("_", "-"), ""]
    return [n for n in result if n != value]


def check_model(chk: harness.Check, name: str, text: str) -> None:
    opened = sdkloop.open_sdk(chk, name, text)
    if opened is None:
        return
    pm, sdk = opened
    try:
        base = {"model": name, "text": text}
        Identifier, pn = sdk.Identifier, sdk.pn
        # ---- constants
        for cname, const in pm.constants.items():
            py_name = str(pn.constant_name(Identifier(cname)))
            if not hasattr(sdk.constants, py_name):
                chk.violation("constant/missing-in-sdk", dict(base, constant=cname, expected_name=py_name))
                continue
            got = getattr(sdk.constants, py_name)
            expected = const.value
            if isinstance(expected, (set, frozenset)):
                mapped = set()
                for item in expected:
                    if isinstance(item, enum.Enum):
                        mapped.add(sdk.enum_literal(type(item).__name__, item.name))
                    else:
                        mapped.add(item)
                ok = isinstance(got, (set, frozenset)) and set(got) == mapped and all(
                    type(a) is type(b) for a, b in zip(sorted(got, key=repr), sorted(mapped, key=repr))
                )
                kind = "set-of-enum" if any(isinstance(i, enum.Enum) for i in expected) else "set-of-primitive"
                chk.count("constant_sets_compared")
                chk.case(distinct_key=(kind, len(expected), bool(const.superset_of)))
                if not ok:
                    chk.violation(
                        f"constant/{kind}/differs" + ("/with-superset_of" if const.superset_of else ""),
                        dict(base, constant=cname, got=sorted(map(repr, got)) if isinstance(got, (set, frozenset)) else repr(got),
                             expected=sorted(map(repr, mapped))),
                    )
            else:
                chk.count("primitive_constants_compared")
                chk.case(distinct_key=("primitive", type(expected).__name__, repr(expected)[:20]))
                same = type(got) is type(expected) and got == expected
                if isinstance(expected, (bytes, bytearray)):
                    same = bytes(got) == bytes(expected)
                if not same:
                    chk.violation(
                        f"constant/primitive-{type(expected).__name__}/differs",
                        dict(base, constant=cname, got=repr(got), expected=repr(expected)),
                    )
        # ---- enumerations
        for ename, ecls in pm.classes.items():
            if not ecls.is_enum:
                continue
            sdk_enum = sdk.enum_cls(ename)
            expected_pairs = sorted(
                (str(pn.enum_literal_name(Identifier(lit))), value) for lit, value in ecls.literals
            )
            got_pairs = sorted((m.name, m.value) for m in sdk_enum)
            chk.count("enumerations_compared")
            chk.case(
                distinct_key=("enum", len(ecls.literals)),
                sample={"model": name, "enum": ename, "literals": got_pairs[:5]} if len(chk.samples) < 5 else None,
            )
            if got_pairs != expected_pairs:
                chk.violation("enum/literal-table-differs", dict(base, enum=ename, got=got_pairs, expected=expected_pairs))
                continue
            from_str = getattr(
                sdk.stringification,
                str(pn.function_name(Identifier(f"{ename}_from_str"))),
                None,
            )
            if from_str is None:
                chk.violation("enum/from_str-missing", dict(base, enum=ename))
                continue
            values = {value for _, value in ecls.literals}
            for member in sdk_enum:
                chk.count("from_str_evaluations")
                if from_str(member.value) is not member:
                    chk.violation("enum/from_str-of-value-is-not-the-literal",
                                  dict(base, enum=ename, value=member.value, got=repr(from_str(member.value))))
                for other in neighbours(member.value) + [member.name]:
                    if other in values:
                        continue
                    chk.count("from_str_evaluations")
                    got = from_str(other)
                    if got is not None:
                        chk.violation("enum/from_str-accepts-foreign-text",
                                      dict(base, enum=ename, text_given=other, got=repr(got)))
    finally:
        sdk.close()


def worker(args) -> Dict[str, Any]:
    argv, shard, n_shards, n_models = args[:-1]
    mins = args[-1]
    chk = harness.Check("C30", "exploration", RULE, argv)
    chk.set_worker_minimums(mins, n_shards)
    budget = chk.wall_budget(150, 900)
    models: List[Tuple[str, str]] = []
    if shard == 0:
        models += corpus.small_common()
        models += [m for m in corpus.models() if "/expected/constant" in m[0] or "enumeration" in m[0]]
    for i in range(shard, n_models, n_shards):
        profile = mmgen.Profile(
            sdk_safe=True, n_enums=(1, 4), n_const_sets=(2, 7), n_const_prims=(1, 5),
            n_classes=(1, 3), max_props=2, p_invariant=0.3, hostile_strings=(i % 2 == 0),
            n_cprims=(0, 1), incomplete_supersets=(i % 3 == 0),
        )
        m = mmgen.generate(chk.rng("model", i), profile)
        models.append((f"mmg/{chk.seed}/{i}", m.text))
    for idx, (name, text) in enumerate(models):
        if chk.should_stop(budget):
            chk.count("models_skipped_for_budget", len(models) - idx)
            break
        check_model(chk, name, text)
    return chk.export()


def main(argv) -> int:
    chk = harness.Check("C30", "exploration", RULE, argv)
    n_models = chk.pick(150, 4000)
    n_shards = 12
    mins = {
        "constant_sets_compared": chk.pick(100, 1000),
        "primitive_constants_compared": chk.pick(50, 500),
        "enumerations_compared": chk.pick(100, 1000),
        "from_str_evaluations": chk.pick(1000, 10000),
    }
    with concurrent.futures.ProcessPoolExecutor(max_workers=n_shards) as pool:
        jobs = [pool.submit(worker, (list(argv), s, n_shards, n_models, mins)) for s in range(n_shards)]
        for job in jobs:
            try:
                chk.merge(job.result())
            except Exception as err:
                chk.harness_error(f"worker failed: {err!r}")
    if chk.tier == "thorough":
        check_model(chk, "corpus/v3", corpus.v3())
    for counter_name, minimum in mins.items():
        chk.require_min(counter_name, minimum)
    return chk.finish()
