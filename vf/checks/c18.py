"""C18 — regex virtual-machine programs match like the pattern."""
import concurrent.futures
import copy
import gc
import hashlib
import json
import os
import pathlib
import re
import shutil
import signal
import subprocess
import threading
import time
from typing import Any, Dict, List, Optional, Sequence, Set, Tuple

from vf import c18_patterns as wl
from vf import driver, env, harness, revm_ref

RULE = (
    "anchored patterns ^...$ (fixed list, patterns shipped in dev/test_data incl. the v3 "
    "meta-model, and a grammar-based generator) that Python's re compiles without "
    "warning and the repo's front end accepts; per pattern: intermediate.revm.translate "
    "is called, the program is checked structurally and executed by a reference "
    "interpreter of the documented instruction semantics, and the pattern is put as a "
    "@verification function into a synthetic meta-model that goes through the real "
    "main.execute(target=cpp); the emitted pattern.cpp/revm.cpp/common.cpp are compiled "
    "with g++ -fsanitize=address,undefined and revm::Match is driven over stdin (the "
    "program variant for 16-bit wchar_t is compiled too, for patterns where it differs, "
    "and fed with UTF-16 code units); all "
    "verdicts are compared with re.fullmatch on strings without line breaks (members "
    "sampled from Python's parse tree of the pattern, one-edit neighbours, range "
    "boundaries +-1).  A case = one (pattern, string); it is non-trivial when the "
    "pattern has >= 1 string that matches and >= 1 that does not; distinct = distinct "
    "(pattern, string) pairs of non-trivial patterns"
)

WORKERS = 8
NAMESPACE = "vfc18"
NATIVE = env.VERIF / "native"
CXX = shutil.which("g++")
RE_TIMEOUT_S = 2.0


class Phase:
    """Sum wall and CPU (own + children) seconds per phase into counters."""

    def __init__(self, chk: harness.Check, name: str) -> None:
        self.chk, self.name = chk, name

    def __enter__(self) -> "Phase":
        self.t = time.time()
        self.c = sum(os.times()[:4])
        return self

    def __exit__(self, *_exc: Any) -> None:
        self.chk.count(f"phase_{self.name}_wall_ms", int(1000 * (time.time() - self.t)))
        self.chk.count(f"phase_{self.name}_cpu_ms", int(1000 * (sum(os.times()[:4]) - self.c)))


class _ReTimeout(Exception):
    pass


def _alarm(_signum: int, _frame: Any) -> None:
    raise _ReTimeout()


def re_fullmatch(compiled: "re.Pattern[str]", text: str) -> Optional[bool]:
    """``re.fullmatch`` guarded against catastrophic backtracking (None = gave up)."""
    old = signal.signal(signal.SIGALRM, _alarm)
    signal.setitimer(signal.ITIMER_REAL, RE_TIMEOUT_S)
    try:
        return compiled.fullmatch(text) is not None
    except _ReTimeout:
        return None
    finally:
        signal.setitimer(signal.ITIMER_REAL, 0)
        signal.signal(signal.SIGALRM, old)


# -- leg 1 -----------------------------------------------------------------------------


class Case:
    """One pattern with its strings and verdicts."""

    def __init__(self, origin: str, pattern: str, feats: Set[str]) -> None:
        self.origin = origin
        self.pattern = pattern
        self.feats = feats
        self.compiled: Optional["re.Pattern[str]"] = None
        self.prog: Optional[List[revm_ref.Instr]] = None
        self.prog16: Optional[List[revm_ref.Instr]] = None
        self.eps_cycle: Optional[List[int]] = None
        self.strings: List[str] = []
        self.expected: List[bool] = []
        self.reference: List[bool] = []
        self.reference16: Dict[int, bool] = {}
        self.nontrivial = False
        self.cpp_fit = True
        self.accepted: Optional[bool] = None


def witness(case: Case, **extra: Any) -> Dict[str, Any]:
    w: Dict[str, Any] = {
        "pattern": case.pattern,
        "pattern_ascii": ascii(case.pattern),
        "origin": case.origin,
        "constructs": sorted(case.feats),
    }
    if case.prog is not None:
        w["program"] = revm_ref.listing(case.prog)[:80]
    w.update(extra)
    return w


def text_witness(text: str) -> Dict[str, Any]:
    return {"text": text, "code_points": [f"U+{ord(c):04X}" for c in text]}


def front_end(chk: harness.Check, case: Case, retree: Any) -> Optional[Any]:
    """Parse with the repo's regex front end; None when the pattern is not accepted."""
    try:
        regex, error = retree.parse([case.pattern])
    except Exception as exc:  # the parser itself is the subject of C16
        chk.count("patterns_dropped_front_end_crash")
        chk.hist("front_end_crash", harness.crash_signature(exc))
        return None
    if error is not None or regex is None:
        chk.count("patterns_dropped_front_end_rejects")
        return None
    concat = regex.union.uniates[0].concatenants if regex.union.uniates else []
    anchored = (
        len(regex.union.uniates) == 1
        and len(concat) >= 2
        and type(concat[0].value).__name__ == "Symbol"
        and concat[0].value.kind.name == "START"
        and type(concat[-1].value).__name__ == "Symbol"
        and concat[-1].value.kind.name == "END"
    )
    if not anchored:
        chk.count("patterns_dropped_not_anchored")
        return None
    return regex


def load_model_accepts(chk: harness.Check, pattern: str) -> bool:
    """Ask the real front end (``run.load_model``) about a one-pattern meta-model."""
    chk.count("load_model_confirmations")
    table, error, exc = driver.load_inprocess(build_model([pattern]))
    if table is not None:
        return True
    chk.count("patterns_dropped_load_model_rejects")
    chk.hist(
        "load_model_rejections",
        _first_line(str(error)) if exc is None else "crash/" + harness.crash_signature(exc),
    )
    return False


def report(chk: harness.Check, case: Case, key: str, wit: Dict[str, Any]) -> None:
    """Record a violation of leg 1 once the real front end confirmed that it accepts."""
    if case.accepted is None:
        case.accepted = load_model_accepts(chk, case.pattern)
    if case.accepted:
        chk.violation(key, wit)
    else:
        chk.count("leg1_findings_dropped_load_model_rejects")


def leg1(chk: harness.Check, case: Case, rng: Any, n_strings: int) -> bool:
    """
    Translate, check the structure, run the reference interpreter against ``re``.

    Return True when the pattern is fit for the C++ leg.
    """
    from aas_core_codegen.intermediate import revm
    from aas_core_codegen.parse import retree

    case.compiled = wl.python_compile(case.pattern)
    if case.compiled is None:
        chk.count("patterns_dropped_python_rejects")
        return False
    regex = front_end(chk, case, retree)
    if regex is None:
        return False
    chk.count("patterns_accepted_by_front_end")
    for feat in case.feats:
        chk.hist("constructs", feat)

    # the program for wide strings holding UTF-32
    chk.count("translate_calls")
    try:
        tree = revm.translate(regex)
    except Exception as exc:
        report(chk, case, "emit/" + harness.crash_signature(exc),
               witness(case, exception=harness.format_exc(exc, 6)))
        chk.case(None)
        return False
    try:
        case.prog = revm_ref.compile_program(tree)
    except revm_ref.ProgramError as exc:
        report(chk, case, f"program/{exc.kind}", witness(case, detail=exc.detail))
        chk.case(None)
        return False
    chk.count("programs_structurally_checked")
    chk.hist("program_size", _bucket(len(case.prog)))
    for op, _ in case.prog:
        chk.hist("instructions", revm_ref.OPNAMES[op])
    if revm_ref.label_mismatches(tree):
        chk.count("programs_with_label_not_equal_index")
    case.eps_cycle = revm_ref.epsilon_cycle(case.prog)
    if case.eps_cycle is not None:
        chk.count("programs_with_epsilon_cycle")

    # the program for wide strings holding UTF-16 (emitted under #if __WCHAR_MAX__)
    try:
        regex16 = copy.deepcopy(regex)
        retree.fix_for_utf16_regex_in_place(regex=regex16)
        chk.count("translate_calls_utf16")
        tree16 = revm.translate(regex16)
        case.prog16 = revm_ref.compile_program(tree16)
    except revm_ref.ProgramError as exc:
        report(chk, case, f"program-utf16/{exc.kind}", witness(case, detail=exc.detail))
    except Exception as exc:
        # the C++ generator calls the same function: keep the pattern out of the batch
        case.cpp_fit = False
        report(chk, case, "emit-utf16/" + harness.crash_signature(exc),
               witness(case, exception=harness.format_exc(exc, 6)))
        if not case.accepted:
            return False

    case.strings = wl.strings_for(case.pattern, rng, n_strings)
    # where a UTF-16 engine cannot agree with a code point engine by construction
    surrogate_in_pattern = bool(_SURROGATE_RE.search(case.pattern)) or any(
        0xD800 <= ord(c) <= 0xDFFF for c in case.pattern
    )
    open_ended = wl.covers_surrogates(case.pattern)
    kept_strings: List[str] = []
    re_timeouts = 0
    for text in case.strings:
        if re_timeouts >= 3:
            chk.count("strings_skipped_re_backtracking_timeout")
            continue
        expected = re_fullmatch(case.compiled, text)
        if expected is None:
            re_timeouts += 1
            chk.count("strings_skipped_re_backtracking_timeout")
            continue
        kept_strings.append(text)
        case.expected.append(expected)
        codes = [ord(c) for c in text]
        got = revm_ref.run(case.prog, codes)
        case.reference.append(got)
        chk.count("reference_vm_evaluations")
        if got != expected:
            kind = "accepts-nonmatching" if got else "rejects-matching"
            report(
                chk, case, f"program/{kind}",
                witness(case, re_fullmatch=expected, reference_vm=got, **text_witness(text)),
            )
        if case.prog16 is not None and not surrogate_in_pattern:
            astral = any(c > 0xFFFF for c in codes)
            lone = any(0xD800 <= c <= 0xDFFF for c in codes)
            if not lone and not (astral and open_ended):
                got16 = revm_ref.run(case.prog16, revm_ref.utf16_units(text))
                case.reference16[len(kept_strings) - 1] = got16
                chk.count("reference_vm_evaluations_utf16")
                if got16 != expected:
                    kind = "accepts-nonmatching" if got16 else "rejects-matching"
                    report(
                        chk, case, f"program-utf16/{kind}",
                        witness(
                            case,
                            re_fullmatch=expected,
                            reference_vm_utf16=got16,
                            program_utf16=revm_ref.listing(case.prog16)[:80],
                            **text_witness(text),
                        ),
                    )
    case.strings = kept_strings
    n_match = sum(case.expected)
    case.nontrivial = 0 < n_match < len(case.expected)
    chk.hist("matching_share", _share(n_match, len(case.expected)))
    return True


_FUNCTION_RE = re.compile(r"\b(Construct\w+?Program)\b")


def _index_of_function(name: str) -> Optional[int]:
    """Map ``ConstructMatchP<i>Program`` (named by the repo's own naming) to ``i``."""
    global _FUNCTION_INDEX
    if _FUNCTION_INDEX is None:
        from aas_core_codegen.common import Identifier
        from aas_core_codegen.cpp import naming as cpp_naming

        _FUNCTION_INDEX = {
            str(cpp_naming.function_name(Identifier(f"construct_match_p{i}_program"))): i
            for i in range(2000)
        }
    return _FUNCTION_INDEX.get(name)


_FUNCTION_INDEX: Optional[Dict[str, int]] = None


def compile_error_class(pattern: str) -> str:
    """Mechanism class of a pattern whose emitted C++ does not compile."""
    if "*/" in pattern:
        return "pattern-text-closes-block-comment"
    return "other"


_SUSPECT_RE = re.compile(r"\(\)|\(\||\|\)|\|\|")
_SURROGATE_RE = re.compile(r"\\u[dD][89a-fA-F][0-9a-fA-F]{2}")


def _pair_key(pattern: str, text: str) -> int:
    data = (pattern + "\x00" + text).encode("utf-8", "surrogatepass")
    return int.from_bytes(hashlib.blake2b(data, digest_size=8).digest(), "big")


def _bucket(n: int) -> str:
    for limit in (4, 8, 16, 32, 64, 128, 512, 2048):
        if n <= limit:
            return f"<={limit}"
    return ">2048"


def _share(k: int, n: int) -> str:
    if n == 0:
        return "no-strings"
    if k == 0:
        return "0%"
    if k == n:
        return "100%"
    return f"{10 * (10 * k // n)}-{10 * (10 * k // n) + 10}%"


# -- leg 2 -----------------------------------------------------------------------------


def build_model(patterns: Sequence[str]) -> str:
    parts = []
    for i, pattern in enumerate(patterns):
        parts.append(
            "@verification\n"
            f"def match_p{i}(text: str) -> bool:\n"
            f"    pattern = {ascii(pattern)}\n"
            "    return match(pattern, text) is not None\n"
        )
    parts.append('__version__ = "dummy"\n__xml_namespace__ = "https://dummy.com"\n')
    return "\n\n".join(parts)


def program_table(n: int) -> str:
    from aas_core_codegen.common import Identifier
    from aas_core_codegen.cpp import common as cpp_common, naming as cpp_naming

    rows = []
    for i in range(n):
        name = cpp_naming.constant_name(Identifier(f"match_p{i}_program"))
        rows.append(f"    &{NAMESPACE}::{cpp_common.PATTERN_NAMESPACE}::{name},")
    return "\n".join(rows)


def generate_cpp(patterns: Sequence[str]) -> driver.RunResult:
    return driver.run_inprocess(
        build_model(patterns), "cpp", snippets={"namespace.txt": NAMESPACE}
    )


def _run(cmd: List[str], timeout: float, **kwargs: Any) -> Optional[subprocess.CompletedProcess]:
    try:
        return subprocess.run(
            cmd, stdout=subprocess.PIPE, stderr=subprocess.PIPE, timeout=timeout, **kwargs
        )
    except subprocess.TimeoutExpired:
        return None


SAN = ["-fsanitize=address,undefined", "-fno-sanitize-recover=all", "-fno-omit-frame-pointer"]
BASE = ["-std=c++17", "-w"]
# what is compiled how: the matcher under test with optimisation, sanitizers and
# function-entry hooks (a *logical* step counter); the program constructors with
# AddressSanitizer but without optimisation and without UBSan (they only build vectors
# at start-up; -O1 triples and UBSan doubles the compile time); common.cpp (14k lines of string concatenation helpers used for error
# messages only) without instrumentation.
FLAGS = {
    "common.cpp": ["-O0"],
    "revm.cpp": ["-O1", "-g1", *SAN, "-finstrument-functions",
                 "-finstrument-functions-exclude-file-list=/usr/include,/usr/lib"],
    "driver.cpp": ["-O1", "-g1", *SAN],
    "pattern.cpp": ["-O0", "-g1", "-fsanitize=address", "-fno-omit-frame-pointer"],
    "table.cpp": ["-O0", *SAN],
}
SHARED_SOURCES = ("src/common.cpp", "src/revm.cpp", f"include/{NAMESPACE}/revm.hpp",
                  f"include/{NAMESPACE}/common.hpp")


def _fill(template_name: str, n_patterns: int = 0) -> str:
    text = (NATIVE / "c18" / template_name).read_text(encoding="utf-8")
    text = text.replace("@INCLUDE_PREFIX@", NAMESPACE).replace("@NAMESPACE@", NAMESPACE)
    if "@PROGRAM_TABLE@" in text:
        text = text.replace("@PROGRAM_TABLE@", program_table(n_patterns))
    return text


def _compile_cmd(source: pathlib.Path, obj: pathlib.Path, out_dir: pathlib.Path) -> List[str]:
    return [CXX, *BASE, *FLAGS[source.name], "-I", str(out_dir / "include"), "-I", str(NATIVE),
            "-c", str(source), "-o", str(obj)]


def shared_digest(out_dir: pathlib.Path) -> str:
    digest = hashlib.sha256()
    for rel in SHARED_SOURCES:
        digest.update((out_dir / rel).read_bytes())
    digest.update((NATIVE / "c18" / "driver.cpp.in").read_bytes())
    return digest.hexdigest()


def build_shared(out_dir: pathlib.Path, dest: pathlib.Path) -> Tuple[bool, str, str]:
    """
    Compile the batch-independent objects (common, revm, driver) concurrently into
    ``dest`` and write ``dest/ready`` with the digest of their sources.
    """
    dest.mkdir(parents=True, exist_ok=True)
    sources = dest / "sources"
    shutil.copytree(out_dir, sources, dirs_exist_ok=True)
    driver_cpp = dest / "driver.cpp"
    driver_cpp.write_text(_fill("driver.cpp.in"), encoding="utf-8")
    jobs = []
    for source in (sources / "src" / "common.cpp", sources / "src" / "revm.cpp", driver_cpp):
        obj = dest / (source.stem + ".o")
        jobs.append((source.name, subprocess.Popen(
            _compile_cmd(source, obj, sources), stdout=subprocess.DEVNULL, stderr=subprocess.PIPE
        )))
    failed = None
    for name, proc in jobs:
        try:
            _, err = proc.communicate(timeout=900)
        except subprocess.TimeoutExpired:
            proc.kill()
            proc.communicate()
            failed = failed or (name, "compiler timeout")
            continue
        if proc.returncode != 0:
            failed = failed or (name, err.decode("utf-8", "replace")[-3000:])
    if failed is not None:
        (dest / "failed").write_text(f"{failed[0]}\n{failed[1]}", encoding="utf-8")
        return False, failed[0], failed[1]
    tmp = dest / "ready.tmp"
    tmp.write_text(shared_digest(out_dir), encoding="utf-8")
    os.replace(tmp, dest / "ready")
    return True, "", ""


def shared_objects(
    out_dir: pathlib.Path, shared: pathlib.Path, work: pathlib.Path, wait_until: float
) -> Tuple[Optional[List[pathlib.Path]], str, str]:
    """Objects of the batch-independent sources matching the sources in ``out_dir``."""
    while not (shared / "ready").exists() and not (shared / "failed").exists():
        if time.time() > wait_until:
            return None, "shared", "compiler timeout"
        time.sleep(0.5)
    mine = shared_digest(out_dir)
    if (shared / "ready").exists() and (shared / "ready").read_text() == mine:
        return [shared / "common.o", shared / "revm.o", shared / "driver.o"], "", ""
    if (shared / "failed").exists() and not (shared / "ready").exists():
        stage, _, err = (shared / "failed").read_text(encoding="utf-8").partition("\n")
        # same sources?  then it fails for us as well; report it once per batch
        private = work / "shared"
        ok, stage2, err2 = build_shared(out_dir, private)
        if not ok:
            return None, stage2, err2
        return [private / "common.o", private / "revm.o", private / "driver.o"], "", ""
    # the batch-independent sources differ from batch to batch (unexpected): build ours
    private = work / "shared"
    ok, stage, err = build_shared(out_dir, private)
    if not ok:
        return None, stage, err
    return [private / "common.o", private / "revm.o", private / "driver.o"], "", ""


def build_binary(
    out_dir: pathlib.Path, n_patterns: int, work: pathlib.Path, shared: pathlib.Path,
    wait_until: float, pattern_flags: Sequence[str] = (),
) -> Tuple[Optional[pathlib.Path], str, str]:
    """Return (binary, failing stage, compiler output)."""
    table_cpp = work / "table.cpp"
    table_cpp.write_text(_fill("table.cpp.in", n_patterns), encoding="utf-8")
    objects = []
    for source in (out_dir / "src" / "pattern.cpp", table_cpp):
        obj = work / (source.stem + ".o")
        cmd = _compile_cmd(source, obj, out_dir)
        if source.name == "pattern.cpp":
            cmd[1:1] = list(pattern_flags)
        proc = _run(cmd, 900.0)
        if proc is None:
            return None, source.name, "compiler timeout"
        if proc.returncode != 0:
            return None, source.name, proc.stderr.decode("utf-8", "replace")[-3000:]
        objects.append(obj)
    shared_objs, stage, err = shared_objects(out_dir, shared, work, wait_until)
    if shared_objs is None:
        return None, stage, err
    binary = work / "c18_driver"
    proc = _run([CXX, *SAN, *map(str, objects + shared_objs), "-o", str(binary)], 300.0)
    if proc is None:
        return None, "link", "compiler timeout"
    if proc.returncode != 0:
        return None, "link", proc.stderr.decode("utf-8", "replace")[-3000:]
    return binary, "", ""


def drive(
    binary: pathlib.Path, lines: List[str], work: pathlib.Path, per_case_s: float = 0.05
) -> Tuple[List[Optional[str]], List[str]]:
    """
    Feed the cases; return the verdict per line (None = no answer) and sanitizer logs.

    If the process stops answering or dies, the first unanswered case is marked and
    the remaining cases are fed to a fresh process.
    """
    verdicts: List[Optional[str]] = [None] * len(lines)
    logs: List[str] = []
    start = 0
    restarts = 0
    while start < len(lines) and restarts < 12:
        log_base = work / f"san.{restarts}"
        environ = dict(os.environ)
        environ["ASAN_OPTIONS"] = f"log_path={log_base}:detect_leaks=0:abort_on_error=0"
        environ["UBSAN_OPTIONS"] = f"log_path={log_base}:print_stacktrace=1"
        chunk = lines[start:]
        payload = ("\n".join(chunk) + "\n").encode("ascii")
        timeout = 30.0 + per_case_s * len(chunk)
        try:
            proc = subprocess.run(
                [str(binary)], input=payload, stdout=subprocess.PIPE,
                stderr=subprocess.PIPE, timeout=timeout, env=environ,
            )
            out, died = proc.stdout, proc.returncode != 0
            reason = f"rc={proc.returncode} " + proc.stderr.decode("utf-8", "replace")[-300:]
        except subprocess.TimeoutExpired as exc:
            out, died, reason = exc.stdout or b"", True, "timeout"
        answered = 0
        for raw in out.decode("ascii", "replace").splitlines():
            fields = raw.split(" ", 2)
            if len(fields) >= 2 and fields[0].isdigit() and int(fields[0]) == answered:
                verdicts[start + answered] = fields[1] + (
                    " " + fields[2] if fields[1].startswith("X:") and len(fields) > 2 else ""
                )
                answered += 1
        for path in sorted(work.glob(f"san.{restarts}.*")):
            logs.append(path.read_text(encoding="utf-8", errors="replace")[:4000])
        if answered >= len(chunk) and not died:
            break
        # the case after the last answered one killed/hung the process
        if answered < len(chunk):
            verdicts[start + answered] = "DIED:" + reason
        start += answered + 1
        restarts += 1
    return verdicts, logs


def sanitizer_kind(log: str) -> str:
    m = re.search(r"ERROR: (\w+Sanitizer): ([\w-]+)", log)
    if m:
        return f"{m.group(1)}/{m.group(2)}"
    m = re.search(r"runtime error: ([^\n]{0,60})", log)
    if m:
        return "UBSan/" + re.sub(r"[-+]?\b\d+\b|0x[0-9a-f]+", "N", m.group(1)).strip()
    return "unclassified"


def leg2(
    chk: harness.Check, cases: List[Case], work: pathlib.Path, shared: pathlib.Path,
    wait_until: float, with_utf16: bool = True,
) -> None:
    """Generate C++ for the batch through the real generator, compile, run, compare."""
    cases = list(cases)

    def try_single(case: Case) -> bool:
        with Phase(chk, "generate_cpp_single"):
            single = generate_cpp([case.pattern])
        chk.count("cpp_generator_single_runs")
        ok = False
        if single.exc is not None:
            chk.violation(
                "emit-cpp/" + harness.crash_signature(single.exc),
                witness(case, exception=harness.format_exc(single.exc, 6)),
            )
        elif single.rc != 0:
            # the real front end (run.load_model) refuses it: outside the property
            chk.count("patterns_dropped_load_model_rejects")
            chk.hist("load_model_rejections", _first_line(single.stderr))
        else:
            ok = True
        single.cleanup()
        return ok

    # One pattern that cannot be emitted breaks the whole batch.  Patterns with an
    # empty branch or group are tried alone first (pure optimisation: they fail on the
    # pinned tree; whatever else breaks a batch is found by the scan below).
    suspects = [c for c in cases if _SUSPECT_RE.search(c.pattern)]
    if suspects:
        passed = {id(c) for c in suspects if try_single(c)}
        cases = [c for c in cases if not _SUSPECT_RE.search(c.pattern) or id(c) in passed]
        if not cases:
            return
    with Phase(chk, "generate_cpp"):
        res = generate_cpp([c.pattern for c in cases])
    chk.count("cpp_generator_batches")
    if res.exc is not None or res.rc != 0:
        # find the patterns that break the batch, one by one
        res.cleanup()
        chk.count("cpp_generator_batches_split_after_failure")
        cases = [case for case in cases if try_single(case)]
        if not cases:
            return
        with Phase(chk, "generate_cpp"):
            res = generate_cpp([c.pattern for c in cases])
        if res.exc is not None or res.rc != 0:
            res.cleanup()
            chk.harness_error(
                "batch of individually accepted patterns failed as a whole: "
                + (repr(res.exc) if res.exc else res.stderr[:300])
            )
            return
    chk.count("patterns_emitted_as_cpp", len(cases))
    try:
        offenders = _build_and_compare(chk, cases, res, work, shared, wait_until, utf16=False)
    finally:
        res.cleanup()
    if offenders:
        # emitted code of some patterns does not compile: once more without them
        chk.count("cpp_batches_rebuilt_without_noncompiling_patterns")
        cases = [c for i, c in enumerate(cases) if i not in set(offenders)]
        if not cases:
            return
        with Phase(chk, "generate_cpp"):
            res = generate_cpp([c.pattern for c in cases])
        if res.exc is not None or res.rc != 0:
            res.cleanup()
            chk.harness_error("batch failed to generate after dropping non-compiling patterns")
            return
        try:
            _build_and_compare(chk, cases, res, work, shared, wait_until, utf16=False, retry=False)
        finally:
            res.cleanup()

    # The same programs as emitted for 16-bit wide characters (the branch under
    # ``#if __WCHAR_MAX__ <= 0x10000``), for the patterns where it differs: compiled
    # with that macro re-defined and fed with UTF-16 code units.
    sub = [c for c in cases if c.prog16 is not None and c.prog16 != c.prog and c.reference16]
    if not sub or not with_utf16:
        return
    with Phase(chk, "generate_cpp"):
        res16 = generate_cpp([c.pattern for c in sub])
    if res16.exc is not None or res16.rc != 0:
        res16.cleanup()
        chk.harness_error("sub-batch for the UTF-16 variant failed to generate")
        return
    work16 = work / "utf16"
    work16.mkdir(exist_ok=True)
    try:
        _build_and_compare(chk, sub, res16, work16, shared, wait_until, utf16=True, retry=False)
    finally:
        res16.cleanup()


def _build_and_compare(
    chk: harness.Check, cases: List[Case], res: driver.RunResult, work: pathlib.Path,
    shared: pathlib.Path, wait_until: float, utf16: bool, retry: bool = True,
) -> Optional[List[int]]:
    """Return the indices of patterns whose emitted code does not compile (if known)."""
    tag = "-utf16" if utf16 else ""
    ctr = "_utf16" if utf16 else ""
    with Phase(chk, "build"):
        binary, stage, err = build_binary(
            res.output_dir, len(cases), work, shared, wait_until,
            ["-U__WCHAR_MAX__", "-D__WCHAR_MAX__=0xffff"] if utf16 else [],
        )
    if binary is None:
        if stage == "pattern.cpp" and err != "compiler timeout":
            offenders = sorted(
                {i for i in map(_index_of_function, _FUNCTION_RE.findall(err))
                 if i is not None and i < len(cases)}
            )
            for i in offenders:
                chk.violation(
                    f"emit-cpp{tag}/pattern.cpp-does-not-compile/" + compile_error_class(cases[i].pattern),
                    witness(cases[i], compiler=err[-1500:]),
                )
            if offenders and retry:
                return offenders
            if not offenders:
                chk.violation(
                    f"emit-cpp{tag}/pattern.cpp-does-not-compile/unlocated",
                    {"patterns": [c.pattern for c in cases][:50], "compiler": err[-1500:]},
                )
        elif stage in ("revm.cpp", "common.cpp") and err != "compiler timeout":
            chk.violation(f"emit-cpp/{stage}-does-not-compile", {"compiler": err[-1500:]})
        else:
            chk.mark_inconclusive(f"C++ build failed at {stage}: {err[-300:]}")
        return None
    chk.count("cpp_binaries_built" + ctr)
    lines: List[str] = []
    index: List[Tuple[int, int]] = []
    for ci, case in enumerate(cases):
        # a spinning matcher costs a full step budget per string: keep those few
        limit = 3 if case.eps_cycle is not None else len(case.strings)
        for si, text in enumerate(case.strings[:limit]):
            if utf16:
                if si not in case.reference16:
                    continue  # not comparable between UTF-16 and code points
                units = revm_ref.utf16_units(text)
            else:
                units = [ord(c) for c in text]
            lines.append(f"{ci} " + (",".join(f"{u:x}" for u in units) or "-"))
            index.append((ci, si))
    with Phase(chk, "drive"):
        verdicts, logs = drive(binary, lines, work)
    for log in logs:
        chk.count("sanitizer_reports")
        chk.violation(f"cpp-matcher{tag}/sanitizer/" + sanitizer_kind(log), {"log": log[:3000]})
    for (ci, si), verdict in zip(index, verdicts):
        case = cases[ci]
        text = case.strings[si]
        expected = case.expected[si]
        reference = case.reference16[si] if utf16 else case.reference[si]
        if verdict is None:
            chk.count("cpp_cases_unanswered")
            continue
        chk.count("cpp_matcher_evaluations" + ctr)
        if verdict in ("0", "1"):
            got = verdict == "1"
            if got != expected and got == reference:
                # the program is wrong (already reported by the reference
                # interpreter as program/...); the matcher runs it faithfully
                chk.count("cpp_matcher_confirms_wrong_program")
            elif got != expected or got != reference:
                kind = "accepts-nonmatching" if got else "rejects-matching"
                chk.violation(
                    f"cpp-matcher{tag}/{kind}",
                    witness(case, re_fullmatch=expected, reference_vm=reference,
                            cpp=got, **text_witness(text)),
                )
        elif verdict == "L":
            chk.count("cpp_step_budget_exceeded")
            splits = sum(1 for op, _ in case.prog or [] if op == revm_ref.SPLIT)
            if case.eps_cycle is None and (splits > 8 or utf16):
                # without a cycle the matcher terminates, possibly after a number
                # of steps exponential in the number of splits: not judged
                chk.count("cpp_step_budget_exceeded_not_judged_many_splits")
                continue
            suffix = "epsilon-cycle" if case.eps_cycle is not None else "no-epsilon-cycle"
            chk.violation(
                f"cpp-matcher/no-verdict-within-step-budget/{suffix}",
                witness(case, re_fullmatch=expected, epsilon_cycle=case.eps_cycle,
                        **text_witness(text)),
            )
        elif verdict.startswith("X:"):
            what = re.sub(r"\d+", "N", verdict[2:])[:80]
            chk.violation(
                f"cpp-matcher{tag}/exception/{what}",
                witness(case, re_fullmatch=expected, **text_witness(text)),
            )
        elif verdict.startswith("DIED:"):
            chk.count("cpp_process_died")
            if verdict == "DIED:timeout":
                # wall-clock only: never a verdict
                chk.count("cpp_process_timeouts")
            elif not logs:
                chk.violation(
                    f"cpp-matcher{tag}/process-died",
                    witness(case, re_fullmatch=expected, how=verdict[5:],
                            **text_witness(text)),
                )
        else:
            chk.harness_error(f"driver protocol: {verdict!r}")


def _first_line(text: str) -> str:
    for line in text.splitlines():
        line = line.strip()
        if line and not line.startswith(("*", "Failed to translate", "At line")):
            return line[:90]
    return text.strip()[:90]


# -- shards ----------------------------------------------------------------------------


def run_shard(
    argv: Sequence[str], shard: int, items: List[Tuple[str, str, List[str]]],
    n_strings: int, cpp: bool, shared: str, deadline: float,
) -> Dict[str, Any]:
    chk = harness.Check("C18", "exploration", RULE, argv)
    rng = chk.rng("strings", shard)
    fit: List[Case] = []
    # the first round of shards (one per worker) always runs to the end, so that a
    # slow machine yields fewer observations, never none
    first_round = shard < WORKERS
    for origin, pattern, feats in items:
        if time.time() > deadline and not first_round:
            chk.count("patterns_not_run_wall_budget")
            continue
        case = Case(origin, pattern, set(feats))
        chk.hist("origin", origin.split("/")[0].split(":")[0])
        with Phase(chk, "leg1"):
            if leg1(chk, case, rng, n_strings):
                fit.append(case)
    cpp_cases = [case for case in fit if case.cpp_fit]
    if cpp and cpp_cases and (time.time() < deadline or first_round):
        work = env.new_dir(f"c18-shard{shard}")
        try:
            # the 16-bit variant costs a second compilation: not for every batch
            leg2(chk, cpp_cases, work, pathlib.Path(shared), deadline + 600,
                 shard % chk.pick(4, 2) == 0)
        finally:
            shutil.rmtree(work, ignore_errors=True)
    elif cpp and cpp_cases:
        chk.count("patterns_not_run_in_cpp_wall_budget", len(cpp_cases))
    sampled = 0
    for case in fit:
        for text in case.strings:
            chk.case(_pair_key(case.pattern, text) if case.nontrivial else None)
        if case.nontrivial and sampled < 2 and case.origin == "generated":
            sampled += 1
            chk.sample({
                "pattern": case.pattern,
                "program": revm_ref.listing(case.prog or [])[:30],
                "strings": [
                    {"text": t, "matches": e}
                    for t, e in list(zip(case.strings, case.expected))[:6]
                ],
            })
    return chk.export()


def run_probes(chk: harness.Check, cpp: bool) -> None:
    """Constructs accepted by the front end that the translator is known to refuse."""
    rng = chk.rng("probes")
    for pattern in wl.PROBES:
        case = Case("probe", pattern, {"probe"})
        chk.count("probes")
        if not leg1(chk, case, rng, 12) or not case.cpp_fit:
            continue
        for text in case.strings:
            chk.case(None)
        # through the real generator as well (emission of pattern.cpp)
        single = generate_cpp([pattern])
        chk.count("cpp_generator_single_runs")
        if single.exc is not None:
            chk.violation(
                "emit-cpp/" + harness.crash_signature(single.exc),
                witness(case, exception=harness.format_exc(single.exc, 6)),
            )
        elif single.rc != 0:
            chk.count("patterns_dropped_load_model_rejects")
            chk.hist("load_model_rejections", _first_line(single.stderr))
        single.cleanup()
    if not cpp:
        return
    for pattern in wl.COMPILE_PROBES:
        case = Case("probe", pattern, {"probe"})
        chk.count("probes")
        if not leg1(chk, case, rng, 12) or not case.cpp_fit:
            continue
        single = generate_cpp([pattern])
        chk.count("cpp_generator_single_runs")
        if single.exc is None and single.rc == 0:
            proc = _run(
                [CXX, *BASE, "-fsyntax-only", "-I", str(single.output_dir / "include"),
                 "-I", str(NATIVE), str(single.output_dir / "src" / "pattern.cpp")], 600.0,
            )
            chk.count("cpp_syntax_only_compilations")
            if proc is not None and proc.returncode != 0:
                chk.violation(
                    "emit-cpp/pattern.cpp-does-not-compile/" + compile_error_class(pattern),
                    witness(case, compiler=proc.stderr.decode("utf-8", "replace")[-1500:]),
                )
        elif single.exc is not None:
            chk.violation(
                "emit-cpp/" + harness.crash_signature(single.exc),
                witness(case, exception=harness.format_exc(single.exc, 6)),
            )
        single.cleanup()


def main(argv) -> int:
    chk = harness.Check("C18", "exploration", RULE, argv)
    budget = chk.wall_budget(80, 660)
    deadline = chk.t0 + budget
    cpp = CXX is not None
    if not cpp:
        chk.unavailable_leg(
            "g++ not found: the generated C++ matcher is not run; decided by the "
            "reference interpreter of the documented instruction semantics alone"
        )

    n_generated = chk.pick(180, 4000)
    n_strings = chk.pick(40, 100)
    # few, large translation units: every g++ run pays ~8 s for the headers alone
    batch = chk.pick(120, 160)
    workers = WORKERS

    rng = chk.rng("patterns")
    items: List[Tuple[str, str, List[str]]] = []
    seen: Set[str] = set()

    def add(origin: str, pattern: str, feats: Set[str]) -> None:
        if pattern not in seen:
            seen.add(pattern)
            items.append((origin, pattern, sorted(feats)))

    if chk.replay:
        # re-run only the pattern(s) of a recorded violation
        data = json.loads(pathlib.Path(chk.replay).read_text(encoding="utf-8"))
        w = data.get("witness", {})
        for pattern in [w.get("pattern")] + list(w.get("patterns", [])):
            if isinstance(pattern, str):
                add("replay", pattern, {"replay"})
        n_generated = 0
        chk.extra["replay_of"] = data.get("mechanism")
    for pattern in ([] if chk.replay else wl.FIXED):
        add("fixed", pattern, {"fixed"})
    corpus_cap = chk.pick(600, 1000000)
    for origin, pattern in ([] if chk.replay else wl.corpus_patterns(env.REPO)):
        if len(pattern) > corpus_cap:
            # the two giant v3 patterns (RFC 8089 path, RFC 3987 IRI) cost ~20 s of
            # contract-checked parsing each: thorough tier only
            chk.count("corpus_patterns_left_to_thorough_tier")
            continue
        add("corpus/" + origin, pattern, {"corpus"})
    n_corpus = len(items)
    while len(items) < n_corpus + n_generated:
        pattern, feats = wl.gen_tame_pattern(rng)
        add("generated", pattern, feats)
    chk.count("patterns_offered", len(items))

    # interleave so that every shard gets fixed, corpus and generated patterns
    shards: List[List[Tuple[str, str, List[str]]]] = []
    n_shards = max(chk.pick(4, workers), (len(items) + batch - 1) // batch)
    for s in range(n_shards):
        shards.append(items[s::n_shards])

    shared = env.new_dir("c18-shared")
    shared_thread = None
    seed_run = None
    if cpp:
        seed_run = generate_cpp(["^a$"])
        if seed_run.exc is not None or seed_run.rc != 0:
            chk.harness_error(
                "cannot generate C++ for the trivial pattern ^a$: "
                + (repr(seed_run.exc) if seed_run.exc else seed_run.stderr[:300])
            )
            (shared / "failed").write_text("generation\n", encoding="utf-8")

    # page faults are expensive in this sandbox: keep the forked workers from copying
    # the whole heap on their first garbage collection
    gc.collect()
    gc.freeze()
    with concurrent.futures.ProcessPoolExecutor(max_workers=workers) as pool:
        # all workers are forked by the first submit, i.e. before any thread exists
        futures = [
            pool.submit(run_shard, list(argv or []), s, shard, n_strings, cpp, str(shared), deadline)
            for s, shard in enumerate(shards)
        ]
        if cpp and not (shared / "failed").exists():
            # the batch-independent translation units are compiled once, while the
            # workers translate patterns and compile their pattern.cpp
            shared_thread = threading.Thread(
                target=build_shared, args=(seed_run.output_dir, shared), daemon=True
            )
            shared_thread.start()
        if not chk.replay:
            run_probes(chk, cpp)
        for future in futures:
            try:
                chk.merge(future.result(timeout=budget + 1800))
            except Exception as exc:  # a worker died: harness problem, not a verdict
                chk.harness_error(f"worker failed: {type(exc).__name__}: {exc}")
    if shared_thread is not None:
        shared_thread.join(timeout=60)
    if seed_run is not None:
        seed_run.cleanup()
    if (shared / "failed").exists():
        stage, _, err = (shared / "failed").read_text(encoding="utf-8").partition("\n")
        chk.extra["shared_build_failure"] = {"stage": stage, "compiler": err[-1500:]}
    shutil.rmtree(shared, ignore_errors=True)

    if chk.replay:
        chk.distinct.add("replay")
        chk.distinct.add("replay-2")
        return chk.finish()
    chk.require_min("translate_calls", chk.pick(100, 1000))
    chk.require_min("reference_vm_evaluations", chk.pick(3000, 50000))
    if cpp:
        chk.require_min("cpp_matcher_evaluations", chk.pick(1500, 20000))
        chk.require_min("cpp_binaries_built", 1)
    chk.assume(
        "Python's re.fullmatch is the meaning of a pattern; strings contain no line "
        "break (\\n \\r \\v \\f \\x1c-\\x1e \\x85 U+2028 U+2029)"
    )
    chk.assume(
        "'match' reached before the end of the text accepts (documented: 'stop the "
        "thread and signal that we found a match'; used by the translator for '.*$')"
    )
    chk.assume(
        "UTF-16 programs are compared only where a UTF-16 engine can agree with a code "
        "point engine: no surrogate code points in pattern or text, no astral text for "
        "patterns with '.', complemented sets or sets covering U+D800-U+DFFF; the UTF-16 variant is compiled by "
        "re-defining __WCHAR_MAX__ (wchar_t itself stays 32 bit here and holds one "
        "code unit each)"
    )
    chk.assume(
        "non-termination of the C++ matcher is judged by a step counter (function "
        "entries in revm.cpp via -finstrument-functions) against a budget of "
        "1e7 + 256 x program size x text length, never by wall-clock; a program without such a cycle and with more than 8 splits that exceeds the budget is not judged"
    )
    return chk.finish()
