"""C04 — 'At line L and column C' prefixes point at the offending construct (1-based)."""
import ast
import concurrent.futures
import json
import os
import re
import tempfile
import warnings
from typing import Any, Dict, List, Optional, Set, Tuple

from vf import corpus, driver, env, harness, hooks, textmut

RULE = (
    "rejected meta-models (corpus 'unexpected' fixtures, the C01 targeted families and 1-2 "
    "text/AST mutations of corpus models, plus same-line non-ASCII templates) re-laid-out so "
    "that the offending construct sits on the first line, on later lines, indented, after "
    "multi-line strings, after CRLF, after non-ASCII text, under decorators or inside "
    "multi-line statements; every call of the real LinenoColumner.error_message with a "
    "located error (nested ones included) is one evaluation; distinct = distinct (node "
    "class, layout, first-line/later-line, column-1/indented, ASCII/non-ASCII before the "
    "node on its line)"
)

WORKERS = 8
PREFIX_RE = re.compile(r"^At line (\d+) and column (\d+): ")
FOOTER = textmut.FOOTER


# ---------------------------------------------------------------------------
# Independent reference: offset -> (line, column) and node -> admissible positions
# ---------------------------------------------------------------------------

def offset_to_line_column(text: str, offset: int) -> Tuple[int, int]:
    """1-based line and column of ``text[offset]`` (first character of a line: column 1)."""
    line = text.count("\n", 0, offset) + 1
    column = offset - text.rfind("\n", 0, offset)
    return line, column


def _char_col(lines: List[str], lineno: int, byte_col: int) -> Optional[int]:
    """``ast`` column offsets count UTF-8 bytes; convert to a 1-based character column."""
    if not (1 <= lineno <= len(lines)):
        return None
    raw = lines[lineno - 1].encode("utf-8")
    try:
        return len(raw[:byte_col].decode("utf-8")) + 1
    except UnicodeDecodeError:
        return None


def _first_nonblank_col(lines: List[str], lineno: int) -> Optional[int]:
    if not (1 <= lineno <= len(lines)):
        return None
    line = lines[lineno - 1]
    stripped = line.lstrip(" \t\x0c")
    return len(line) - len(stripped) + 1


class NodeReference:
    """Positions of AST nodes computed from ``ast`` attributes only (no asttokens)."""

    def __init__(self, tree: ast.AST, text: str) -> None:
        self.lines = text.split("\n")
        self.interval: Optional[Tuple[Tuple[int, int], Tuple[int, int]]] = None
        self.parent: Dict[int, ast.AST] = {}
        for parent in ast.walk(tree):
            for child in ast.iter_child_nodes(parent):
                self.parent[id(child)] = parent

    def _positions_of(self, node: ast.AST) -> Set[Tuple[int, int]]:
        out: Set[Tuple[int, int]] = set()
        lineno = getattr(node, "lineno", None)
        if lineno is None:
            return out
        col = _char_col(self.lines, lineno, node.col_offset)
        if col is not None:
            out.add((lineno, col))
        fnb = _first_nonblank_col(self.lines, lineno)
        if fnb is not None:
            out.add((lineno, fnb))
        out.add((lineno, 1))  # "the first character of its line"
        decorators = getattr(node, "decorator_list", None)
        if decorators:
            # a decorated definition starts at the '@' of its first decorator
            first = min(decorators, key=lambda d: (d.lineno, d.col_offset))
            fnb = _first_nonblank_col(self.lines, first.lineno)
            if fnb is not None:
                out.add((first.lineno, fnb))
            out.add((first.lineno, 1))
            # ... and the '@' may stand on an earlier line than the decorator expression
            # (``@(`` NEWLINE ``lambda f: f)``): look for it backwards over blanks and
            # opening parentheses
            at = self._at_sign_before(first.lineno, first.col_offset)
            if at is not None:
                out.add(at)
                out.add((at[0], 1))
        return out

    def _at_sign_before(self, lineno: int, col_offset_bytes: int) -> Optional[Tuple[int, int]]:
        line = lineno - 1
        col = _char_col(self.lines, lineno, col_offset_bytes)
        if col is None:
            return None
        index = col - 2  # 0-based index of the character before the expression
        while line >= 0:
            text = self.lines[line]
            while index >= 0:
                ch = text[index]
                if ch == "@":
                    return line + 1, index + 1
                if ch not in " \t\r\x0c(\\":
                    return None
                index -= 1
            line -= 1
            if line >= 0:
                # a comment may follow the '@(' on the earlier line
                code = self.lines[line].split("#", 1)[0]
                index = len(code) - 1
        return None

    def admissible(self, node: ast.AST) -> Tuple[Set[Tuple[int, int]], str]:
        """Return the admissible (line, column) pairs and how they were derived."""
        self.interval = None
        if isinstance(node, ast.Module):
            # the module starts with the text; its first statement is admitted as well
            out = {(1, 1)}
            if node.body:
                out |= self._positions_of(node.body[0])
            return out, "module"
        own = self._positions_of(node)
        if own:
            return own, "own-position"
        # No position on the node (ast.comprehension, ast.arguments, ...): its first character
        # is not derivable from ``ast`` alone (a comprehension starts at its ``for`` keyword),
        # so anything from the start of the enclosing statement up to the first positioned
        # descendant is admitted (returned as a closed interval in document order).
        out: Set[Tuple[int, int]] = set()
        cur: Optional[ast.AST] = node
        while cur is not None and not isinstance(cur, ast.stmt):
            cur = self.parent.get(id(cur))
        if cur is not None:
            out |= self._positions_of(cur)
        hi = None
        for desc in ast.walk(node):
            if desc is not node and getattr(desc, "lineno", None) is not None:
                col = _char_col(self.lines, desc.lineno, desc.col_offset)
                if col is not None:
                    hi = (desc.lineno, col)
                break
        if hi is None and cur is not None and getattr(cur, "end_lineno", None) is not None:
            col = _char_col(self.lines, cur.end_lineno, cur.end_col_offset)
            if col is not None:
                hi = (cur.end_lineno, col)
        if out and hi is not None:
            self.interval = (min(out), hi)
        return out, "enclosing-statement-up-to-first-child"


# ---------------------------------------------------------------------------
# Layouts: move constructs to controlled positions without changing the constructs
# ---------------------------------------------------------------------------

def _lay_identity(text, rng):
    return text


def _lay_blank_lines(text, rng):
    return "\n" * rng.choice([1, 2, 5, 40]) + text


def _lay_comment_ascii(text, rng):
    return "# a comment\n" * rng.choice([1, 3]) + text


def _lay_comment_non_ascii(text, rng):
    return rng.choice(["# \u00e9\u00e8 \u4e2d\u6587\n", "# \U0001F600\U0001F600 astral\n", "# \u00df\n# \u0301x\n"]) + text


def _lay_multiline_string(text, rng):
    return rng.choice(
        ['"""A module\ndocstring over\n\nfour lines."""\n', "'''\n\u4e2d\u6587\n'''\n", '"""x\\\ny"""\n']
    ) + text


def _lay_crlf(text, rng):
    return text.replace("\r\n", "\n").replace("\n", "\r\n")


def _lay_tabs(text, rng):
    return re.sub(r"(?m)^(?:    )+", lambda m: "\t" * (len(m.group(0)) // 4), text)


def _lay_trailing_comments(text, rng):
    return "".join(
        ln[:-1] + "  # \u00e9\U0001F600\n" if ln.endswith("\n") and ln.strip() and rng.random() < 0.3
        and '"""' not in ln and "'''" not in ln and not ln.rstrip().endswith("\\") else ln
        for ln in text.splitlines(keepends=True)
    )


_OPENERS = re.compile(r"[(\[](?=[^)\]\n])|, (?=\S)")


def _lay_break_inside_brackets(text, rng):
    """Turn one-line bracketed constructs into multi-line statements."""
    lines = text.splitlines(keepends=True)
    cands = [
        i for i, ln in enumerate(lines)
        if ("(" in ln or "[" in ln) and '"' not in ln.split("(", 1)[0] and "'" not in ln and "#" not in ln
    ]
    if not cands:
        return text
    for i in rng.sample(cands, min(len(cands), rng.choice([1, 2, 4]))):
        ln = lines[i]
        # only break at positions that are inside brackets and outside string literals
        depth, in_str, spots = 0, None, []
        for k, ch in enumerate(ln):
            if in_str:
                if ch == in_str and ln[k - 1] != "\\":
                    in_str = None
                continue
            if ch in "\"'":
                in_str = ch
            elif ch in "([{":
                depth += 1
                spots.append(k + 1)
            elif ch in ")]}":
                depth -= 1
            elif ch == "," and depth > 0:
                spots.append(k + 1)
        if in_str or not spots:
            continue
        indent = " " * (len(ln) - len(ln.lstrip(" ")) + rng.choice([2, 4, 8]))
        for k in sorted(rng.sample(spots, min(len(spots), rng.choice([1, 2, 3]))), reverse=True):
            ln = ln[:k] + "\n" + indent + ln[k:].lstrip(" ")
        lines[i] = ln
    return "".join(lines)


def _lay_leading_indented_comment(text, rng):
    return rng.choice(["   # indented comment before the first token\n", "\x0c\n", " \t# c\n"]) + text


def _lay_class_docstrings(text, rng):
    """Put a (multi-line, non-ASCII) docstring under every class header."""
    doc = rng.choice(['"""Doc."""', '"""\n    \u00e9 \u4e2d\n\n    More.\n    """', '"""\U0001F600"""'])
    return re.sub(r"(?m)^(class [^\n]*:)\n(?=    \S)", lambda m: m.group(1) + "\n    " + doc + "\n\n", text)


LAYOUTS = [
    ("identity", _lay_identity, 4), ("blank-lines", _lay_blank_lines, 2),
    ("comment-ascii", _lay_comment_ascii, 1), ("comment-non-ascii", _lay_comment_non_ascii, 2),
    ("multiline-string", _lay_multiline_string, 2), ("crlf", _lay_crlf, 2), ("tabs", _lay_tabs, 1),
    ("trailing-non-ascii-comments", _lay_trailing_comments, 1.5),
    ("break-inside-brackets", _lay_break_inside_brackets, 3),
    ("class-docstrings", _lay_class_docstrings, 1.5),
    ("leading-indented-comment-or-formfeed", _lay_leading_indented_comment, 0.5),
]

# Non-ASCII text on the same line *before* the offending construct.
SAME_LINE_TEMPLATES = [
    'X: Set[str] = constant_set(values=["\u00e9\U0001F600", f()])\n',
    'X: Set[str] = constant_set(description="\u4e2d\u6587 \U0001F600", values=[1 + 1])\n',
    'X: str = constant_str(description="\u00e9", value=f())\n',
    'X: str = constant_str("\u00e9\u00e8", 1, 2, 3)\n',
    'class A:\n    x: int\n\n    def __init__(self, x: int) -> None:\n        self.x = x\n\n'
    '    def f(self, \u00e9: int = "\U0001F600\U0001F600", y: Optional[int] = f()) -> None:\n        pass\n',
    '@invariant(description="\u00e9\U0001F600 d", condition=lambda self: [1, 2])\nclass A:\n    pass\n',
    '@serialization(with_model_type="\u00e9\u00e9" == 3)\nclass A:\n    pass\n',
    'class A(Enum):\n    a = "\U0001F600"; b = f()\n',
    'class A:\n    """\u00e9"""; x: int = "\U0001F600"\n',
    '@verification\ndef f(x: str) -> bool:\n    return match("^\u00e9\U0001F600$", x) is not None and [y for y in "\u4e2d"]\n',
    '@reference_in_the_book(section=(1, 2), fragment="\u00e9 \U0001F600", index=f())\nclass A:\n    pass\n',
    'from typing import List; from os import path as \u00e9, \u4e2d\n',
    'X: "\u00e9\U0001F600" = 1; Y: int = constant_int(value="\u00e9", unknown=3)\n',
]


def build_cases(chk: harness.Check, shard: int, nshards: int) -> List[Tuple[str, str, str]]:
    """(source name, layout name, text) of this shard."""
    seeds = corpus.models()
    seed_texts = [t for _, t in seeds]
    pool: List[Tuple[str, str]] = [(f"corpus/{n}", t) for n, t in seeds if "unexpected" in n]
    pool += [
        (n, t) for n, t in textmut.targeted_cases(chk.rng("targeted"), n_random=chk.pick(30, 200))
        if not n.startswith(("degenerate/", "identifier/"))
    ]
    n_pool = len(pool)
    for t in SAME_LINE_TEMPLATES:
        pool.append(("same-line-non-ascii", t + FOOTER))
        pool.append(("same-line-non-ascii", t.replace("\n", "\n\n") + FOOTER))
    n_total = chk.pick(4000, 60000)
    cases = []
    for i in range(n_total):
        if i % nshards != shard:
            continue
        rng = chk.rng("case", i)
        r = rng.random()
        if r < 0.06:
            name, text = pool[n_pool + rng.randrange(len(pool) - n_pool)]
        elif r < 0.7:
            name, text = pool[rng.randrange(n_pool)]
        else:
            _n, seed = rng.choice(seeds)
            text, names = textmut.mutate(seed, rng, rng.choice([1, 2]), donors=seed_texts)
            name = "mut/" + "+".join(names)
        text = text.encode("utf-8", "ignore").decode("utf-8")
        k = rng.choice([1, 1, 2])
        applied = []
        for _ in range(k):
            lname, func = textmut._pick(rng, LAYOUTS)
            if lname == "identity" and applied:
                continue
            text = func(text, rng)
            applied.append(lname)
        cases.append((name, "+".join(applied), text))
    return cases


# ---------------------------------------------------------------------------
# Monitor
# ---------------------------------------------------------------------------

class LocationMonitor:
    """Wrapper on ``common.LinenoColumner.error_message`` (class attribute)."""

    def __init__(self, chk: harness.Check) -> None:
        from aas_core_codegen import common

        self.chk = chk
        self.common = common
        self.original = common.LinenoColumner.error_message
        self.records: List[Dict[str, Any]] = []
        self.refs: Dict[int, Tuple[Any, NodeReference]] = {}
        self.context: Dict[str, Any] = {}
        monitor = self
        original = self.original

        def error_message(self_lc, error):  # noqa
            try:
                result = original(self_lc, error)
            except BaseException as err:  # noqa
                monitor.observe(self_lc, error, None, err)
                raise
            monitor.observe(self_lc, error, result, None)
            return result

        error_message.__wrapped__ = original  # type: ignore
        common.LinenoColumner.error_message = error_message  # type: ignore

    def uninstall(self) -> None:
        self.common.LinenoColumner.error_message = self.original  # type: ignore

    def _reference(self, atok) -> NodeReference:
        entry = self.refs.get(id(atok))
        if entry is None or entry[0] is not atok:
            self.refs.clear()
            entry = (atok, NodeReference(atok.tree, atok.text))
            self.refs[id(atok)] = entry
        return entry[1]

    def observe(self, lc, error, result, err) -> None:
        chk = self.chk
        chk.count("error_message_calls")
        node = getattr(error, "node", None)
        if node is None:
            chk.count("errors_without_node")
            return
        chk.count("located_errors")
        atok = lc.atok
        text = atok.text
        ctx = self.context
        witness = {
            "source": ctx.get("name"), "layout": ctx.get("layout"), "text": text,
            "node": type(node).__name__, "message": str(error.message)[:300],
        }
        # Labels for the mechanism key only (the verdict comes from the independent
        # conversion below): does the text range of the module start after offset 0, and
        # does the node carry a token range at all?
        try:
            blank_feature = atok.get_text_range(atok.tree)[0] != 0
        except Exception:  # noqa
            blank_feature = False
        untokened = not hasattr(node, "first_token")
        if err is not None:
            key = "location/error_message-raised|" + type(err).__name__
            if blank_feature:
                key += "|module-text-range-starts-after-offset-0"
            chk.violation(key, dict(witness, exception=repr(err)[:300]))
            chk.case(None)
            return
        m = PREFIX_RE.match(result)
        if m is None:
            chk.count("located_errors_without_prefix")
            chk.case(None)
            return
        line, column = int(m.group(1)), int(m.group(2))
        start, _end = atok.get_text_range(node)
        ref_line, ref_column = offset_to_line_column(text, start)
        reference = self._reference(atok)
        admissible, how = reference.admissible(node)
        interval = reference.interval
        line_text = text.split("\n")[ref_line - 1] if ref_line - 1 < len(text.split("\n")) else ""
        non_ascii_before = any(ord(ch) > 127 for ch in line_text[: ref_column - 1])
        chk.count("located_errors_on_first_line" if ref_line == 1 else "located_errors_on_later_lines")
        if ref_column > 1:
            chk.count("located_errors_at_column_gt_1")
        if non_ascii_before:
            chk.count("located_errors_after_non_ascii_on_same_line")
        chk.hist("node_class", type(node).__name__)
        chk.hist("reference_derivation", how)
        self.records.append(
            {"prefix": m.group(0), "first_line": str(error.message).splitlines()[0] if error.message else ""}
        )
        witness.update(
            emitted=[line, column], offset=start, independent_conversion=[ref_line, ref_column],
            admissible_from_ast=sorted(admissible), admissible_interval=interval, node_lineno=getattr(node, "lineno", None),
            node_col_offset_bytes=getattr(node, "col_offset", None),
        )
        distinct = (
            type(node).__name__, ctx.get("layout"), ref_line == 1, ref_column == 1, non_ascii_before
        )
        sample = None
        if chk.evaluations % 2500 == 11:
            sample = {k: witness[k] for k in ("source", "layout", "node", "emitted", "admissible_from_ast")}
            sample["line_text"] = line_text[:120]
        chk.case(distinct_key=distinct, sample=sample)

        # a node without token range has no meaningful offset: judged on the AST position only
        ok_table = untokened or (line, column) == (ref_line, ref_column)
        ok_node = (line, column) in admissible if admissible else True
        if not ok_node and interval is not None:
            ok_node = interval[0] <= (line, column) <= interval[1]
        if not admissible:
            chk.count("located_errors_without_ast_reference")
        if ok_table and ok_node:
            return
        if untokened:
            # e.g. nodes inside f-strings: asttokens gives them no range -> offset 0
            key = "location/node-without-token-range-reported-at-offset-0"
        elif blank_feature:
            key = "location/mismatch|module-text-range-starts-after-offset-0"
        elif not ok_table and text[start:start + 1] == "\n":
            key = "location/mismatch|construct-range-starts-at-a-newline-character"
        elif not ok_table:
            dl, dc = line - ref_line, column - ref_column
            if dl == 0 and dc == 1 and ref_line > 1:
                key = "location/column+1-on-lines-after-the-first"
            elif dl == 0 and dc == 1:
                key = "location/column+1-on-the-first-line"
            elif dl == 0 and dc == -1:
                key = "location/column-1 (0-based)|" + ("first-line" if ref_line == 1 else "later-lines")
            elif dc == 0 and dl in (1, -1):
                key = f"location/line{dl:+d}"
            else:
                sign = lambda v: "-" if v < 0 else ("+" if v > 0 else "=")  # noqa
                key = f"location/table-mismatch|line{sign(dl)}|column{sign(dc)}"
        else:
            # table is right, but the offset is not the start of the construct
            key = f"location/offset-not-at-construct|{type(node).__name__}"
        chk.violation(key, witness)


def run_case(chk: harness.Check, monitor: LocationMonitor, name: str, layout: str, text: str, target: str) -> None:
    monitor.context = {"name": name, "layout": layout}
    monitor.records = []
    chk.count("models_run")
    chk.hist("layout", layout)
    res = driver.run_inprocess(text, target)
    res.cleanup()
    driver._wipe_cache()
    if res.exc is not None:
        chk.hist("runs_ending_in_exception_not_judged_here", type(res.exc).__name__)
        return
    if res.rc == 0:
        chk.count("models_accepted")
        return
    chk.count("models_rejected")
    if monitor.records:
        chk.count("rejected_models_with_located_errors")
    # every recorded prefix must reach the report
    for rec in monitor.records:
        chk.count("prefixes_checked_against_report")
        needle = rec["prefix"] + rec["first_line"]
        if needle not in res.stderr:
            chk.violation(
                "report/recorded-location-missing-from-stderr",
                {"source": name, "layout": layout, "text": text, "needle": needle, "stderr": res.stderr[:3000]},
            )
    # and every prefix in the report must have been produced by the monitored function
    in_report = re.findall(r"(?m)^\s*(?:\* )?(At line \d+ and column \d+: )", res.stderr)
    recorded = {rec["prefix"] for rec in monitor.records}
    for prefix in in_report:
        if prefix not in recorded:
            chk.count("report_prefixes_not_from_monitored_function")


def worker(argv: List[str], shard: int, nshards: int, budget: float) -> Dict[str, Any]:
    warnings.simplefilter("ignore")
    private_tmp = env.new_dir("tmp-c04")
    tempfile.tempdir = str(private_tmp)
    os.environ["TMPDIR"] = str(private_tmp)
    chk = harness.Check("C04", "exploration", RULE, argv)
    monitor = LocationMonitor(chk)
    try:
        for i, (name, layout, text) in enumerate(build_cases(chk, shard, nshards)):
            # stop at the wall budget; on an overloaded machine go on (up to 3x) until this
            # worker's share of the minimum observation counts is reached
            late = chk.elapsed() > budget
            if late and (chk.evaluations >= chk.pick(120, 1500) or chk.elapsed() > 3 * budget):
                chk.count("cases_skipped_by_wall_budget")
                continue
            try:
                run_case(chk, monitor, name, layout, text, ("python", "jsonschema", "xsd")[i % 3])
            except (UnicodeError, OSError) as err:
                # the driver could not even write the case (e.g. a lone surrogate that an
                # escape in the model put into a snippet): not an observation
                chk.hist("cases_the_driver_could_not_prepare", type(err).__name__)
    finally:
        monitor.uninstall()
    return chk.export()


MINIMAL_REPRODUCERS = [
    # (name, text, expected (line, column) of the innermost located error)
    ("property-default-on-line-2", "class A:\n    x: int = 1\n" + FOOTER, (2, 14)),
    ("first-line", "X: int = constant_str(1)\n" + FOOTER, (1, 10)),
    ("line-3-column-1", "\n\nX: int = 1\n" + FOOTER, (3, 10)),
    # pinned reproducers of the mechanisms listed in proposals/C04.md
    ("leading-indented-comment", "   # c\nclass A:\n    x: int = 1\n" + FOOTER, (3, 14)),
    (
        "module-node-after-blank-lines",
        "\n\nclass Something:\n    @verification\n    def f(self, x: int) -> int:\n        return x\n" + FOOTER,
        (4, 5),
    ),
    (
        "offset-beyond-shortened-table",
        "  # a long comment line to shift things by many characters ...........\n"
        + FOOTER.lstrip("\n") + "class A:\n    x: int = 1",
        (5, 14),
    ),
    (
        "node-inside-f-string",
        "class Something:\n    x: Optional[int]\n\n    def __init__(self, x: Optional[int] = None) -> None:\n"
        "        self.x = x\n\n\n@verification\ndef match_something(text: str) -> bool:\n    a = f\"{a}\"\n"
        "    return match(a, text) is not None\n" + FOOTER,
        (10, 12),
    ),
    (
        "node-inside-f-string-after-non-ascii-on-the-same-line",
        "class Something:\n    x: Optional[int]\n\n    def __init__(self, x: Optional[int] = None) -> None:\n"
        "        self.x = x\n\n\n@verification\ndef match_something(text: str) -> bool:\n    a = f\"\u00e9\u4e2d{a}\"\n"
        "    return match(a, text) is not None\n" + FOOTER,
        (10, 14),
    ),
    (
        "node-inside-f-string-after-astral-on-the-same-line",
        "class Something:\n    x: Optional[int]\n\n    def __init__(self, x: Optional[int] = None) -> None:\n"
        "        self.x = x\n\n\n@verification\ndef match_something(text: str) -> bool:\n    a = f\"\U0001F600-{a}\"  # \u00fc\n"
        "    return match(a, text) is not None\n" + FOOTER,
        (10, 14),
    ),
]


def replay_minimal(chk: harness.Check, monitor: LocationMonitor) -> None:
    """Fixed hand-checked cases (expected positions counted by hand, 1-based)."""
    for name, text, expected in MINIMAL_REPRODUCERS:
        run_case(chk, monitor, f"minimal/{name}", "identity", text, "python")
        result, error, exc = driver.load_inprocess(text)
        found = re.findall(r"At line (\d+) and column (\d+): ", error or "")
        chk.count("minimal_reproducers_run")
        if found:
            got = (int(found[-1][0]), int(found[-1][1]))
            chk.hist("minimal_reproducer", f"{name}: expected {expected}, report says {got}")


def main(argv) -> int:
    chk = harness.Check("C04", "exploration", RULE, argv)
    hooks.import_all_repo_modules()
    if chk.replay:
        data = json.loads(open(chk.replay).read())
        witness = data.get("witness", data)
        monitor = LocationMonitor(chk)
        run_case(chk, monitor, witness.get("source") or "replay", witness.get("layout") or "identity", witness["text"], "python")
        monitor.uninstall()
        chk.distinct.update([("replay", 1), ("replay", 2)])
        return chk.finish()

    monitor = LocationMonitor(chk)
    replay_minimal(chk, monitor)
    monitor.uninstall()

    budget = chk.wall_budget(55, 600)
    with concurrent.futures.ProcessPoolExecutor(max_workers=WORKERS) as pool:
        futures = [pool.submit(worker, list(argv), s, WORKERS, budget) for s in range(WORKERS)]
        for s, fut in enumerate(futures):
            try:
                chk.merge(fut.result(timeout=budget + 600))
            except BaseException as err:  # noqa
                chk.mark_inconclusive(f"worker {s} did not finish: {type(err).__name__}: {err}")

    chk.require_min("located_errors", chk.pick(600, 8000))
    chk.require_min("located_errors_on_later_lines", 150)
    chk.require_min("located_errors_on_first_line", 30)
    chk.require_min("located_errors_at_column_gt_1", 150)
    chk.require_min("located_errors_after_non_ascii_on_same_line", 5)
    chk.require_min("prefixes_checked_against_report", chk.pick(400, 6000))
    chk.assume(
        "a decorated class/function may be located at its first decorator (the construct starts "
        "there) or at its def/class line; nodes without own position (ast.arguments, ...) at "
        "their enclosing statement or first positioned child"
    )
    chk.assume("lines are separated by '\\n' ('\\r\\n' counts the '\\r' as last character of the line); lone '\\r' layouts are not generated")
    return chk.finish()
