"""C21 — distinct meta-model names never collide in generated code."""
import collections
import concurrent.futures
import os
import pathlib
import re
import shutil
import tempfile
import time
import traceback
from typing import Any, Dict, List, Optional, Sequence, Tuple

from vf import declscan, driver, env, harness, syntaxcheck as sc
from vf.checks.c20 import timed, slug

RULE = (
    "near-collision meta-models that the front end accepts: two entities of one scope "
    "(classes, enumerations, constrained primitives, properties incl. inherited ones, "
    "methods, enumeration literals, constants, verification functions, and names derived "
    "from another entity such as verify_X / is_X / get_X / IFoo) whose names differ only in "
    "case or underscore placement, each paired with a control model in which the second "
    "entity is renamed to an unrelated name; x 8 targets.  A run must exit non-zero with a "
    "report, or the declarations extracted from its output (Python ast, duplicate-key aware "
    "JSON, XSD component tables, declaration scanners over token streams for C#, Go, "
    "TypeScript, Java, C++; javac attribution, g++ and V8 as redefinition detectors) must "
    "show no name declared more often in a scope than in the control and no declaration or "
    "file merged away; distinct_nontrivial = distinct (entity kind, naming pattern, target) "
    "for which both the model and its control generated code and were compared"
)

HEAD = '''from enum import Enum
from re import match
from typing import List, Optional, Set

from icontract import invariant, DBC, ensure

from aas_core_meta.marker import (
    abstract,
    serialization,
    implementation_specific,
    verification,
    constant_set,
    non_mutating,
)


'''

TAIL = '''
__version__ = "V1"

__xml_namespace__ = "https://dummy.com/gen"
'''


# ---------------------------------------------------------------------------------
# Workload
# ---------------------------------------------------------------------------------

def simple_class(name: str, props: Sequence[Tuple[str, str]], bases: Sequence[str] = (),
                 decorators: Sequence[str] = (), methods: Sequence[str] = (),
                 inherited: Sequence[Tuple[str, str]] = ()) -> str:
    lines = [d for d in decorators]
    base_text = ", ".join(list(bases) or ["DBC"])
    lines.append(f"class {name}({base_text}):")
    for prop, type_ in props:
        lines.append(f"    {prop}: {type_}")
        lines.append("")
    for method in methods:
        lines.append("    @implementation_specific")
        lines.append("    @non_mutating")
        lines.append(f"    def {method}(self) -> int:")
        lines.append("        return 1")
        lines.append("")
    all_props = list(inherited) + list(props)
    if all_props:
        ordered = [x for x in all_props if not x[1].startswith("Optional[")] + [
            x for x in all_props if x[1].startswith("Optional[")
        ]
        args = ", ".join(
            f"{p}: {t}" + (" = None" if t.startswith("Optional[") else "") for p, t in ordered
        )
        lines.append(f"    def __init__(self, {args}) -> None:")
        if inherited:
            for base in bases:
                lines.append(
                    f"        {base}.__init__(self, " + ", ".join(f"{p}={p}" for p, _ in inherited) + ")"
                )
        for prop, _ in props:
            lines.append(f"        self.{prop} = {prop}")
        if not props and not inherited:
            lines.append("        pass")
    elif not methods:
        lines.append("    pass")
    lines.append("")
    lines.append("")
    return "\n".join(lines)


def enum_def(name: str, literals: Sequence[str]) -> str:
    lines = [f"class {name}(Enum):"]
    for k, literal in enumerate(literals):
        lines.append(f'    {literal} = "value-{k}"')
    lines += ["", ""]
    return "\n".join(lines)


def function_def(name: str) -> str:
    return (
        f"@verification\ndef {name}(value: int) -> bool:\n"
        f"    return value > 0\n\n\n"
    )


class Scenario:
    def __init__(self, kind: str, pattern: str, a: str, b: str, control: str) -> None:
        self.kind = kind
        self.pattern = pattern
        self.a = a
        self.b = b
        self.control = control  # the replacement of ``b`` in the control model

    @property
    def key(self) -> str:
        """Part of the mechanism keys: entity kinds and naming pattern."""
        return f"{self.kind}/{self.pattern.replace('/swapped', '')}"

    def texts(self) -> Tuple[str, str]:
        return build_model(self.kind, self.a, self.b), build_model(self.kind, self.a, self.control)


def build_model(kind: str, a: str, b: str) -> str:
    """One model with the entities ``a`` and ``b`` of the given kind in one scope."""
    parts: List[str] = [HEAD]
    functions = ["is_good"]
    enums = [("Base_kind", ["Alpha_one", "Beta_two"])]
    constants = ['Base_const: str = constant_str(value="x")']
    cprims: List[str] = []
    classes: List[str] = []
    leaf_props: List[Tuple[str, str]] = [("leaf_prop", "int")]
    root_props: List[Tuple[str, str]] = [("root_prop", "str")]
    leaf_methods: List[str] = []

    if kind == "class-class":
        classes += [simple_class(a, [("some_prop", "str")]), simple_class(b, [("other_prop", "int")])]
    elif kind == "class-enum":
        classes.append(simple_class(a, [("some_prop", "str")]))
        enums.append((b, ["First_one", "Second_one"]))
    elif kind == "class-then-enum":
        # the same pair, but the enumeration is defined *after* the class
        classes.append(simple_class(a, [("some_prop", "str")]))
        classes.append(enum_def(b, ["First_one", "Second_one"]))
    elif kind == "class-then-cprim":
        classes.append(simple_class(a, [("some_prop", "str")]))
        classes.append(f"class {b}(str, DBC):\n    pass\n\n\n")
    elif kind == "enum-enum":
        enums += [(a, ["First_one"]), (b, ["Second_one"])]
    elif kind == "class-cprim":
        classes.append(simple_class(a, [("some_prop", "str")]))
        cprims.append(f"class {b}(str, DBC):\n    pass\n\n\n")
    elif kind == "abstract-class":
        classes.append(simple_class(a, [("some_prop", "str")], decorators=["@abstract"]))
        classes.append(simple_class("Child_of_a", [], bases=[a], inherited=[("some_prop", "str")]))
        classes.append(simple_class(b, [("other_prop", "int")]))
    elif kind == "property-property":
        leaf_props += [(a, "str"), (b, "str")]
    elif kind == "property-inherited":
        root_props.append((a, "str"))
        leaf_props.append((b, "str"))
    elif kind == "method-method":
        leaf_methods += [a, b]
    elif kind == "property-method":
        leaf_props.append((a, "str"))
        leaf_methods.append(b)
    elif kind == "literal-literal":
        enums.append(("Pair_kind", [a, b]))
    elif kind == "constant-constant":
        constants += [f'{a}: str = constant_str(value="a")', f'{b}: str = constant_str(value="b")']
    elif kind == "constant-set-constant-set":
        constants += [
            f'{a}: Set[str] = constant_set(values=["a"])',
            f'{b}: Set[str] = constant_set(values=["b"])',
        ]
    elif kind == "function-function":
        functions += [a, b]
    elif kind == "cprim-function":
        cprims.append(f"class {a}(str, DBC):\n    pass\n\n\n")
        functions.append(b)
    elif kind == "class-function":
        classes.append(simple_class(a, [("some_prop", "str")]))
        functions.append(b)
    elif kind == "enum-function":
        enums.append((a, ["First_one"]))
        functions.append(b)
    else:
        raise AssertionError(kind)

    for name in functions:
        parts.append(function_def(name))
    for name, literals in enums:
        parts.append(enum_def(name, literals))
    parts.append("\n\n".join(constants) + "\n\n\n")
    parts.extend(cprims)
    parts.append(
        simple_class(
            "Root_thing", root_props,
            decorators=["@abstract", "@serialization(with_model_type=True)"],
        )
    )
    parts.append(
        simple_class(
            "Leaf_thing", leaf_props, bases=["Root_thing"], methods=leaf_methods,
            inherited=root_props,
            decorators=['@invariant(lambda self: is_good(self.leaf_prop), "Leaf prop must be good.")'],
        )
    )
    parts.append(simple_class("Holder", [("things", "List[Root_thing]"), ("kind", "Optional[Base_kind]")]))
    parts.extend(classes)
    parts.append(TAIL)
    return "".join(parts)


# (pattern name, A, B) for names that start with a capital letter / a small letter
UPPER_PATTERNS = [
    ("underscore-case", "Foo_bar", "Foo_Bar"),
    ("underscore-dropped", "Foo_bar", "FooBar"),
    ("upper-part", "Foo_bar", "Foo_BAR"),
    ("abbreviation-case", "ID_short", "Id_short"),
    ("abbreviation-glued", "ID_short", "IDshort"),
    ("first-part-upper", "Foo_bar", "FOO_bar"),
    ("all-lower-tail", "Foo_bar", "Foobar"),
    ("digit-boundary", "Foo_2bar", "Foo2bar"),
]
LOWER_PATTERNS = [
    ("underscore-case", "foo_bar", "foo_Bar"),
    ("underscore-dropped", "foo_bar", "fooBar"),
    ("upper-part", "foo_bar", "foo_BAR"),
    ("abbreviation-case", "ID_short", "Id_short"),
    ("abbreviation-lower", "ID_short", "id_short"),
    ("abbreviation-glued", "ID_short", "IDshort"),
    ("all-lower", "foo_bar", "foobar"),
    ("digit-boundary", "foo_2bar", "foo2bar"),
]
# The enum literals and the constants start with a capital letter in the meta-model style,
# but nothing forbids other spellings.
MIXED_PATTERNS = UPPER_PATTERNS + [
    ("lower-vs-upper", "Foo_bar", "foo_bar"),
    ("all-upper", "Foo_bar", "FOO_BAR"),
]

# Derived names: the generators derive names such as verify_X, is_X, IFoo from an entity X.
DERIVED = [
    ("cprim-function", "verify-prefix", "Short_text", "verify_short_text"),
    ("class-function", "verify-prefix", "Foo_bar", "verify_foo_bar"),
    ("enum-function", "verify-prefix", "Foo_bar", "verify_foo_bar"),
    ("class-function", "is-prefix", "Foo_bar", "is_foo_bar"),
    ("class-function", "as-prefix", "Foo_bar", "as_foo_bar"),
    ("class-function", "transform-prefix", "Foo_bar", "transform_foo_bar"),
    ("class-function", "visit-prefix", "Foo_bar", "visit_foo_bar"),
    ("abstract-class", "interface-prefix", "Foo", "IFoo"),
    ("abstract-class", "interface-prefix-lower", "Foo", "Ifoo"),
    ("class-class", "enhanced-prefix", "Foo", "Enhanced_foo"),
    ("class-class", "builder-suffix", "Foo", "Foo_builder"),
    ("class-class", "choice-suffix", "Foo", "Foo_choice"),
    ("class-class", "abstract-suffix", "Foo", "Foo_abstract"),
    ("abstract-class", "choice-suffix", "Foo", "Foo_choice"),
    ("abstract-class", "abstract-suffix", "Foo", "Foo_abstract"),
    ("class-enum", "choice-suffix", "Foo", "Foo_choice"),
    ("property-method", "getter-prefix", "foo_bar", "get_foo_bar"),
    ("property-method", "setter-prefix", "foo_bar", "set_foo_bar"),
    ("property-method", "same-name-other-case", "foo_bar", "Foo_bar"),
    ("property-method", "or-default-suffix", "foo_bar", "foo_bar_or_default"),
    ("property-property", "getter-prefix", "foo_bar", "get_foo_bar"),
    ("property-property", "private-underscore", "foo_bar", "_foo_bar"),
    ("function-function", "private-underscore", "is_fine", "_is_fine"),
]

KINDS_UPPER = ["class-class", "class-enum", "class-then-enum", "enum-enum", "class-cprim", "class-then-cprim", "abstract-class"]
KINDS_LOWER = ["property-property", "property-inherited", "method-method", "property-method",
               "function-function"]
KINDS_MIXED = ["literal-literal", "constant-constant", "constant-set-constant-set"]


def scenarios(tier: str) -> List[Scenario]:
    result: List[Scenario] = []
    for kind in KINDS_UPPER:
        for pattern, a, b in UPPER_PATTERNS:
            result.append(Scenario(kind, pattern, a, b, "Zq_other_name"))
    for kind in KINDS_LOWER:
        for pattern, a, b in LOWER_PATTERNS:
            result.append(Scenario(kind, pattern, a, b, "zq_other_name"))
    for kind in KINDS_MIXED:
        for pattern, a, b in MIXED_PATTERNS:
            result.append(Scenario(kind, pattern, a, b, "Zq_other_name"))
    for kind, pattern, a, b in DERIVED:
        control = "Zq_other_name" if b[0].isupper() else "zq_other_name"
        result.append(Scenario(kind, pattern, a, b, control))
    if tier == "thorough":
        # the same pairs the other way round (the order of definition decides who "wins")
        for s in list(result):
            if s.kind.split("-")[0] == s.kind.split("-")[-1]:
                result.append(Scenario(s.kind, s.pattern + "/swapped", s.b, s.a, s.control))
    return result


# ---------------------------------------------------------------------------------
# Monitors
# ---------------------------------------------------------------------------------

COLLISION_WORDS = re.compile(r"collid|collision|conflict|already|duplicate|clash|the same", re.I)

JAVAC_COLLISION = re.compile(
    r"compiler\.err\.(already\.defined|duplicate\.class|name\.clash|duplicate\.case\.label|"
    r"ref\.ambiguous|concrete\.inheritance\.conflict|types\.incompatible|"
    r"class\.public\.should\.be\.in\.file|var\.might\.already\.be\.assigned)"
)
GXX_COLLISION = re.compile(
    r"redefinition of|redeclaration of|redeclared|conflicting declaration|cannot be overloaded|"
    r"duplicate (case|member|base)|previous(ly)? (declaration|definition|defined)|"
    r"conflicts with|ambiguous|is already defined|multiple definition"
)


class Output:
    def __init__(self, target: str, run: driver.RunResult) -> None:
        self.target = target
        self.rc = run.rc
        self.exc = run.exc
        self.stderr = run.stderr
        self.root = run.output_dir
        self.workdir = run.workdir
        self.files: Dict[str, pathlib.Path] = {}
        if run.rc == 0 and run.exc is None and run.output_dir.exists():
            for p in sorted(run.output_dir.rglob("*")):
                if p.is_file():
                    self.files[p.relative_to(run.output_dir).as_posix()] = p

    @property
    def ok(self) -> bool:
        return self.rc == 0 and self.exc is None


class Worker:
    def __init__(self, argv: Sequence[str], shard: int) -> None:
        self.chk = harness.Check("C21", "exploration", RULE, argv)
        self.shard = shard
        tmp = env.new_dir(f"tmp{shard}")
        tempfile.tempdir = str(tmp)
        os.environ["TMPDIR"] = str(tmp)
        self.java = sc.JavaServer()
        self.ts = sc.TsServer()
        self.gxx = sc.gxx_available()
        self.classpath = sc.jackson_classpath()
        self.serial = 0
        self.absolute_done: set = set()
        if not self.java.available or self.classpath is None:
            self.chk.unavailable_leg(
                "java: javac or the Jackson jars are missing; javac attribution was not used "
                "(the declaration scanner still ran)"
            )
        if not self.ts.available:
            self.chk.unavailable_leg("typescript: node 22 is missing; V8 early errors were not used")
        if not self.gxx:
            self.chk.unavailable_leg("cpp: g++ is missing; redefinition diagnostics were not used")

    def close(self) -> None:
        self.java.close()
        self.ts.close()

    # -- running ---------------------------------------------------------------------
    def run_target(self, text: str, target: str) -> Output:
        extra = None
        if target == "cpp":
            self.serial += 1
            extra = {"namespace.txt": f"vf{self.shard}x{self.serial}"}
        with timed(self.chk, "generate"):
            run = driver.run_inprocess(text, target, extra_snippets=extra)
        out = Output(target, run)
        out.namespace = extra["namespace.txt"] if extra else ""  # type: ignore
        return out

    # -- comparison --------------------------------------------------------------------
    @staticmethod
    def normalized(out: Output, rel: str) -> bytes:
        data = out.files[rel].read_bytes()
        ns = getattr(out, "namespace", "")
        if ns:
            data = data.replace(ns.encode(), b"NS").replace(ns.upper().encode(), b"NS")
        return data

    def differing(self, model: Output, control: Output) -> Tuple[set, set]:
        """Relative paths (per side) of the files that are not identical on both sides."""
        def key(out: Output, rel: str) -> str:
            ns = getattr(out, "namespace", "")
            return rel.replace(ns, "NS") if ns else rel

        m = {key(model, rel): rel for rel in model.files}
        c = {key(control, rel): rel for rel in control.files}
        dm, dc = set(), set()
        for k in set(m) | set(c):
            if k in m and k in c and self.normalized(model, m[k]) == self.normalized(control, c[k]):
                continue
            if k in m:
                dm.add(m[k])
            if k in c:
                dc.add(c[k])
        return dm, dc

    def decls(self, out: Output, only: Optional[set] = None) -> Tuple[Dict[Tuple[str, str], int], int]:
        counter: Dict[Tuple[str, str], int] = collections.Counter()
        scanned = 0
        ns = getattr(out, "namespace", "")
        for rel, path in out.files.items():
            if only is not None and rel not in only:
                continue
            norm = rel.replace(ns, "NS") if ns else rel
            try:
                found = declscan.decls_of(path, norm)
            except (SyntaxError, ValueError, RecursionError) as err:
                self.chk.hist("unscannable_files", f"{out.target}:{type(err).__name__}")
                continue
            if found is None:
                continue
            scanned += 1
            for d in found:
                scope = d.scope.replace(ns, "NS").replace(ns.upper(), "NS") if ns else d.scope
                counter[(scope, d.name)] += 1
        return counter, scanned

    def absolute(self, scenario: Scenario, target: str, control: Output, control_text: str) -> None:
        """
        The control model has no near-collision at all: its output must not declare a type,
        field or enumeration literal (Go, which has no overloading: anything; Python: a class
        or function) twice in a scope.  Checked
        once per scenario kind and target in every worker (the controls of a kind differ
        only in one harmless name).
        """
        chk = self.chk
        if (target, scenario.kind) in self.absolute_done:
            return
        self.absolute_done.add((target, scenario.kind))
        control.absolute = True  # type: ignore  # the compiler leg looks at all its files
        counter: Dict[Tuple[str, str, str], int] = collections.Counter()
        for rel, path in control.files.items():
            try:
                found = declscan.decls_of(path, rel)
            except (SyntaxError, ValueError, RecursionError):
                continue
            for d in found or []:
                if target == "python" and d.kind not in ("class", "def"):
                    continue
                if target in ("csharp", "java", "typescript") and (
                    d.kind not in ("type", "field", "literal") or d.name.startswith("@")
                ):
                    continue  # methods may be overloaded
                if target == "cpp":
                    # template specialisations repeat a type name legitimately; g++ judges
                    # the collision-free C++ output instead (see ``compilers``)
                    continue
                counter[(d.scope, d.kind, d.name)] += 1
        chk.count("control_outputs_checked_absolutely")
        dups = sorted(k for k, n in counter.items() if n > 1)
        if dups:
            chk.hist("detections", f"{target}:duplicate-in-collision-free-model")
            chk.violation(
                f"{target}/collision/collision-free-model",
                {"detector": "duplicate-declaration", "target": target,
                 "declared_twice": [list(k) for k in dups[:12]], "meta_model": control_text},
            )

    def compare(self, scenario: Scenario, target: str, model: Output, control: Output,
                text: str, control_text: str) -> None:
        chk = self.chk
        self.absolute(scenario, target, control, control_text)
        mechanism = f"{target}/collision/{scenario.key}"

        def witness(**extra: Any) -> Dict[str, Any]:
            chk.hist("detections", f"{target}:{extra.get('detector', '')}")
            w = {
                "detector": extra.pop("detector", ""),
                "scenario": scenario.kind, "pattern": scenario.pattern, "name_a": scenario.a,
                "name_b": scenario.b, "control_name": scenario.control, "target": target,
                "meta_model": text, "control_meta_model": control_text,
            }
            w.update(extra)
            return w

        # (1) merged files
        only_model = sorted(set(model.files) - set(control.files))
        only_control = sorted(set(control.files) - set(model.files))
        if len(only_control) > len(only_model):
            chk.violation(
                mechanism,
                witness(detector="merged-file", files_only_in_control=only_control[:10], files_only_in_model=only_model[:10]),
            )
        # (2) declarations
        with timed(chk, "scan"):
            # identical files declare the same names on both sides: skip them
            diff_model, diff_control = self.differing(model, control)
            model.differing, control.differing = diff_model, diff_control  # type: ignore
            decl_model, scanned = self.decls(model, diff_model)
            decl_control, _ = self.decls(control, diff_control)
        chk.count("files_identical_in_model_and_control", len(model.files) - len(diff_model))
        chk.count(f"files_scanned/{target}", scanned)
        chk.count("declarations_compared", sum(decl_model.values()))
        increased = []
        for key, n in decl_model.items():
            if key in decl_control and n > decl_control[key]:
                increased.append((key, n, decl_control[key]))
        if increased:
            increased.sort()
            chk.violation(
                mechanism,
                witness(
                    detector="duplicate-declaration",
                    declared_more_often_than_in_control=[
                        {"scope": k[0], "name": k[1], "count": n, "count_in_control": m}
                        for k, n, m in increased[:12]
                    ]
                ),
            )
        elif target in ("python", "jsonschema", "xsd"):
            # exact extractors: a declaration that the renaming brings back was merged away
            gone = [k for k in decl_control if k not in decl_model]
            new = [k for k in decl_model if k not in decl_control]
            if len(gone) > len(new):
                chk.violation(
                    mechanism,
                    witness(detector="merged-declaration", only_in_control=[list(k) for k in sorted(gone)[:15]],
                            only_in_model=[list(k) for k in sorted(new)[:15]]),
                )
        return None

    def compilers(self, jobs: List[Tuple[Scenario, str, Output, Output, str, str]]) -> None:
        """Redefinition diagnostics of javac, V8 and g++ for the batch (model vs control)."""
        chk = self.chk

        def witness(s: Scenario, target: str, text: str, control_text: str, **extra: Any):
            chk.hist("detections", f"{target}:{extra.get('detector', '')}")
            w = {"scenario": s.kind, "pattern": s.pattern, "name_a": s.a, "name_b": s.b,
                 "control_name": s.control, "target": target, "meta_model": text,
                 "control_meta_model": control_text}
            w.update(extra)
            return w

        # Java: attribution of the main sources
        if self.java.available and self.classpath is not None:
            for s, target, model, control, text, control_text in jobs:
                if target != "java":
                    continue
                results = []
                for out in (model, control):
                    paths = [str(p) for rel, p in out.files.items()
                             if rel.endswith(".java") and "/test/" not in "/" + rel]
                    with timed(chk, "javac"):
                        failures = self.java.run(paths, analyze_classpath=self.classpath, timeout=900)
                    if failures is None:
                        chk.mark_inconclusive(f"javac server failed: {self.java.error}")
                        results = []
                        break
                    chk.count("javac_attributions")
                    results.append(collections.Counter(
                        f.code for f in failures if JAVAC_COLLISION.search(f.code)
                    ))
                    if out is model:
                        model_failures = failures
                        if not results[0] and not getattr(control, "absolute", False):
                            # nothing to compare with: spare the control's attribution
                            results.append(collections.Counter())
                            break
                    elif results[-1]:
                        chk.hist("detections", "java:javac-in-collision-free-model")
                        chk.violation(
                            "java/collision/collision-free-model",
                            {"detector": "javac-attribution", "target": "java",
                             "diagnostics": [
                                 {"file": pathlib.Path(f.path).name, "line": f.line,
                                  "code": f.code, "message": f.message}
                                 for f in failures if JAVAC_COLLISION.search(f.code)][:8],
                             "meta_model": control_text},
                        )
                if len(results) == 2:
                    more = {c: n for c, n in results[0].items() if n > results[1].get(c, 0)}
                    if more:
                        sample = [
                            {"file": pathlib.Path(f.path).name, "line": f.line, "code": f.code,
                             "message": f.message}
                            for f in model_failures if f.code in more
                        ][:8]
                        chk.violation(
                            f"java/collision/{s.key}",
                            witness(s, target, text, control_text, detector="javac-attribution",
                                    diagnostics=sample),
                        )
        # TypeScript: early errors of V8
        if self.ts.available:
            paths: Dict[str, Tuple[Any, ...]] = {}
            for job in jobs:
                s, target, model, control, text, control_text = job
                if target != "typescript":
                    continue
                for which, out in (("model", model), ("control", control)):
                    for rel, p in out.files.items():
                        if rel.endswith(".ts") and (
                            rel in getattr(out, "differing", out.files)
                            or getattr(out, "absolute", False)
                        ):
                            paths[str(p)] = (job, which, rel)
            if paths:
                with timed(chk, "node"):
                    failures = self.ts.run(sorted(paths))
                if failures is None:
                    chk.mark_inconclusive(f"node server failed: {self.ts.error}")
                else:
                    chk.count("v8_module_compilations", len(paths))
                    per_job: Dict[int, Dict[str, List[sc.Failure]]] = {}
                    for f in failures:
                        if "already been declared" not in f.message and "Duplicate" not in f.message:
                            continue
                        job, which, rel = paths[f.path]
                        per_job.setdefault(id(job), {"model": [], "control": [], "job": job})[which].append(f)  # type: ignore
                    for entry in per_job.values():
                        if entry["control"] and getattr(entry["job"][3], "absolute", False):  # type: ignore
                            chk.hist("detections", "typescript:v8-in-collision-free-model")
                            chk.violation(
                                "typescript/collision/collision-free-model",
                                {"detector": "v8-early-error", "target": "typescript",
                                 "diagnostics": [f.message[:200] for f in entry["control"]][:6],
                                 "meta_model": entry["job"][5]},  # type: ignore
                            )
                        if len(entry["model"]) > len(entry["control"]):
                            s, target, model, control, text, control_text = entry["job"]  # type: ignore
                            chk.violation(
                                f"typescript/collision/{s.key}",
                                witness(s, target, text, control_text, detector="v8-early-error",
                                        diagnostics=[f.message[:200] for f in entry["model"]][:6]),
                            )
        # C++: g++ over one translation unit per output
        if self.gxx:
            cpp_jobs = [j for j in jobs if j[1] == "cpp"]
            if cpp_jobs:
                workdir = env.new_dir("gxx")
                try:
                    sources: List[str] = []
                    include_dirs: List[str] = []
                    owners: List[Tuple[str, Any, str]] = []
                    for job in cpp_jobs:
                        for which, out in (("model", job[2]), ("control", job[3])):
                            include_dirs.append(str(out.root / "include"))
                            owners.append((str(out.root) + "/", job, which))
                            for rel, p in sorted(out.files.items()):
                                if rel.startswith("test/") or "jsonization" in rel:
                                    continue
                                if rel not in getattr(out, "differing", out.files) and not getattr(
                                    out, "absolute", False
                                ):
                                    continue
                                if rel.endswith(".hpp") or rel.endswith(
                                    ("types.cpp", "constants.cpp", "verification.cpp",
                                     "stringification.cpp", "visitation.cpp", "iteration.cpp")
                                ):
                                    sources.append(str(p))
                    sources.sort(key=lambda x: (not x.endswith(".hpp"), x))
                    with timed(chk, "g++"):
                        rc, diags, raw = sc.gxx_unity(sources, include_dirs, workdir, timeout=1200)
                    if rc is None:
                        chk.count("gxx_timeouts")
                    else:
                        chk.count("gxx_translation_units")
                        chk.count("gxx_files_compiled", len(sources))
                        per: Dict[int, Dict[str, Any]] = {}
                        for path, line, kind, message in diags:
                            if kind == "warning" or not GXX_COLLISION.search(message):
                                continue
                            for prefix, job, which in owners:
                                if path.startswith(prefix):
                                    entry = per.setdefault(id(job), {"model": [], "control": [], "job": job})
                                    entry[which].append(f"{pathlib.Path(path).name}:{line}: {message}")
                                    break
                        for entry in per.values():
                            if entry["control"] and getattr(entry["job"][3], "absolute", False):
                                chk.hist("detections", "cpp:g++-in-collision-free-model")
                                chk.violation(
                                    "cpp/collision/collision-free-model",
                                    {"detector": "g++", "target": "cpp",
                                     "diagnostics": entry["control"][:8],
                                     "meta_model": entry["job"][5]},
                                )
                            if len(entry["model"]) > len(entry["control"]):
                                s, target, model, control, text, control_text = entry["job"]
                                chk.violation(
                                    f"cpp/collision/{s.key}",
                                    witness(s, target, text, control_text, detector="g++",
                                            diagnostics=entry["model"][:8]),
                                )
                finally:
                    shutil.rmtree(workdir, ignore_errors=True)

    # -- one scenario -----------------------------------------------------------------
    def run_scenario(self, s: Scenario, pending: List) -> List[Output]:
        chk = self.chk
        text, control_text = s.texts()
        outputs: List[Output] = []
        loaded, error, exc = driver.load_inprocess(text)
        if loaded is None:
            chk.count("scenarios_rejected_by_front_end")
            chk.hist("front_end_rejections", f"{s.kind}/{s.pattern}")
            return outputs
        loaded_control, _, _ = driver.load_inprocess(control_text)
        if loaded_control is None:
            chk.harness_error(f"the control model of {s.kind}/{s.pattern} is rejected by the front end")
            return outputs
        chk.count("scenarios_accepted")
        for target in driver.TARGETS:
            model = self.run_target(text, target)
            outputs.append(model)
            chk.count("target_runs")
            if model.exc is not None:
                control = self.run_target(control_text, target)
                outputs.append(control)
                # ... and the second entity on its own must be fine, too
                alone = self.run_target(build_model(s.kind, s.control, s.b), target)
                outputs.append(alone)
                if control.ok and alone.exc is not None:
                    chk.hist("outcomes", f"{target}:crash-of-one-name-alone")
                elif control.ok:
                    sig = harness.crash_signature(model.exc)
                    chk.violation(
                        f"{target}/crash-instead-of-collision-report/{s.key}",
                        {"crash": sig, "scenario": s.kind, "pattern": s.pattern, "name_a": s.a, "name_b": s.b,
                         "target": target, "meta_model": text,
                         "traceback": harness.format_exc(model.exc)[-2500:]},
                    )
                    chk.hist("outcomes", f"{target}:crash")
                    chk.case((s.kind, s.pattern, target))
                else:
                    chk.hist("outcomes", f"{target}:crash-also-in-control")
                continue
            if model.rc != 0:
                if COLLISION_WORDS.search(model.stderr):
                    chk.count("collision_reports")
                    chk.hist("outcomes", f"{target}:collision-reported")
                    chk.case((s.kind, s.pattern, target),
                             sample={"scenario": s.kind, "pattern": s.pattern, "target": target,
                                     "names": [s.a, s.b],
                                     "report": model.stderr.strip().splitlines()[-1][:300]}
                             if len(chk.samples) < 3 else None)
                else:
                    chk.hist("outcomes", f"{target}:rejected-for-another-reason")
                    chk.hist("other_rejections", f"{target}:{model.stderr.strip().splitlines()[-1][:100] if model.stderr.strip() else ''}")
                continue
            control = self.run_target(control_text, target)
            outputs.append(control)
            if not control.ok:
                chk.hist("outcomes", f"{target}:control-failed")
                continue
            chk.count("outputs_compared")
            chk.hist("outcomes", f"{target}:generated")
            try:
                self.compare(s, target, model, control, text, control_text)
            except Exception:
                chk.harness_error("comparison crashed: " + traceback.format_exc()[-1200:])
            pending.append((s, target, model, control, text, control_text))
            chk.case(
                (s.kind, s.pattern, target),
                sample={"scenario": s.kind, "pattern": s.pattern, "target": target,
                        "names": [s.a, s.b], "files": len(model.files)}
                if len(chk.samples) < 6 and target in ("python", "csharp") else None,
            )
        return outputs


def worker(args) -> Dict[str, Any]:
    argv, shard, n_shards = args
    w = Worker(argv, shard)
    chk = w.chk
    budget = chk.wall_budget(120, 600)
    try:
        todo = scenarios(chk.tier)
        # spread kinds over the workers and the seed over the order
        rng = chk.rng("order")
        rng.shuffle(todo)
        only = os.environ.get("VF_C21_FILTER")
        if only:
            todo = [s for s in todo if re.search(only, f"{s.kind}/{s.pattern}")]
        mine = [s for i, s in enumerate(todo) if i % n_shards == shard]
        pending: List = []
        alive: List[Output] = []
        batch = 0

        def flush() -> None:
            if pending:
                try:
                    w.compilers(list(pending))
                except Exception:
                    chk.harness_error("compiler leg crashed: " + traceback.format_exc()[-1200:])
            pending.clear()
            for out in alive:
                shutil.rmtree(out.workdir, ignore_errors=True)
            alive.clear()
            driver._wipe_cache()

        for index, s in enumerate(mine):
            # soft budget; on a crowded machine go on (up to three times the budget) until
            # this worker has contributed its share of the minimum observations
            done = chk.counters.get("scenarios_accepted", 0)
            own_minimum = 3 if chk.budget is None else 0
            if chk.elapsed() > budget and (done >= own_minimum or chk.elapsed() > 3 * budget):
                chk.count("scenarios_skipped_for_budget", len(mine) - index)
                break
            try:
                alive.extend(w.run_scenario(s, pending))
            except Exception:
                chk.harness_error("scenario crashed in the harness: " + traceback.format_exc()[-1200:])
            batch += 1
            if batch % chk.pick(4, 6) == 0:
                flush()
        flush()
    except Exception:
        chk.harness_error("worker crashed: " + traceback.format_exc()[-1500:])
    finally:
        w.close()
    return chk.export()


def replay(argv, path: str) -> int:
    """Re-run the scenario of a replay file and say whether the mechanism shows again."""
    import json

    data = json.loads(pathlib.Path(path).read_text())
    witness = data["witness"]
    w = Worker([a for a in argv if not a.startswith("--replay") and a != path], 0)
    try:
        todo = [
            s for s in scenarios("thorough")
            if s.kind == witness.get("scenario") and s.pattern == witness.get("pattern")
        ]
        pending: List = []
        alive: List[Output] = []
        for s in todo[:1]:
            alive.extend(w.run_scenario(s, pending))
        if pending:
            w.compilers(pending)
        for out in alive:
            shutil.rmtree(out.workdir, ignore_errors=True)
    finally:
        w.close()
    observed = sorted(w.chk.violations) + sorted(w.chk.known_hits)
    reproduced = data["mechanism"] in observed
    print(f"REPLAY property=C21 mechanism={data['mechanism']} "
          f"{'reproduced' if reproduced else 'not reproduced'}; observed={observed}")
    return 1 if reproduced else 0


def main(argv) -> int:
    chk = harness.Check("C21", "exploration", RULE, argv)
    if chk.replay:
        return replay(list(argv), chk.replay)
    n_shards = int(os.environ.get("VF_C21_WORKERS", "8"))
    with concurrent.futures.ProcessPoolExecutor(max_workers=n_shards) as pool:
        jobs = [pool.submit(worker, (list(argv), s, n_shards)) for s in range(n_shards)]
        for job in jobs:
            try:
                chk.merge(job.result())
            except Exception as err:
                chk.harness_error(f"worker failed: {err!r}")
    chk.assume(
        "a collision is judged differentially: a name counts only if the output for the "
        "near-collision model declares it more often in a scope than the output for the control "
        "model in which the second entity bears an unrelated name (declaration scanners for C#, "
        "Go, TypeScript, Java and C++ are heuristics over token streams; their imprecision "
        "appears on both sides and cancels)"
    )
    chk.assume(
        "an uncaught exception of a generator on a near-collision model whose control model "
        "generates fine is a violation: the property demands a collision *report*"
    )
    chk.assume(
        "collisions between a meta-model entity and a fixed helper of the SDK (e.g. a class "
        "named like a generated visitor) are out of scope: the property speaks of two "
        "meta-model entities"
    )
    chk.require_min("scenarios_accepted", chk.pick(12, 100))
    chk.require_min("outputs_compared", chk.pick(40, 400))
    chk.require_min("declarations_compared", chk.pick(2000, 20000))
    return chk.finish()
