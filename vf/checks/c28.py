"""C28 — smoke check agrees with the real generators."""
import concurrent.futures
import io
import pathlib
import re
from typing import Any, Dict, List, Optional, Tuple

from vf import corpus, driver, env, harness, mmgen, textmut

RULE = (
    "fixture models (accepted, rejected at every stage), generated models incl. mistyped "
    "invariants and schema-inference conflicts, text-mutated models; the real "
    "smoke.main.execute is compared with its components run independently on the same "
    "text (run.load_model, infer_for_schema.infer_constraints_by_class, "
    "csharp.lib.verify_for_types / generate_types / generate_verification with dummy "
    "snippets) and, one-directionally, with main.execute for csharp and jsonschema; the 5 "
    "recorded smoke cases must reproduce expected_stderr.txt up to the model path; "
    "distinct_nontrivial = distinct (smoke rc, first failing component) pairs x models"
)


def components(text: str) -> Tuple[str, str]:
    """Return (first failing component or 'none', detail); 'crash:<...>' if one raises."""
    from aas_core_codegen import infer_for_schema, intermediate, specific_implementations
    from aas_core_codegen.common import Stripped
    from aas_core_codegen.csharp import common as csharp_common, lib as csharp_lib

    loaded, error, exc = driver.load_inprocess(text)
    if exc is not None:
        return "crash:load_model", harness.crash_signature(exc)
    if loaded is None:
        return "load_model", (error or "").strip().splitlines()[0][:80]
    symbol_table, _ = loaded
    try:
        _, errors = infer_for_schema.infer_constraints_by_class(symbol_table=symbol_table)
    except Exception as err:
        return "crash:infer_for_schema", harness.crash_signature(err)
    if errors is not None:
        return "infer_for_schema", str(errors[0].message)[:80]
    try:
        verified, errors = csharp_lib.verify_for_types(symbol_table)
        if errors is not None:
            return "csharp.verify_for_types", str(errors[0].message)[:80]
        dummy = Stripped("DUMMY IMPLEMENTATION")
        spec_impls = {}
        for cls in symbol_table.classes:
            if cls.is_implementation_specific:
                spec_impls[specific_implementations.ImplementationKey(f"Types/{cls.name}/{cls.name}.cs")] = dummy
                continue
            for method in cls.methods:
                if isinstance(method, intermediate.ImplementationSpecificMethod):
                    spec_impls[specific_implementations.ImplementationKey(f"Types/{cls.name}/{method.name}.cs")] = dummy
        for verification in symbol_table.verification_functions:
            if isinstance(verification, intermediate.ImplementationSpecificVerification):
                spec_impls[specific_implementations.ImplementationKey(f"Verification/{verification.name}.cs")] = dummy
        namespace = csharp_common.NamespaceIdentifier("DummyNamespace")
        _, errors = csharp_lib.generate_types(symbol_table=verified, namespace=namespace, spec_impls=spec_impls)
        if errors is not None:
            return "csharp.generate_types", str(errors[0].message)[:80]
        _, errors = csharp_lib.generate_verification(symbol_table=symbol_table, namespace=namespace, spec_impls=spec_impls)
        if errors is not None:
            return "csharp.generate_verification", str(errors[0].message)[:80]
    except Exception as err:
        return "crash:csharp", harness.crash_signature(err)
    return "none", ""


def check_model(chk: harness.Check, name: str, text: str) -> None:
    smoke = driver.run_inprocess(text, "smoke")
    model_path = smoke.workdir / "meta_model.py"
    try:
        if smoke.exc is not None:
            chk.count("smoke_crashed_left_to_C01_C02")
            chk.hist("smoke_crashes", harness.crash_signature(smoke.exc)[:80])
            return
        failing, detail = components(text)
        chk.count("models_compared")
        chk.hist("first_failing_component", failing)
        chk.case(distinct_key=(smoke.rc, failing, name.split("+")[0]),
                 sample={"model": name, "smoke_rc": smoke.rc, "first_failing_component": failing, "detail": detail}
                 if len(chk.samples) < 8 and failing not in ("none", "load_model") else None)
        witness = {"model": name, "text": text, "smoke_rc": smoke.rc, "smoke_stderr": smoke.stderr[:2500],
                   "first_failing_component": failing, "detail": detail}
        if failing.startswith("crash:"):
            chk.count("component_crashed_left_to_C02")
            return
        if smoke.rc == 0:
            chk.count("smoke_exit_0")
            if failing != "none":
                chk.violation(f"smoke-exit-0-although-{failing}-fails", witness)
            if smoke.stderr != "":
                chk.violation("smoke-exit-0-with-stderr", witness)
        elif smoke.rc == 1:
            chk.count("smoke_exit_1")
            if failing == "none":
                chk.violation("smoke-exit-1-although-all-components-succeed", witness)
            if smoke.stderr.strip() == "":
                chk.violation("smoke-exit-1-with-empty-report", witness)
            elif str(model_path) not in smoke.stderr and failing != "load_model":
                chk.violation("smoke-report-does-not-name-the-model-path", witness)
            elif str(model_path) not in smoke.stderr:
                # import errors are reported without the path: only count
                chk.count("reports_without_model_path")
        else:
            chk.violation("smoke-exit-status-not-0-or-1", witness)
        # one-directional cross-checks with the real generators
        if chk.rng("x", name).random() < 0.5:
            for target in ("csharp", "jsonschema"):
                res = driver.run_inprocess(text, target)
                try:
                    if res.exc is not None:
                        continue
                    chk.count(f"cross_checks_{target}")
                    if target == "csharp" and res.rc == 0 and smoke.rc != 0 and failing.startswith("csharp."):
                        # the real C# generator ran types and verification generation
                        # successfully although the smoke tool reports them as failing
                        chk.violation("csharp-generates-but-smoke-reports-csharp-failure", dict(witness, target=target))
                    if (
                        target == "jsonschema"
                        and res.rc != 0
                        and "Failed to infer the schema constraints" in res.stderr
                        and smoke.rc == 0
                    ):
                        chk.violation("jsonschema-inference-fails-but-smoke-passes", dict(witness, target=target, stderr=res.stderr[:1000]))
                finally:
                    res.cleanup()
    finally:
        smoke.cleanup()


def recorded_cases(chk: harness.Check) -> None:
    root = env.REPO / "dev" / "test_data" / "smoke" / "test_main"
    for expected_path in sorted(root.glob("**/expected_stderr.txt")):
        model_path = expected_path.parent / "meta_model.py"
        if not model_path.exists():
            continue
        text = model_path.read_text(encoding="utf-8")
        smoke = driver.run_inprocess(text, "smoke")
        try:
            if smoke.exc is not None:
                chk.violation("recorded-case/raised", {"case": str(expected_path.parent), "error": harness.format_exc(smoke.exc)})
                continue
            got = smoke.stderr.replace(str(smoke.workdir / "meta_model.py"), "<meta_model.py>")
            expected = expected_path.read_text(encoding="utf-8")
            chk.count("recorded_cases_compared")
            chk.case(distinct_key=("recorded", expected_path.parent.name))
            if smoke.rc != 1:
                chk.violation("recorded-case/exit-status", {"case": str(expected_path.parent), "rc": smoke.rc})
            if got.strip() != expected.strip():
                # tolerate differences in (line, column) numbers only if C04's column fix
                # changed them: compare with numbers abstracted as a second, weaker look
                same_modulo_columns = re.sub(r"column \d+", "column N", got.strip()) == re.sub(r"column \d+", "column N", expected.strip())
                chk.violation(
                    "recorded-case/stderr-differs" + ("/columns-only" if same_modulo_columns else ""),
                    {"case": str(expected_path.parent.relative_to(root)), "got": got, "expected": expected},
                )
        finally:
            smoke.cleanup()


def worker(args) -> Dict[str, Any]:
    argv, shard, n_shards, n_models = args[:-1]
    mins = args[-1]
    chk = harness.Check("C28", "exploration", RULE, argv)
    chk.set_worker_minimums({k: v for k, v in mins.items() if k != "recorded_cases_compared"}, n_shards)
    budget = chk.wall_budget(170, 900)
    models: List[Tuple[str, str]] = []
    for k, (name, text) in enumerate(corpus.models()):
        if k % n_shards == shard:
            if chk.tier == "quick" and k % 2 != chk.seed % 2:
                continue
            models.append((name, text))
    donors = [t for _, t in corpus.small_common()]
    for i in range(shard, n_models, n_shards):
        rng = chk.rng("model", i)
        profile = mmgen.Profile(mistype=(i % 3 == 0), schema_invariants_only=(i % 3 == 1), p_invariant=0.9,
                                list_of_lists=(i % 5 == 0))
        m = mmgen.generate(rng, profile)
        models.append((f"mmg/{chk.seed}/{i}", m.text))
        if i % 2 == 0:
            mutated, names = textmut.mutate(m.text, rng, 1, donors)
            models.append((f"mmg/{chk.seed}/{i}+{'+'.join(names)}", mutated))
    # models that only the C# name checks refuse (near-collisions of C21), and their
    # collision-free controls: the C# verification-for-types step is the only failing one
    from vf.checks import c21 as collisions

    todo = collisions.scenarios(chk.tier)
    chk.rng("collisions").shuffle(todo)
    n_collisions = chk.pick(36, 240)
    for j, scenario in enumerate(todo[:n_collisions]):
        if j % n_shards == shard:
            text, control_text = scenario.texts()
            at = min(len(models), 2 * (j // n_shards) + 1)
            models.insert(at, (f"collision/{scenario.kind}/{scenario.pattern}", text))
            if j % 4 == 0:
                models.insert(at, (f"collision-control/{scenario.kind}", control_text))
    for idx, (name, text) in enumerate(models):
        if chk.should_stop(budget):
            chk.count("models_skipped_for_budget", len(models) - idx)
            break
        check_model(chk, name, text)
    return chk.export()


def main(argv) -> int:
    chk = harness.Check("C28", "exploration", RULE, argv)
    n_models = chk.pick(150, 4000)
    n_shards = 12
    mins = {
        "models_compared": chk.pick(150, 800),
        "smoke_exit_0": 30,
        "smoke_exit_1": 30,
        "recorded_cases_compared": 5,
    }
    with concurrent.futures.ProcessPoolExecutor(max_workers=n_shards) as pool:
        jobs = [pool.submit(worker, (list(argv), s, n_shards, n_models, mins)) for s in range(n_shards)]
        recorded_cases(chk)
        for job in jobs:
            try:
                chk.merge(job.result())
            except Exception as err:
                chk.harness_error(f"worker failed: {err!r}")
    kinds = chk.histograms.get("first_failing_component", {})
    for needed in ("load_model", "infer_for_schema", "none"):
        if kinds.get(needed, 0) < 3:
            chk.mark_inconclusive(f"component outcome {needed} observed only {kinds.get(needed, 0)} times")
    if sum(v for k, v in kinds.items() if k.startswith("csharp.")) < 3:
        chk.mark_inconclusive("no model failing only in the C# smoke transpilation was observed")
    if kinds.get("csharp.verify_for_types", 0) < 3:
        chk.mark_inconclusive(
            f"models failing only in csharp.verify_for_types observed {kinds.get('csharp.verify_for_types', 0)} times"
        )
    for counter_name, minimum in mins.items():
        chk.require_min(counter_name, minimum)
    return chk.finish()
