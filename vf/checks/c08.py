"""C08 — generated Python verification implements the invariants exactly."""
import ast
import collections
import concurrent.futures
import re
import traceback
from typing import Any, Dict, List, Optional, Tuple

from vf import corpus, driver, harness, instances, mmgen, pyexec, pysdk, sdkloop

RULE = (
    "accepted meta-models (MMG sdk-safe profile incl. diamonds, constrained-primitive "
    "chains, any/all, implication, membership, verification-function calls; plus corpus "
    "models) x arbitrary-mode instances; for every reachable object/constrained value the "
    "source lambda is evaluated by Python (E4) and the multiset of (path, description) "
    "is compared with <sdk>.verification.verify; verification functions are compared "
    "value-for-value on sampled arguments; distinct_nontrivial = distinct normalised "
    "invariant shapes observed both True and False"
)


def shape_of(node: ast.AST) -> str:
    """Normalised shape of an invariant body (names and constants abstracted)."""

    class Norm(ast.NodeTransformer):
        def visit_Name(self, n: ast.Name) -> Any:
            if n.id in ("len", "all", "any", "range", "self"):
                return n
            return ast.copy_location(ast.Name("N", n.ctx), n)

        def visit_Attribute(self, n: ast.Attribute) -> Any:
            self.generic_visit(n)
            n.attr = "p"
            return n

        def visit_JoinedStr(self, n: ast.JoinedStr) -> Any:
            return ast.copy_location(ast.Name("FSTRING", ast.Load()), n)

        def visit_Constant(self, n: ast.Constant) -> Any:
            return ast.copy_location(ast.Name(type(n.value).__name__.upper(), ast.Load()), n)

    clone = ast.parse(ast.unparse(node), mode="eval").body
    return ast.unparse(Norm().visit(clone))


def feature_of(node: ast.AST) -> str:
    """Coarse mechanism class of an invariant body."""
    for sub in ast.walk(node):
        if isinstance(sub, ast.comprehension) and sub.ifs:
            return "comprehension-filter"
    names = []
    for sub in ast.walk(node):
        if isinstance(sub, ast.Call) and isinstance(sub.func, ast.Name):
            names.append(sub.func.id if sub.func.id in ("len", "all", "any", "range") else "call")
    root = type(node).__name__
    if isinstance(node, ast.BoolOp):
        root += "-" + type(node.op).__name__
    elif isinstance(node, ast.Compare):
        root += "-" + type(node.ops[0]).__name__
    elif isinstance(node, ast.UnaryOp):
        root += "-" + type(node.op).__name__
    tags = sorted(set(names))
    return root + ("+" + "+".join(tags) if tags else "")


def evaluate(func: Any, arg: Any) -> Tuple[str, Any]:
    try:
        result = func(arg)
    except RecursionError:
        raise
    except Exception as err:  # the invariant itself raises in Python
        return "raise", type(err).__name__
    return "value", result


def expected_errors(pm: pyexec.PyModel, sdk: pysdk.Sdk, inst, shadow_memo):
    """Return (Counter of (path, description), list of raising (path, exc), observations)."""
    expected = collections.Counter()
    raising = []
    observations = []  # (shape, bool) for coverage
    nonbool = []
    for path, value, t in instances.walk(pm, inst):
        if isinstance(value, instances.Inst):
            obj = shadow_memo[id(value)]
            invs = pm.all_invariants(value.cls)
            arg = obj
        elif t.kind == "atomic" and pm.is_constrained_primitive(t.name):
            invs = pm.all_invariants(t.name)
            arg = value
        else:
            continue
        for _, inv in invs:
            if inv.func is None:
                continue
            kind, result = evaluate(inv.func, arg)
            if kind == "raise":
                raising.append((path, result, inv))
                continue
            truth = bool(result)
            if not isinstance(result, bool):
                nonbool.append((path, inv))
            observations.append((inv, truth))
            if not truth:
                expected[(sdk.path_str(path), inv.description)] += 1
    return expected, raising, observations, nonbool


FILTER_MODEL = '''
@invariant(
    lambda self: all(len(x) > 2 for x in self.names if len(x) > 0),
    "All non-empty names must be longer than two.",
)
class Something(DBC):
    names: List[str]

    def __init__(self, names: List[str]) -> None:
        self.names = names


__version__ = "dummy"
__xml_namespace__ = "https://dummy.com"
'''


LONG_NAMES_MODEL = mmgen.IMPORTS + '''
@verification
def matches_lower_case_letters_only(text: str) -> bool:
    \"\"\"Check the text.\"\"\"
    pattern = f"^[a-z]*$"
    return match(pattern, text) is not None


@invariant(lambda self: len(self) <= 5, "At most five characters.")
@invariant(lambda self: matches_lower_case_letters_only(self), "Lower-case letters only.")
class Very_long_name_of_a_constrained_primitive_for_short_texts(str, DBC):
    pass


@invariant(lambda self: self >= 0, "Must not be negative.")
class Another_very_long_name_of_a_constrained_primitive_for_counts(int, DBC):
    pass


@invariant(lambda self: len(self.the_items_of_the_very_long_constrained_primitive) >= 1, "At least one item.")
class Something(DBC):
    the_items_of_the_very_long_constrained_primitive: List[
        Very_long_name_of_a_constrained_primitive_for_short_texts
    ]
    counts: List[Another_very_long_name_of_a_constrained_primitive_for_counts]
    single: Very_long_name_of_a_constrained_primitive_for_short_texts
    maybe_counts: Optional[List[Another_very_long_name_of_a_constrained_primitive_for_counts]]

    def __init__(
        self,
        the_items_of_the_very_long_constrained_primitive: List[
            Very_long_name_of_a_constrained_primitive_for_short_texts
        ],
        counts: List[Another_very_long_name_of_a_constrained_primitive_for_counts],
        single: Very_long_name_of_a_constrained_primitive_for_short_texts,
        maybe_counts: Optional[
            List[Another_very_long_name_of_a_constrained_primitive_for_counts]
        ] = None,
    ) -> None:
        self.the_items_of_the_very_long_constrained_primitive = (
            the_items_of_the_very_long_constrained_primitive
        )
        self.counts = counts
        self.single = single
        self.maybe_counts = maybe_counts


__version__ = "dummy"
__xml_namespace__ = "https://dummy.com"
'''


def targeted_models() -> List[Tuple[str, str]]:
    # the grouping models are shared with C09 (there the other SDKs are compared with the
    # Python SDK; here the Python SDK is compared with the reference semantics)
    from vf.checks import c09

    return [
        ("targeted/comprehension-filter", FILTER_MODEL),
        # the generators break long lines: other code paths than for short names
        ("targeted/very-long-names", LONG_NAMES_MODEL),
    ] + list(c09.TARGETED)


def check_model(chk: harness.Check, name: str, text: str, rng, n_instances: int) -> None:
    opened = sdkloop.open_sdk(chk, name, text)
    if opened is None:
        return
    pm, sdk = opened
    try:
        gen = instances.InstanceGenerator(pm, rng)
        classes = gen.instantiable()
        if not classes:
            chk.count("models_without_instantiable_class")
            return
        seen_truth: Dict[str, set] = {}
        for i in range(n_instances):
            cls = classes[i % len(classes)]
            inst = gen.gen_instance(cls)
            memo: Dict[int, Any] = {}
            instances.to_shadow(pm, inst, memo)
            try:
                sdk_obj = sdk.build(inst)
            except Exception as err:
                chk.violation(
                    f"sdk-constructor-raised/{type(err).__name__}",
                    {"model": name, "text": text, "instance": repr(inst),
                     "error": traceback.format_exc()[-2000:]},
                )
                continue
            expected, raising, observations, nonbool = expected_errors(pm, sdk, inst, memo)
            actual = collections.Counter()
            sdk_exc: Optional[BaseException] = None
            try:
                for error in sdk.verification.verify(sdk_obj):
                    actual[(str(error.path), error.cause)] += 1
            except RecursionError:
                raise
            except Exception as err:
                sdk_exc = err
            chk.count("instances_verified")
            chk.count("invariant_evaluations", len(observations))
            for inv, truth in observations:
                shape = getattr(inv, "_shape", None)
                if shape is None:
                    shape = inv._shape = shape_of(inv.node.body)
                seen_truth.setdefault(shape, set()).add(truth)
            if nonbool:
                chk.count("invariants_with_non_bool_result", len(nonbool))
            witness_base = {
                "model": name,
                "text": text,
                "instance": instances.to_jsonable_sample(inst),
            }
            if raising:
                chk.count("instances_where_python_invariant_raises")
                allowed = {r[1] for r in raising}
                if sdk_exc is not None:
                    if type(sdk_exc).__name__ not in allowed:
                        chk.violation(
                            f"verify-raises-other-exception/{type(sdk_exc).__name__}",
                            dict(witness_base, python_raises=sorted(allowed),
                                 sdk_raised=repr(sdk_exc)),
                        )
                    continue
                # SDK did not raise: compare on the invariants that did not raise,
                # leaving the raising ones undetermined.
                undetermined = {(sdk.path_str(p), inv.description) for p, _, inv in raising}
                diff_missing = {k: v for k, v in (expected - actual).items() if k not in undetermined}
                diff_extra = {k: v for k, v in (actual - expected).items() if k not in undetermined}
            else:
                if sdk_exc is not None:
                    tb = harness.format_exc(sdk_exc)
                    chk.violation(
                        f"verify-raised-where-python-does-not/{type(sdk_exc).__name__}",
                        dict(witness_base, sdk_traceback=tb),
                    )
                    continue
                diff_missing = dict(expected - actual)
                diff_extra = dict(actual - expected)
            if diff_missing or diff_extra:
                by_desc = {}
                for cname in pm.classes:
                    for inv in pm.classes[cname].own_invariants:
                        by_desc[inv.description] = inv
                for kind, diff in (("missing-error", diff_missing), ("extra-error", diff_extra)):
                    for (path, desc), _ in diff.items():
                        inv = by_desc.get(desc)
                        if inv is None:
                            # the description itself is wrong (not verbatim)
                            key = f"{kind}/description-not-verbatim"
                            body = None
                        else:
                            key = f"{kind}/{feature_of(inv.node.body)}"
                            body = inv.body_src
                        chk.violation(
                            key,
                            dict(witness_base, path=path, description=desc, invariant=body,
                                 expected=[list(k) for k in expected],
                                 actual=[list(k) for k in actual]),
                        )
            sample = None
            if i == 0 and len(chk.samples) < chk.max_samples:
                sample = {
                    "model": name,
                    "instance": instances.to_jsonable_sample(inst),
                    "expected_errors": [list(k) for k in expected][:6],
                    "actual_errors": [list(k) for k in actual][:6],
                }
            chk.case(sample=sample)
        for shape, truths in seen_truth.items():
            chk.hist("invariant_truth_coverage", "both" if len(truths) == 2 else str(list(truths)[0]))
            if len(truths) == 2:
                chk.add_distinct([shape])
        # verification functions, value for value
        check_functions(chk, name, text, pm, sdk, gen)
    finally:
        sdk.close()


def check_functions(chk, name, text, pm, sdk, gen) -> None:
    for fn in pm.functions.values():
        if not fn.is_verification or fn.implementation_specific:
            continue
        if len(fn.args) != 1 or fn.args[0].type.kind != "atomic":
            continue
        prim = fn.args[0].type.name
        if prim not in pyexec.PRIMITIVES:
            continue
        sdk_fn = getattr(
            sdk.verification, str(sdk.pn.function_name(sdk.Identifier(fn.name))), None
        )
        if sdk_fn is None:
            chk.violation("verification-function-missing-in-sdk", {"model": name, "text": text, "function": fn.name})
            continue
        args = [gen.gen_prim(prim) for _ in range(25)]
        if fn.pattern is not None:
            for _ in range(15):
                s = gen.sampler.sample(fn.pattern)
                if s is not None:
                    args.append(s)
                    if s:
                        args.append(s[:-1])
                        args.append(s + "\n")
                        args.append(s + "x")
        for arg in args:
            kind_a, a = evaluate(fn.func, arg)
            kind_b, b = evaluate(sdk_fn, arg)
            chk.count("function_evaluations")
            if (kind_a, a) != (kind_b, b):
                kind = "pattern" if fn.pattern is not None else "transpilable"
                chk.violation(
                    f"function-result-differs/{kind}",
                    {"model": name, "text": text, "function": fn.name, "argument": arg,
                     "python": [kind_a, a], "sdk": [kind_b, b], "pattern": fn.pattern},
                )


def worker(args) -> Dict[str, Any]:
    argv, shard, n_shards, n_models, n_instances = args[:-1]
    mins = args[-1]
    chk = harness.Check("C08", "exploration", RULE, argv)
    chk.set_worker_minimums(mins, n_shards)
    budget = chk.wall_budget(150, 900)
    models: List[Tuple[str, str]] = []
    targeted = targeted_models()
    models += [m for k, m in enumerate(targeted) if k % n_shards == shard]
    if shard == 0:
        models += corpus.small_common()
    for i in range(shard, n_models, n_shards):
        rng = chk.rng("model", i)
        profile = mmgen.Profile(sdk_safe=True, hostile_strings=(i % 3 == 0))
        m = mmgen.generate(rng, profile)
        models.append((f"mmg/{chk.seed}/{i}", m.text))
        for k, v in m.features.items():
            chk.hist("mmg_features", k, v)
    for idx, (name, text) in enumerate(models):
        if chk.should_stop(budget):
            chk.count("models_skipped_for_budget", len(models) - idx)
            break
        check_model(chk, name, text, chk.rng("inst", name), n_instances)
    return chk.export()


def main(argv) -> int:
    chk = harness.Check("C08", "exploration", RULE, argv)
    n_models = chk.pick(72, 1600)
    n_instances = chk.pick(30, 120)
    n_shards = 12
    if chk.tier == "thorough":
        # v3 fixture: real-world invariants on generated instances
        pass
    mins = {
        "models_with_sdk": chk.pick(20, 60),
        "instances_verified": chk.pick(500, 5000),
        "invariant_evaluations": chk.pick(2000, 20000),
    }
    with concurrent.futures.ProcessPoolExecutor(max_workers=n_shards) as pool:
        jobs = [
            pool.submit(worker, (list(argv), s, n_shards, n_models, n_instances, mins))
            for s in range(n_shards)
        ]
        for job in jobs:
            try:
                chk.merge(job.result())
            except Exception as err:
                chk.harness_error(f"worker failed: {err!r}")
    chk.assume("invariant errors are reported with the path to the instance / constrained value they concern")
    chk.assume("implementation-specific functions use the reference body written in the meta-model")
    for counter_name, minimum in mins.items():
        chk.require_min(counter_name, minimum)
    return chk.finish()
