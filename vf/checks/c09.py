"""C09 — the TypeScript, Java and C++ SDKs agree with the Python SDK."""
import collections
import concurrent.futures
import json
import os
import threading
import traceback
from typing import Any, Dict, List, Optional, Tuple

from vf import corpus, harness, instances, pyexec, pysdk, sdkloop, xsdk
from vf.checks.c10 import mutate_json

LEGS = ("typescript", "java", "cpp")
JAVA_CAUSE_PREFIX = "Invariant violated:\n"

RULE = (
    "meta-models accepted by all four generators (MMG restricted by probing: lists only "
    "of classes, docstring on classes with several bases, no implementation-specific code; "
    "even-numbered models without int/float/len(bytearray)/integer sets/primitive constants "
    "so that the Java SDK compiles, odd-numbered ones with them; plus the small corpus "
    "models) "
    "x instances (half invariant-satisfying, half arbitrary; ints within +-2^53, finite "
    "floats) and structurally mutated JSON documents; every SDK is produced by the real "
    "generator, compiled/run with the real toolchain (node 22, javac/java + Jackson, g++ "
    "-fsanitize=address,undefined) by ONE driver per language and model, and compared "
    "with the generated Python SDK: multiset of (path, cause) with paths mapped back to "
    "meta-model names through <target>.naming, re-serialised JSON after key sorting and "
    "number normalisation, accept/reject of each document, constant and enumeration "
    "tables, sanitizer reports; distinct_nontrivial = distinct (leg, model, class, kind "
    "of case) with a nested or list value or >= 1 reported invariant"
)


# ------------------------------------------------------------------ reference (Python SDK)
def py_segments(path: Any, sdk: pysdk.Sdk) -> List[Any]:
    result: List[Any] = []
    for seg in path.segments:
        if hasattr(seg, "index"):
            result.append(seg.index)
        else:
            result.append(seg.name)
    return result


def py_verify(sdk: pysdk.Sdk, obj: Any) -> Tuple[Optional[List[Any]], Optional[str]]:
    try:
        return [
            [py_segments(err.path, sdk), err.cause] for err in sdk.verification.verify(obj)
        ], None
    except RecursionError:
        raise
    except Exception as err:
        return None, f"{type(err).__name__}: {err}"


def py_document(sdk: pysdk.Sdk, cls: str, text: str) -> Dict[str, Any]:
    """What the Python SDK does with the JSON text ``text`` read as class ``cls``."""
    record: Dict[str, Any] = {"accepted": False, "errors": None, "json": None}
    fn = getattr(
        sdk.jsonization, str(sdk.pn.function_name(sdk.Identifier(f"{cls}_from_jsonable")))
    )
    try:
        parsed = json.loads(text)
    except ValueError as err:
        record["stage"], record["message"] = "json-parse", str(err)
        return record
    try:
        obj = fn(parsed)
    except sdk.jsonization.DeserializationException as err:
        record["stage"], record["message"] = "deserialize", str(err.cause)
        record["where"] = str(err.path)
        return record
    except RecursionError:
        raise
    except Exception as err:
        record["stage"] = "deserialize-crash"
        record["message"] = f"{type(err).__name__}: {err}"
        return record
    record["accepted"] = True
    record["errors"], crash = py_verify(sdk, obj)
    if crash is not None:
        record["verify_crash"] = crash
    try:
        record["json"] = sdk.jsonization.to_jsonable(obj)
    except RecursionError:
        raise
    except Exception as err:
        record["serialize_crash"] = f"{type(err).__name__}: {err}"
    return record


def py_tables(sdk: pysdk.Sdk, facts: xsdk.Facts) -> Dict[str, Any]:
    enums: Dict[str, Any] = {}
    for enum in facts.enums:
        table = {}
        for lit, _ in facts.pm.classes[enum].literals:
            member = sdk.enum_literal(enum, lit)
            fn = getattr(
                sdk.stringification,
                str(sdk.pn.function_name(sdk.Identifier(f"{enum}_from_str"))),
            )
            table[lit] = [member.value, fn(member.value) is member]
        enums[enum] = table
    constants: Dict[str, Any] = {}
    for name, kind, elem in facts.constants:
        value = getattr(
            sdk.constants, str(sdk.pn.constant_name(sdk.Identifier(name))), None
        )
        if value is None:
            constants[name] = {"missing": True}
        elif kind == "set_enum":
            constants[name] = {"set": [v.value for v in value]}
        elif kind.startswith("set_"):
            constants[name] = {"set": list(value)}
        elif isinstance(value, (bytes, bytearray)):
            constants[name] = {"bytes": list(value)}
        else:
            constants[name] = {"value": value}
    return {"enums": enums, "constants": constants}


def normalise_tables(tables: Optional[Dict[str, Any]]) -> Dict[str, Any]:
    if not tables:
        return {"enums": {}, "constants": {}}
    constants = {}
    for name, entry in tables.get("constants", {}).items():
        if not isinstance(entry, dict):
            constants[name] = entry
        elif "set" in entry:
            constants[name] = {"set": sorted(xsdk.canonical(v) for v in entry["set"])}
        elif "value" in entry:
            constants[name] = {"value": xsdk.canonical(entry["value"])}
        else:
            constants[name] = entry
    return {"enums": tables.get("enums", {}), "constants": constants}


# ------------------------------------------------------------------ workload
class Case:
    def __init__(self, idx: int, kind: str, cls: str) -> None:
        self.idx = idx
        self.kind = kind  # satisfying | arbitrary | mutant
        self.cls = cls
        self.inst: Optional[instances.Inst] = None
        self.text = ""
        self.doc: Any = None
        self.base: Optional["Case"] = None
        self.op = ""
        self.ref: Dict[str, Any] = {}
        self.built_errors: Optional[List[Any]] = None
        self.nontrivial = False


def build_cases(
    chk: harness.Check, name: str, text: str, pm: pyexec.PyModel, sdk: pysdk.Sdk,
    rng, n_instances: int, n_mutants: int,
) -> List[Case]:
    arbitrary = xsdk.ArbitraryGenerator(pm, rng)
    satisfying = xsdk.SatisfyingGenerator(pm, rng)
    classes = arbitrary.instantiable()
    cases: List[Case] = []
    if not classes:
        chk.count("models_without_instantiable_class")
        return cases
    for i in range(n_instances):
        cls = classes[i % len(classes)]
        kind = "satisfying" if (i // len(classes)) % 2 == 0 else "arbitrary"
        inst = None
        if kind == "satisfying":
            try:
                inst = satisfying.gen_instance(cls)
            except instances.Unsatisfied:
                chk.count("satisfying_generation_gave_up")
                kind = "arbitrary"
        if inst is None:
            inst = arbitrary.gen_instance(cls)
        case = Case(len(cases), kind, cls)
        case.inst = inst
        case.nontrivial = any(
            isinstance(v, (list, instances.Inst)) for v in inst.props.values()
        )
        try:
            obj = sdk.build(inst)
            case.built_errors, crash = py_verify(sdk, obj)
            if crash is not None:
                chk.count("python_verify_raised")
                continue
            case.doc = sdk.jsonization.to_jsonable(obj)
            case.text = json.dumps(case.doc, ensure_ascii=True, allow_nan=False)
        except RecursionError:
            raise
        except Exception as err:
            # The Python SDK alone is the business of C08/C10.
            chk.count("python_sdk_failed_on_instance")
            chk.hist("python_sdk_failure", type(err).__name__)
            continue
        if not xsdk.json_in_scope(case.doc):
            chk.count("instances_out_of_scope")
            continue
        cases.append(case)
    bases = list(cases)
    produced = 0
    attempts = 0
    while bases and produced < n_mutants and attempts < n_mutants * 4:
        attempts += 1
        base = bases[attempts % len(bases)]
        mutated, op = mutate_json(base.doc, rng)
        if not xsdk.json_in_scope(mutated):
            chk.count("mutants_out_of_scope")
            continue
        if xsdk.locate_difference(base.doc, mutated) is None:
            chk.count("mutants_identical_to_base")
            continue
        case = Case(len(cases), "mutant", base.cls)
        case.base, case.op, case.doc = base, op, mutated
        case.text = json.dumps(mutated, ensure_ascii=True, allow_nan=False)
        cases.append(case)
        produced += 1
    for case in cases:
        case.ref = py_document(sdk, case.cls, case.text)
    return cases


# ------------------------------------------------------------------ comparison
def errors_counter(
    errors: List[Any], prop_map: Optional[Dict[str, str]]
) -> Tuple[collections.Counter, List[str]]:
    """Multiset of (meta-model path, cause); names that do not map back are reported."""
    counter: collections.Counter = collections.Counter()
    unknown: List[str] = []
    for segments, cause in errors:
        mapped = []
        for seg in segments:
            if isinstance(seg, int):
                mapped.append(seg)
            elif prop_map is None:
                mapped.append(seg)
            elif seg in prop_map:
                mapped.append(prop_map[seg])
            else:
                unknown.append(str(seg))
                mapped.append("?" + str(seg))
        counter[(tuple(mapped), cause)] += 1
    return counter, unknown


def has_astral(value: Any) -> bool:
    if isinstance(value, str):
        return any(ord(ch) > 0xFFFF for ch in value)
    if isinstance(value, list):
        return any(has_astral(v) for v in value)
    if isinstance(value, dict):
        return any(has_astral(v) for v in value.values())
    return False


def ends_with_newline(value: Any) -> bool:
    if isinstance(value, str):
        return value.endswith("\n")
    if isinstance(value, list):
        return any(ends_with_newline(v) for v in value)
    if isinstance(value, dict):
        return any(ends_with_newline(v) for v in value.values())
    return False


def newline_view(value: Any) -> Any:
    """Copy with the trailing line feed of every string replaced by a carriage return."""
    if isinstance(value, str):
        return value[:-1] + "\r" if value.endswith("\n") else value
    if isinstance(value, list):
        return [newline_view(v) for v in value]
    if isinstance(value, dict):
        return {k: newline_view(v) for k, v in value.items()}
    return value


def utf16_view(value: Any) -> Any:
    """Copy with every astral character replaced by two private-use characters."""
    if isinstance(value, str):
        return "".join("\ue000\ue001" if ord(ch) > 0xFFFF else ch for ch in value)
    if isinstance(value, list):
        return [utf16_view(v) for v in value]
    if isinstance(value, dict):
        return {k: utf16_view(v) for k, v in value.items()}
    return value


def invariant_feature(pm: pyexec.PyModel, cause: str) -> str:
    from vf.checks.c08 import feature_of

    import ast

    for cls in pm.classes.values():
        for inv in cls.own_invariants:
            if inv.description == cause:
                bodies = [inv.node.body]
                for node in ast.walk(inv.node.body):
                    if (
                        isinstance(node, ast.Call) and isinstance(node.func, ast.Name)
                        and node.func.id in pm.functions
                    ):
                        bodies.append(pm.functions[node.func.id].node)
                for node in (n for body in bodies for n in ast.walk(body)):
                    if (
                        isinstance(node, ast.Compare)
                        and isinstance(node.ops[0], (ast.Eq, ast.NotEq))
                        and any(
                            isinstance(side, ast.Constant) and isinstance(side.value, str)
                            for side in [node.left] + node.comparators
                        )
                    ):
                        return "string-equality"
                return feature_of(inv.node.body)
    return "description-not-verbatim"


def compare_leg(
    chk: harness.Check, leg: str, name: str, text: str, pm: pyexec.PyModel,
    facts: xsdk.Facts, sdk: pysdk.Sdk, cases: List[Case], res: xsdk.LegResult,
    ref_tables: Dict[str, Any], json_leg: bool,
) -> None:
    py_map = {sdk.prop_name(p): p for p in facts.props}
    lang_map = xsdk.Names(leg).prop_map(facts)

    state: Dict[int, Any] = {}  # case index -> reference record actually used

    def witness(case: Optional[Case], **more: Any) -> Dict[str, Any]:
        w: Dict[str, Any] = {"leg": leg, "model": name, "text": text}
        if case is not None:
            w.update(
                case=case.idx, kind=case.kind, cls=case.cls, document=case.text[:4000],
                python=harness.jsonable(state.get(case.idx, case.ref)),
                other=harness.jsonable(res.by_case.get(case.idx)),
            )
            if case.inst is not None:
                w["instance"] = instances.to_jsonable_sample(case.inst)
            if case.base is not None:
                w["mutation"] = case.op
                w["base_document"] = case.base.text[:4000]
        w.update(more)
        return w

    # -- tables
    if res.tables is None:
        chk.violation(f"{leg}/driver-printed-no-tables", witness(None, detail=res.detail[:2000]))
    else:
        got, want = normalise_tables(res.tables), normalise_tables(ref_tables)
        for enum, table in want["enums"].items():
            other = got["enums"].get(enum)
            chk.count(f"{leg}_enum_tables_compared")
            if other is None:
                chk.violation(f"{leg}/enumeration-missing", witness(None, enum=enum))
                continue
            for lit, (value, back) in table.items():
                entry = other.get(lit)
                if entry is None or entry[0] != value:
                    chk.violation(
                        f"{leg}/enum-literal-string-differs",
                        witness(None, enum=enum, literal=lit, python=value, other=entry),
                    )
                elif back is True and entry[1] is not True:
                    chk.violation(
                        f"{leg}/enum-from-string-does-not-invert",
                        witness(None, enum=enum, literal=lit, python=value, other=entry),
                    )
        for const, entry in want["constants"].items():
            if "__unavailable__" in got["constants"]:
                break  # Constants.java did not compile; reported as build failure
            chk.count(f"{leg}_constants_compared")
            other = got["constants"].get(const)
            if other != entry:
                kind = next((k for n, k, _ in facts.constants if n == const), "?")
                chk.violation(
                    f"{leg}/constant-differs/{kind}",
                    witness(None, constant=const, python=entry, other=other),
                )

    # -- cases
    for case in cases:
        if not json_leg and case.kind == "mutant":
            continue
        rec = res.by_case.get(case.idx)
        if rec is None:
            if res.sanitizer_reports:
                continue  # the sanitizer stopped the driver; reported once per model
            chk.violation(f"{leg}/driver-printed-no-line-for-case", witness(case, detail=res.detail[:1500]))
            continue
        chk.count(f"{leg}_cases_compared")
        chk.count("cases_compared")
        second = rec.get("with_long_for_ints")
        if second is not None and case.ref["accepted"] and not rec.get("accepted"):
            # Java: the documented ``new ObjectMapper().readTree(...)`` yields IntNode for
            # integers that fit 32 bits, which the generated ``tryLongFrom`` refuses.
            chk.violation(
                f"{leg}/deserialise-rejects/int-node-of-documented-object-mapper-for-int|"
                f"{xsdk.message_class(rec.get('message'))}",
                witness(case),
            )
            chk.count(f"{leg}_cases_continued_with_USE_LONG_FOR_INTS")
            second["case"] = rec["case"]
            rec = second
        counter_name = f"{leg}_{'mutants' if case.kind == 'mutant' else 'instances'}_compared"
        chk.count(counter_name)
        ref_doc = case.doc
        if json_leg:
            ref = case.ref
            if leg == "typescript" and case.kind == "mutant":
                view = xsdk.javascript_view(facts, case.cls, case.doc)
                if xsdk.locate_difference(case.doc, view) is not None:
                    ref_doc = view
                    # documented limits: JSON.parse erases int/float, unknown members ignored
                    chk.count("typescript_mutants_judged_on_their_javascript_view")
                    ref = py_document(
                        sdk, case.cls, json.dumps(view, ensure_ascii=True, allow_nan=False)
                    )
        else:
            # C++: instance built from the abstract instance; reference = the built object
            ref = {"accepted": True, "errors": case.built_errors, "json": None}
        state[case.idx] = ref
        distinct = None
        # ---- accept / reject
        if json_leg:
            verdicts = ("accepted" if ref["accepted"] else "rejected",
                        "accepted" if rec.get("accepted") else "rejected")
            chk.hist(f"{leg}_verdicts(python,{leg})", f"{case.kind}:{verdicts[0]},{verdicts[1]}")
            if rec.get("stage") == "deserialize-crash":
                chk.hist(f"{leg}_deserialize_crashes", xsdk.message_class(rec.get("message")))
            if verdicts[0] != verdicts[1]:
                if case.base is not None:
                    where = xsdk.locate_difference(case.base.doc, case.doc)
                    assert where is not None
                    path, what = where
                    declared = facts.declared_at(case.cls, case.doc, path)
                    if what == "missing":
                        shape = f"missing-{declared}"
                    elif what == "extra" and isinstance(path[-1], str):
                        shape = (
                            "unexpected-modelType" if path[-1] == "modelType"
                            else "unexpected-property"
                        )
                    else:
                        value = case.doc
                        for seg in path:
                            value = value[seg]
                        supplied = xsdk.supplied_kind(value, declared)
                        if what == "extra":
                            shape = f"extra-item-{supplied}-in-list"
                        elif supplied == "null":
                            shape = f"null-for-{declared}"
                        else:
                            # optionality matters only for null / missing
                            shape = f"{supplied}-for-{declared.replace('optional-', '')}"
                else:
                    shape = "document-written-by-python-sdk"
                message = rec.get("message") if verdicts[0] == "accepted" else ref.get("message")
                chk.violation(
                    f"{leg}/deserialise-{'accepts' if verdicts[1] == 'accepted' else 'rejects'}"
                    f"/{shape}|{xsdk.message_class(message)}",
                    witness(case),
                )
                continue
            if not ref["accepted"]:
                chk.case()
                continue
        # ---- verification
        if rec.get("verify_crash") or ref.get("verify_crash"):
            if bool(rec.get("verify_crash")) != bool(ref.get("verify_crash")):
                chk.violation(
                    f"{leg}/verify-raises-only-on-one-side|{xsdk.message_class(rec.get('verify_crash') or ref.get('verify_crash'))}",
                    witness(case),
                )
        elif rec.get("errors") is None or ref.get("errors") is None:
            chk.violation(f"{leg}/driver-printed-no-errors", witness(case))
        else:
            want, unknown_py = errors_counter(ref["errors"], py_map)
            other_errors = rec["errors"]
            if leg == "java":
                # The Java SDK (like the C# one it was ported from) wraps every
                # description as "Invariant violated:\n<description>" by design.
                stripped = []
                for segments, cause in other_errors:
                    if isinstance(cause, str) and cause.startswith(JAVA_CAUSE_PREFIX):
                        cause = cause[len(JAVA_CAUSE_PREFIX):]
                        chk.count("java_causes_with_prefix_stripped")
                    stripped.append([segments, cause])
                other_errors = stripped
            got, unknown = errors_counter(other_errors, lang_map)
            chk.count(f"{leg}_verifications_compared")
            chk.hist(f"{leg}_invariant_outcomes", "no-error" if not want else f"{min(len(want), 5)}{'+' if len(want) > 5 else ''}-errors")
            if want:
                distinct = (leg, name, case.cls, case.kind)
            if unknown or unknown_py:
                chk.violation(
                    f"{leg}/path-segment-is-not-a-property-name",
                    witness(case, unknown=unknown, unknown_python=unknown_py),
                )
            elif want != got:
                missing, extra = want - got, got - want
                # TypeScript and Java strings are sequences of UTF-16 code units, Python's
                # of code points.  If the Python SDK reports exactly the other SDK's
                # errors once every character beyond the basic plane is replaced by two
                # private-use characters (= its two UTF-16 code units), the disagreement
                # is that one mechanism.
                astral = ""
                hypotheses = []
                if leg in ("typescript", "java") and has_astral(ref_doc):
                    hypotheses.append(("string-length-counts-utf16-code-units", utf16_view))
                    astral = "/instance-has-astral-characters"
                if leg == "typescript" and ends_with_newline(ref_doc):
                    # Python's ``$`` also matches before a trailing line feed, ECMAScript's
                    # does not: judge the document with that line feed made a CR.
                    hypotheses.append(
                        ("pattern-dollar-does-not-match-before-trailing-newline", newline_view)
                    )
                for label, view_of in hypotheses:
                    view = py_document(
                        sdk, case.cls,
                        json.dumps(view_of(ref_doc), ensure_ascii=True, allow_nan=False),
                    )
                    if view.get("errors") is None:
                        continue
                    as_viewed, _ = errors_counter(view["errors"], py_map)
                    # every difference on which the viewed instance agrees with the other
                    # SDK is attributed to this mechanism; the rest is classified below
                    attributed = [
                        key for key in list(missing) + list(extra)
                        if as_viewed.get(key, 0) == got.get(key, 0)
                    ]
                    if attributed:
                        chk.violation(
                            f"{leg}/verification/{label}",
                            witness(
                                case, attributed=[[list(p), c] for (p, c) in attributed],
                                python_errors=[[list(p), c, k] for (p, c), k in want.items()],
                                other_errors=[[list(p), c, k] for (p, c), k in got.items()],
                            ),
                        )
                        for key in attributed:
                            missing.pop(key, None)
                            extra.pop(key, None)
                explained = collections.Counter()
                for (path, cause), n in missing.items():
                    feature = invariant_feature(pm, cause)
                    # the same cause reported on a proper prefix of the expected path?
                    shorter = [
                        (p, c) for (p, c) in extra
                        if c == cause and len(p) == len(path) - 1
                        and tuple(path[: len(p)]) == tuple(p)
                        and extra[(p, c)] - explained[(p, c)] >= n
                    ]
                    if shorter:
                        explained[shorter[0]] += n
                        last = path[-1]
                        sub = (
                            "path-truncated/index-segment-lost" if isinstance(last, int)
                            else "path-truncated/property-segment-lost"
                        )
                        key = f"{leg}/verification/{sub}"
                    elif any(
                        c == cause and p != path and sorted(map(str, p)) == sorted(map(str, path))
                        for (p, c) in extra
                    ):
                        key = f"{leg}/verification/path-segments-in-wrong-order"
                    elif any(c == cause for (p, c) in extra):
                        key = f"{leg}/verification/path-differs/{feature}{astral}"
                    else:
                        key = f"{leg}/verification/missing-error/{feature}{astral}"
                    chk.violation(
                        key,
                        witness(
                            case, path=list(path), cause=cause,
                            python_errors=[[list(p), c, k] for (p, c), k in want.items()],
                            other_errors=[[list(p), c, k] for (p, c), k in got.items()],
                        ),
                    )
                for (path, cause), n in (extra - explained).items():
                    if any(c == cause for (p, c) in missing):
                        continue  # reported above as path-differs
                    chk.violation(
                        f"{leg}/verification/extra-error/{invariant_feature(pm, cause)}{astral}",
                        witness(
                            case, path=list(path), cause=cause,
                            python_errors=[[list(p), c, k] for (p, c), k in want.items()],
                            other_errors=[[list(p), c, k] for (p, c), k in got.items()],
                        ),
                    )
        # ---- JSON
        if json_leg:
            if rec.get("serialize_crash") or ref.get("serialize_crash"):
                if bool(rec.get("serialize_crash")) != bool(ref.get("serialize_crash")):
                    chk.violation(
                        f"{leg}/serialise-raises-only-on-one-side|{xsdk.message_class(rec.get('serialize_crash') or ref.get('serialize_crash'))}",
                        witness(case),
                    )
            else:
                chk.count(f"{leg}_json_compared")
                a, b = xsdk.canonical(ref["json"]), xsdk.canonical(rec.get("json"))
                if a != b:
                    where = xsdk.locate_difference(
                        xsdk.normalise_json(ref["json"]), xsdk.normalise_json(rec.get("json"))
                    )
                    path, what = where if where is not None else ((), "value")
                    declared = facts.declared_at(case.cls, ref["json"], path)
                    chk.violation(
                        f"{leg}/json-differs/{what}-at-{declared}",
                        witness(case, path=list(path)),
                    )
        if case.nontrivial and distinct is None:
            distinct = (leg, name, case.cls, case.kind)
        chk.case(distinct_key=distinct)


# ------------------------------------------------------------------ per model
def check_model(
    chk: harness.Check, tools: xsdk.Toolchains, name: str, text: str, rng,
    n_instances: int, n_mutants: int, legs: Tuple[str, ...], timeouts: Dict[str, float],
) -> bool:
    """Return False if the model was not accepted (front end or Python generator)."""
    opened = sdkloop.open_sdk(chk, name, text)
    if opened is None:
        return False
    pm, sdk = opened
    generated: List[xsdk.Generated] = []
    try:
        facts = xsdk.Facts(pm)
        cases = build_cases(chk, name, text, pm, sdk, rng, n_instances, n_mutants)
        if not cases:
            return True
        ref_tables = py_tables(sdk, facts)
        chk.count("models_with_cases")
        chk.count("reference_instances", sum(1 for c in cases if c.kind != "mutant"))
        chk.count("reference_mutants", sum(1 for c in cases if c.kind == "mutant"))
        for case in cases:
            if case.kind != "mutant" and not case.ref["accepted"]:
                chk.count("python_sdk_rejects_its_own_document")
        results: Dict[str, xsdk.LegResult] = {}
        threads = []
        for leg in legs:
            if not tools.available(leg):
                continue
            gen = xsdk.generate(text, leg)
            generated.append(gen)
            if not gen.ok:
                chk.count(f"{leg}_models_refused_by_generator")
                chk.hist(f"{leg}_generator_refusals", gen.why())
                continue

            def work(leg: str = leg, gen: xsdk.Generated = gen) -> None:
                try:
                    results[leg] = run_leg(tools, leg, facts, gen, cases, timeouts[leg])
                except Exception:
                    res = xsdk.LegResult(leg)
                    res.status, res.detail = "harness-failed", traceback.format_exc()[-3000:]
                    results[leg] = res

            thread = threading.Thread(target=work)
            thread.start()
            threads.append(thread)
        for thread in threads:
            thread.join()
        for leg, res in results.items():
            for stage, seconds in res.seconds.items():
                chk.hist(f"{leg}_seconds", stage, int(round(seconds)))
            chk.hist(f"{leg}_model_status", res.status)
            if res.status == "harness-failed":
                chk.harness_error(f"{leg} leg failed on {name}: {res.detail[-600:]}")
                continue
            if res.status == "timeout":
                chk.count(f"{leg}_models_timed_out")
                continue
            if res.status in ("build-failed", "run-failed"):
                for where, message in compiler_errors(res.detail):
                    chk.violation(
                        f"{leg}/{res.status}/{where}|{message}",
                        {"leg": leg, "model": name, "text": text, "detail": res.detail[-4000:]},
                    )
                continue
            chk.count(f"{leg}_models_compared")
            if res.partial_build_failure:
                chk.hist(f"{leg}_units_left_out_after_build_failure", ",".join(res.excluded_units))
                for where, message in compiler_errors(res.partial_build_failure):
                    chk.violation(
                        f"{leg}/build-failed/{where}|{message}",
                        {"leg": leg, "model": name, "text": text,
                         "detail": res.partial_build_failure[-4000:]},
                    )
            if res.sanitizer_reports:
                chk.count(f"{leg}_sanitizer_reports", res.sanitizer_reports)
                chk.violation(
                    f"{leg}/sanitizer-report|{xsdk.message_class(first_error_line(res.sanitizer_text))}",
                    {"leg": leg, "model": name, "text": text, "report": res.sanitizer_text[-4000:]},
                )
            compare_leg(
                chk, leg, name, text, pm, facts, sdk, cases, res, ref_tables,
                json_leg=(leg != "cpp"),
            )
        return True
    finally:
        for gen in generated:
            gen.cleanup()
        sdk.close()


SDK_UNITS = {
    "Jsonization.java", "Xmlization.java", "Constants.java", "Verification.java",
    "Stringification.java", "Reporting.java", "Copying.java", "Driver.java",
    "driver.cpp", "driver.ts", "common.cpp", "common.hpp", "constants.cpp", "constants.hpp",
    "types.cpp", "types.hpp", "verification.cpp", "verification.hpp", "iteration.cpp",
    "iteration.hpp", "stringification.cpp", "stringification.hpp", "wstringification.cpp",
    "wstringification.hpp", "visitation.cpp", "visitation.hpp", "pattern.cpp", "pattern.hpp",
    "revm.cpp", "revm.hpp", "enhancing.hpp",
}


def compiler_errors(text: str) -> List[Tuple[str, str]]:
    """Distinct (unit, message) pairs of javac / g++ diagnostics; else the first line."""
    import re

    found: List[Tuple[str, str]] = []
    lines = text.splitlines()
    for k, line in enumerate(lines):
        m = re.search(
            r"([A-Za-z_0-9]+\.(?:java|cpp|hpp|ts)):[0-9]+(?::[0-9]+)?: (?:fatal )?error: (.*)", line
        )
        if not m:
            continue
        unit, message = m.group(1), m.group(2)
        if unit not in SDK_UNITS:
            unit = "<model type>." + unit.rsplit(".", 1)[1]
        if message.startswith("cannot find symbol"):
            for follow in lines[k + 1 : k + 5]:
                sym = re.match(r"\s*symbol:\s+(.*)", follow)
                if sym:
                    message += " " + sym.group(1).strip()
                    break
        if re.match(r"package \S+ does not exist", message):
            unit = "*"  # the same import fails in every unit
        # identifiers of the model are not part of the mechanism
        message = re.sub(r"[\u2018'`][^\u2019'`]*[\u2019'`]", "Q", message)
        message = re.sub(r"\bvariable [A-Za-z_0-9]+", "variable V", message)
        pair = (unit, message[:90])
        if pair not in found:
            found.append(pair)
    if not found:
        found.append(("?", xsdk.message_class(first_error_line(text))))
    return found[:8]


def first_error_line(text: str) -> str:
    for line in text.splitlines():
        if "error" in line.lower() or "exception" in line.lower():
            return line.strip()
    return (text.strip().splitlines() or ["?"])[0]


def run_leg(
    tools: xsdk.Toolchains, leg: str, facts: xsdk.Facts, gen: xsdk.Generated,
    cases: List[Case], timeout: float,
) -> xsdk.LegResult:
    if leg == "typescript":
        payload = [{"i": c.idx, "cls": c.cls, "doc": c.text} for c in cases]
        return xsdk.run_typescript(tools, facts, gen, payload, timeout)
    if leg == "java":
        payload = [{"i": c.idx, "cls": c.cls, "doc": c.text} for c in cases]
        return xsdk.run_java(tools, facts, gen, payload, timeout)
    if leg == "cpp":
        payload = [
            {"i": c.idx, "cls": c.cls, "inst": c.inst} for c in cases if c.inst is not None
        ]
        return xsdk.run_cpp(tools, facts, gen, payload, timeout)
    raise AssertionError(leg)


# ------------------------------------------------------------------ driver

# Hand-written models for expression shapes that the generators of this harness do not
# emit: the grouping of the expression decides the verdict, so a transpiler that drops or
# misplaces parentheses shows as disagreeing verdicts between the SDKs.
TARGETED: List[Tuple[str, str]] = [
    (
        "targeted/comparison-of-comparison",
        '''\
from typing import List, Optional

from icontract import invariant, DBC


class Child(DBC):
    weight: int

    def __init__(self, weight: int) -> None:
        self.weight = weight


@invariant(
    lambda self: (len(self.items) > 0) == self.has_items,
    "The flag must reflect whether there are any items.",
)
@invariant(
    lambda self: (self.low <= self.high) == self.ordered,
    "The ordered flag must reflect the order of the bounds.",
)
@invariant(
    lambda self: self.ordered != (self.low > self.high),
    "Ordered is the opposite of reversed.",
)
@invariant(
    lambda self: (self.low > 0) == (self.high > 0),
    "Both bounds must have the same sign.",
)
@invariant(
    lambda self: (self.low == 1) != (self.high == 1),
    "Exactly one of the bounds must be one.",
)
@invariant(
    lambda self: not (self.low < 3) == self.has_items,
    "Negation binds weaker than the comparison.",
)
class Something(DBC):
    items: List["Child"]
    has_items: bool
    low: int
    high: int
    ordered: bool

    def __init__(
        self,
        items: List["Child"],
        has_items: bool,
        low: int,
        high: int,
        ordered: bool,
    ) -> None:
        self.items = items
        self.has_items = has_items
        self.low = low
        self.high = high
        self.ordered = ordered


__version__ = "dummy"
__xml_namespace__ = "https://dummy.com"
''',
    ),
    (
        "targeted/membership-in-lists",
        '''\
from enum import Enum
from typing import List, Optional

from icontract import invariant, DBC


class Priority(Enum):
    Low = "LOW"
    Normal = "NORMAL"
    High = "HIGH"


@invariant(
    lambda self: self.default_channel in self.channels,
    "Default channel must be one of the channels.",
)
@invariant(
    lambda self: not (self.fallback_channel is not None)
    or self.fallback_channel in self.channels,
    "Fallback channel must be one of the channels.",
)
@invariant(
    lambda self: not (self.muted_priority in self.priorities),
    "Muted priority must not be among the priorities.",
)
@invariant(
    lambda self: all(level in self.allowed_levels for level in self.levels),
    "All levels must be allowed.",
)
@invariant(
    lambda self: any(level in self.levels for level in self.allowed_levels)
    or len(self.allowed_levels) == 0,
    "Some allowed level must be used.",
)
class Subscription(DBC):
    default_channel: str
    channels: List[str]
    fallback_channel: Optional[str]
    muted_priority: Priority
    priorities: List[Priority]
    levels: List[int]
    allowed_levels: List[int]

    def __init__(
        self,
        default_channel: str,
        channels: List[str],
        muted_priority: Priority,
        priorities: List[Priority],
        levels: List[int],
        allowed_levels: List[int],
        fallback_channel: Optional[str] = None,
    ) -> None:
        self.default_channel = default_channel
        self.channels = channels
        self.muted_priority = muted_priority
        self.priorities = priorities
        self.levels = levels
        self.allowed_levels = allowed_levels
        self.fallback_channel = fallback_channel


__version__ = "dummy"
__xml_namespace__ = "https://dummy.com"
''',
    ),
    (
        "targeted/interpolated-strings-with-literal-brackets",
        '''\
from typing import List, Optional

from icontract import invariant, DBC

from aas_core_meta.marker import verification


@verification
def brackets_add_two(name: str) -> bool:
    """Check the length of the name in curly brackets."""
    return len(f"{{{name}}}") == len(name) + 2


@verification
def is_wrapped(text: str, name: str) -> bool:
    """Check that the text is the name in curly brackets."""
    return text == f"{{{name}}}"


@invariant(
    lambda self: self.shell_reference == f"${{{self.name}}}",
    "Shell reference must refer to the name.",
)
@invariant(
    lambda self: self.greeting != f"{{}}{self.name}-{self.name}",
    "Greeting must not be the doubled name.",
)
@invariant(
    lambda self: is_wrapped(self.wrapped, self.name),
    "Wrapped must be the name in curly brackets.",
)
@invariant(
    lambda self: len(f"${{{self.name}}}") == len(self.name) + 3,
    "Three characters around the name.",
)
@invariant(
    lambda self: brackets_add_two(self.name),
    "Two brackets around the name.",
)
@invariant(
    lambda self: self.quoted == f"it's '{self.name}' said \\"loud\\"",
    "Quoted must quote the name.",
)
class Something(DBC):
    name: str
    shell_reference: str
    greeting: str
    wrapped: str
    quoted: str

    def __init__(
        self, name: str, shell_reference: str, greeting: str, wrapped: str, quoted: str
    ) -> None:
        self.name = name
        self.shell_reference = shell_reference
        self.greeting = greeting
        self.wrapped = wrapped
        self.quoted = quoted


__version__ = "dummy"
__xml_namespace__ = "https://dummy.com"
''',
    ),
    (
        "targeted/grouping-of-boolean-and-arithmetic",
        '''\
from typing import List, Optional

from icontract import invariant, DBC


@invariant(
    lambda self: not (self.a and self.b) or self.c,
    "Implication with a conjunction as antecedent.",
)
@invariant(
    lambda self: (self.a or self.b) and self.c,
    "Disjunction grouped under a conjunction.",
)
@invariant(
    lambda self: self.a or (self.b and not (self.c or self.a)),
    "Nested negation of a disjunction.",
)
@invariant(
    lambda self: not (not self.a or not self.b) or (self.x - (self.y - self.z) > 0),
    "Subtraction is not associative.",
)
@invariant(
    lambda self: (self.x - self.y) - self.z <= 10,
    "Left-grouped subtraction.",
)
@invariant(
    lambda self: self.x - (self.y + self.z) >= -10,
    "Subtraction of a sum.",
)
@invariant(
    lambda self: 0 - (self.x - self.y) < 5,
    "Negated difference.",
)
@invariant(
    lambda self: (self.x + self.y) - (self.z - (self.x + 1)) != 6,
    "Difference of grouped terms.",
)
class Something(DBC):
    a: bool
    b: bool
    c: bool
    x: int
    y: int
    z: int

    def __init__(self, a: bool, b: bool, c: bool, x: int, y: int, z: int) -> None:
        self.a = a
        self.b = b
        self.c = c
        self.x = x
        self.y = y
        self.z = z


__version__ = "dummy"
__xml_namespace__ = "https://dummy.com"
''',
    ),
]

def _shared_targeted() -> List[Tuple[str, str]]:
    # models of C08 that exercise generator paths of every target (line breaking)
    from vf.checks import c08

    return [("targeted/very-long-names", c08.LONG_NAMES_MODEL)]


def worker(args) -> Dict[str, Any]:
    argv, spec, n_instances, n_mutants, timeouts = args
    chk = harness.Check("C09", "exploration", RULE, argv)
    tools = xsdk.Toolchains()
    try:
        if spec[0] in ("corpus", "targeted"):
            _, name, text = spec
            accepted = check_model(
                chk, tools, name, text, chk.rng("inst", name), n_instances, n_mutants, LEGS, timeouts
            )
            if spec[0] == "targeted":
                chk.count("targeted_models_accepted" if accepted else "targeted_models_refused")
        else:
            _, i = spec
            java_hostile = i % 2 == 1
            for attempt in range(4):
                # ~1 in 8 MMG models is refused by the front end; take the next sub-seed
                m = xsdk.generate_model(chk.rng("model", i, attempt), java_hostile)
                name = f"mmg/{chk.seed}/{i}.{attempt}{'/java-hostile' if java_hostile else ''}"
                if check_model(
                    chk, tools, name, m.text, chk.rng("inst", name), n_instances, n_mutants,
                    LEGS, timeouts,
                ):
                    for k, v in m.features.items():
                        chk.hist("mmg_features", k, v)
                    break
    except RecursionError:
        chk.count("models_abandoned_recursion")
    return chk.export()


def main(argv) -> int:
    chk = harness.Check("C09", "exploration", RULE, argv)
    tools = xsdk.Toolchains()
    for leg in LEGS:
        if not tools.available(leg):
            chk.unavailable_leg(f"{leg}: {tools.why(leg)}")
    n_models = chk.pick(6, 48)
    n_instances = chk.pick(40, 80)
    n_mutants = chk.pick(80, 200)
    budget = chk.wall_budget(120, 840)
    timeouts = {
        "typescript": chk.pick(120.0, 240.0),
        "java": chk.pick(240.0, 360.0),
        "cpp": chk.pick(480.0, 600.0),
    }
    n_workers = int(os.environ.get("VERIF_C09_WORKERS", "0")) or 6
    # generated and corpus models interleaved, so that a run cut short has seen both
    generated: List[Tuple] = [("mmg", i) for i in range(n_models)]
    fixtures: List[Tuple] = [("corpus", name, text) for name, text in corpus.small_common()]
    specs: List[Tuple] = [("targeted", name, text) for name, text in TARGETED + _shared_targeted()]
    while generated or fixtures:
        if generated:
            specs.append(generated.pop(0))
        if fixtures:
            specs.append(fixtures.pop(0))
    pool = concurrent.futures.ProcessPoolExecutor(max_workers=n_workers)
    try:
        jobs = [
            pool.submit(worker, (list(argv), spec, n_instances, n_mutants, timeouts))
            for spec in specs
        ]
        # A time-out is never a violation.  Models are collected as they finish; after
        # 3x the budget the rest is dropped, unless the deciding counter is still below
        # its minimum (a heavily loaded machine): then the wait goes on up to 10x.
        pending = set(jobs)
        while pending:
            done, pending = concurrent.futures.wait(
                pending, timeout=5.0, return_when=concurrent.futures.FIRST_COMPLETED
            )
            for job in done:
                try:
                    chk.merge(job.result())
                except Exception as err:
                    chk.harness_error(f"worker failed: {err!r}")
            enough = (
                max(chk.counters.get(f"{leg}_cases_compared", 0) for leg in LEGS) >= 100
                and len(chk.distinct) >= 2
            )
            if chk.elapsed() > budget * (3 if enough else 10):
                break
        if pending:
            chk.count("models_skipped_for_budget", len(pending))
            for job in pending:
                job.cancel()
    finally:
        # do not let dropped models keep the interpreter alive at exit
        leftover = list((getattr(pool, "_processes", None) or {}).values())
        pool.shutdown(wait=False, cancel_futures=True)
        for proc in leftover:
            try:
                proc.terminate()
            except Exception:
                pass
    best = max([chk.counters.get(f"{leg}_cases_compared", 0) for leg in LEGS] + [0])
    chk.counters["best_leg_cases_compared"] = best
    chk.require_min("best_leg_cases_compared", 100)
    chk.assume("integers within +-2^53 and finite floats only (JavaScript numbers, JSON)")
    chk.assume("JSON numbers compare after conversion to double; the sign of zero is not judged")
    chk.assume("messages of rejected documents are not compared, only accept/reject")
    chk.assume("TypeScript: JSON.parse cannot tell 1 from 1.0 and the emitted de-serialiser ignores unknown object members by documented design (NOTE in the generated code): its verdict on a mutated document is compared with the Python verdict on xsdk.javascript_view(document)")
    chk.assume("Java: the constant prefix 'Invariant violated:\\n' of every cause is stripped before causes are compared (design of the Java/C# SDKs)")
    chk.assume("C++: no JSON leg (nlohmann/json.hpp absent): instances are built through the generated constructors; verification, enumerations and constants are compared")
    chk.assume("models restricted to what all four generators accept (see xsdk.CommonGenerator); odd-numbered MMG models additionally use float properties, len(bytearray), integer sets and primitive constants, on which the Java leg is known to fail; models refused by one generator are skipped for that leg and counted")
    return chk.finish()
