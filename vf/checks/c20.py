"""C20 — generated source files are syntactically well-formed."""
import ast
import collections
import concurrent.futures
import gc
import hashlib
import os
import pathlib
import re
import shutil
import tempfile
import time
import traceback
from typing import Any, Dict, List, Optional, Sequence, Tuple

from vf import corpus, docinject as di, driver, env, harness, hooks, mmgen, syntaxcheck as sc

RULE = (
    "accepted meta-models (a kitchen-sink model with every kind of text-bearing entity, MMG "
    "models and the repository's small fixture models) whose descriptions (all docutils "
    "constructs the front end dispatches on), invariant messages, constant values, "
    "enumeration literal values, constraint identifiers and patterns carry one hostile "
    "payload (quote / comment / markup terminators, escapes, line terminators) in one "
    "category of places, x 8 targets; every file of every successful run is handed to an "
    "independent parser (CPython ast, javac parser, node 22 type transform + V8 module "
    "compile, g++ -fsyntax-only and g++ -E, json, expat, spec-derived C#/Go lexers, expat "
    "over C# documentation comments); distinct_nontrivial = distinct (base model, payload, "
    "category) variants that the front end accepted, at least one target generated and at "
    "least one generated file differed from the payload-free baseline"
)

CPP_UNITY_EXCLUDE = ("jsonization",)

# (seen hashes, baseline failure counters) of the kitchen-sink baseline, computed by the
# parent before it forks the workers (inherited copy-on-write).
_PARENT_STATE: Optional[Tuple[Dict, Dict]] = None


def sha(data: bytes) -> str:
    return hashlib.sha1(data).hexdigest()


def slug(text: str, limit: int = 60) -> str:
    return re.sub(r"[^a-zA-Z0-9.]+", "-", text).strip("-").lower()[:limit]


class timed:
    """Accumulate wall milliseconds of a phase in the counter ``time_ms/<name>``."""

    def __init__(self, chk: harness.Check, name: str) -> None:
        self.chk, self.name = chk, name

    def __enter__(self) -> None:
        self.t0 = time.time()

    def __exit__(self, *exc) -> None:
        self.chk.count(f"time_ms/{self.name}", int((time.time() - self.t0) * 1000))


class Tools:
    """External parsers of one worker (started lazily, closed at the end)."""

    def __init__(self, chk: harness.Check) -> None:
        self.chk = chk
        self.java = sc.JavaServer()
        self.ts = sc.TsServer()
        self.gxx = sc.gxx_available()
        if not self.java.available:
            chk.unavailable_leg("java: no javac/java on PATH; Java files were not parsed")
        if not self.ts.available:
            chk.unavailable_leg(f"typescript: {sc.NODE22} is missing; .ts files were not parsed")
        if not self.gxx:
            chk.unavailable_leg("cpp: no g++ on PATH; C++ files were not parsed")

    def close(self) -> None:
        self.java.close()
        self.ts.close()


class Generated:
    """Output of one variant for one target."""

    def __init__(self, target: str, root: pathlib.Path, namespace: str) -> None:
        self.target = target
        self.root = root
        self.namespace = namespace
        self.files: List[pathlib.Path] = sorted(p for p in root.rglob("*") if p.is_file())

    def rel(self, path) -> str:
        text = pathlib.Path(path).relative_to(self.root).as_posix()
        if self.namespace:
            text = text.replace(self.namespace, "NS").replace(self.namespace.upper(), "NS")
        return text

    def normalized(self, data: bytes) -> bytes:
        if not self.namespace:
            return data
        ns = self.namespace.encode()
        return data.replace(ns, b"NS").replace(ns.upper(), b"NS")


class Variant:
    def __init__(self, base: str, payload: str, category: str, text: str, is_clean: bool) -> None:
        self.base = base
        self.payload = payload
        self.category = category
        self.text = text
        self.is_clean = is_clean
        self.contexts: List[str] = []
        self.generated: Dict[str, Generated] = {}
        self.failures: Dict[str, List[Tuple[str, sc.Failure]]] = collections.defaultdict(list)
        self.changed_files = 0
        self.workdirs: List[pathlib.Path] = []
        self.rejected_text: Optional[str] = None

    def cleanup(self) -> None:
        for d in self.workdirs:
            shutil.rmtree(d, ignore_errors=True)
        self.workdirs = []


class Worker:
    def __init__(self, argv: Sequence[str], shard: int) -> None:
        self.chk = harness.Check("C20", "exploration", RULE, argv)
        self.shard = shard
        # a model cache of its own: workers wipe it between batches
        tmp = env.new_dir(f"tmp{shard}")
        tempfile.tempdir = str(tmp)
        os.environ["TMPDIR"] = str(tmp)
        self.tools = Tools(self.chk)
        self.seen: Dict[Tuple[str, str], bool] = {}  # (target, normalized hash) -> checked
        self.baseline: Dict[Tuple[str, str], collections.Counter] = {}
        if _PARENT_STATE is not None:
            self.seen = dict(_PARENT_STATE[0])
            self.baseline = dict(_PARENT_STATE[1])
        self.cpp_confirmed: Dict[str, int] = {}
        self.skip_cpp = False
        self.admitted: Dict[Tuple[str, str], bool] = {}
        self.probe_sites = di.Sites(di.PROBE)
        self.serial = 0

    # -- front-end admission -----------------------------------------------------
    def admits(self, payload_name: str, payload: str, context: str) -> bool:
        key = (payload_name, context)
        if key not in self.admitted:
            rng = self.chk.rng("probe", payload_name, context)
            if context in di.INNER_CONTEXTS:
                variant = di.description_variant(self.probe_sites, rng, payload, [context], None)
            else:
                variant = di.description_variant(self.probe_sites, rng, payload, [], context)
            with timed(self.chk, "probe"):
                loaded, _, _ = driver.load_inprocess(variant.text)
            self.admitted[key] = loaded is not None
            self.chk.count("context_probes")
            self.chk.hist(
                "context_admission", f"{context}:{'admitted' if loaded is not None else 'rejected'}"
            )
        return self.admitted[key]

    def contexts_for(self, payload_name: str, payload: str, table: Dict[str, Tuple[str, bool]]) -> List[str]:
        result = []
        for name, (_, escaped) in table.items():
            if escaped and di.rst_escape(payload) == payload:
                continue
            if self.admits(payload_name, payload, name):
                result.append(name)
        return result

    # -- variants ----------------------------------------------------------------
    def make_variants(self, base: str, sites: di.Sites, payload_name: str, category: str,
                      payload: str) -> List[Variant]:
        rng = self.chk.rng("variant", base, payload_name, category)
        made: List[di.Variant] = []
        if category == "description-inner":
            contexts = self.contexts_for(payload_name, payload, di.INNER_CONTEXTS)
            if contexts:
                made.append(di.description_variant(sites, rng, payload, contexts, None))
        elif category == "description-trailing":
            contexts = self.contexts_for(payload_name, payload, di.TRAILING_CONTEXTS)
            # one plain-text ending (the reST-escaped form keeps characters such as the
            # backslash in the rendered text) and one ending inside a literal
            preferred = ["trail-spaced-escaped", "trail-spaced", "trail-glued-escaped", "trail-glued"]
            chosen = [c for c in preferred if c in contexts][:1]
            if "trail-literal" in contexts:
                chosen.append("trail-literal")
            for context in chosen:
                made.append(di.description_variant(sites, rng, payload, [], context))
        elif category == "constraint-id":
            if not re.search(r"\s", payload):
                made.append(di.constraint_id_variant(sites, rng, payload))
        elif category == "pattern":
            made.append(di.pattern_variant(sites, rng, payload))
        else:
            made.append(di.value_variant(sites, rng, payload, category))
        result = []
        for v in made:
            if v.sites_changed == 0:
                self.chk.count("variants_without_site")
                continue
            variant = Variant(base, payload_name, category, v.text, False)
            variant.contexts = v.contexts
            result.append(variant)
        return result

    # -- generation ---------------------------------------------------------------
    def generate(self, variant: Variant) -> bool:
        """Run all targets; return False if the front end rejected the model."""
        chk = self.chk
        self.serial += 1
        any_ok = False
        for target in driver.TARGETS:
            extra = None
            namespace = ""
            if target == "cpp":
                namespace = f"vf{self.shard}x{self.serial}"
                extra = {"namespace.txt": namespace}
            with timed(chk, "generate"):
                run = driver.run_inprocess(variant.text, target, extra_snippets=extra)
            variant.workdirs.append(run.workdir)
            chk.count("target_runs")
            if run.exc is not None:
                chk.hist("generator_exceptions", f"{target}:{type(run.exc).__name__}")
                continue
            if run.rc != 0:
                head = run.stderr.lstrip()[:80]
                stage = "front-end" if head.startswith(
                    ("Failed to construct the symbol table", "Failed to translate the parsed")
                ) else "generator"
                chk.hist("runs_rejected", f"{target}:{stage}")
                if stage == "front-end":
                    variant.rejected_text = run.stderr[:600]
                    return False
                continue
            any_ok = True
            chk.count(f"target_runs_ok/{target}")
            variant.generated[target] = Generated(target, run.output_dir, namespace)
        return any_ok

    # -- oracles -------------------------------------------------------------------
    def fresh(self, gen: Generated, path: pathlib.Path) -> bool:
        """True if this (normalised) content has not been checked by this worker yet."""
        key = (gen.target, sha(gen.normalized(path.read_bytes())))
        if key in self.seen:
            return False
        self.seen[key] = True
        return True

    def check_batch(self, variants: List[Variant]) -> None:
        chk = self.chk
        java_paths: Dict[str, Tuple[Variant, Generated]] = {}
        ts_paths: Dict[str, Tuple[Variant, Generated]] = {}
        cpp_jobs: List[Tuple[Variant, Generated, List[pathlib.Path]]] = []
        for variant in variants:
            for target, gen in variant.generated.items():
                changed: List[pathlib.Path] = []
                for path in gen.files:
                    chk.count(f"files_generated/{target}")
                    if not self.fresh(gen, path):
                        continue
                    changed.append(path)
                variant.changed_files += len(changed)
                t_inproc = time.time()
                for path in changed:
                    suffix = path.suffix.lower()
                    failures: List[sc.Failure] = []
                    if suffix == ".py":
                        failures = sc.check_python(path)
                        chk.count("files_parsed/python")
                    elif suffix == ".json":
                        failures = sc.check_json(path)
                        chk.count("files_parsed/json")
                    elif suffix in (".xsd", ".xml"):
                        failures = sc.check_xml(path)
                        chk.count("files_parsed/xml")
                    elif suffix == ".cs":
                        failures, blocks = sc.check_csharp(path)
                        chk.count("files_parsed/csharp")
                        chk.count("csharp_doc_blocks_parsed", blocks)
                    elif suffix == ".go":
                        failures = sc.check_go(path)
                        chk.count("files_parsed/golang")
                    elif suffix == ".java":
                        java_paths[str(path)] = (variant, gen)
                    elif suffix == ".ts":
                        ts_paths[str(path)] = (variant, gen)
                    elif suffix in (".cpp", ".hpp", ".h"):
                        pass
                    else:
                        chk.hist("files_without_oracle", suffix or path.name)
                    for failure in failures:
                        variant.failures[target].append((gen.rel(path), failure))
                chk.count("time_ms/in-process-oracles", int((time.time() - t_inproc) * 1000))
                if target == "cpp":
                    cpp_changed = [p for p in changed if p.suffix.lower() in (".cpp", ".hpp", ".h")]
                    if cpp_changed:
                        cpp_jobs.append((variant, gen, cpp_changed))

        if java_paths and self.tools.java.available:
            with timed(chk, "javac"):
                failures = self.tools.java.run(sorted(java_paths))
            if failures is None:
                chk.mark_inconclusive(f"javac server failed: {self.tools.java.error}")
            else:
                chk.count("files_parsed/java", len(java_paths))
                for failure in failures:
                    owner = java_paths.get(failure.path)
                    if owner is None:
                        chk.harness_error(f"javac diagnostic for an unknown file: {failure}")
                        continue
                    variant, gen = owner
                    variant.failures["java"].append((gen.rel(failure.path), failure))
        if ts_paths and self.tools.ts.available:
            with timed(chk, "node"):
                failures = self.tools.ts.run(sorted(ts_paths))
            if failures is None:
                chk.mark_inconclusive(f"node server failed: {self.tools.ts.error}")
            else:
                chk.count("files_parsed/typescript", len(ts_paths))
                for failure in failures:
                    owner = ts_paths.get(failure.path)
                    if owner is None:
                        chk.harness_error(f"node diagnostic for an unknown file: {failure}")
                        continue
                    variant, gen = owner
                    variant.failures["typescript"].append((gen.rel(failure.path), failure))
        if cpp_jobs and self.tools.gxx and not self.skip_cpp:
            self.check_cpp(cpp_jobs)

    def check_cpp(self, jobs: List[Tuple[Variant, Generated, List[pathlib.Path]]]) -> None:
        chk = self.chk
        workdir = env.new_dir("gxx")
        try:
            # Leg 1: translation phases 1-4 over every changed file (incl. tests, jsonization).
            all_files = [str(p) for _, _, files in jobs for p in files]
            include_dirs = [str(gen.root / "include") for _, gen, _ in jobs]
            with timed(chk, "g++-E"):
                rc, diags, raw = sc.gxx_preprocess(all_files, include_dirs, workdir, timeout=600)
            if rc is None:
                chk.count("gxx_timeouts")
            else:
                chk.count("files_parsed/cpp-preprocessor", len(all_files))
                self.attribute_cpp(jobs, diags, "g++-preprocess", lexical_only=True)

            # Leg 2: the compiler proper over one unity translation unit.
            def compilable(job) -> List[str]:
                _, gen, files = job
                result = []
                for p in files:
                    rel = p.relative_to(gen.root).as_posix()
                    if rel.startswith("test/") or any(x in p.name for x in CPP_UNITY_EXCLUDE):
                        continue
                    result.append(str(p))
                # headers first so that a broken header is reported in the header
                return sorted(result, key=lambda s: (not s.endswith(".hpp"), s))

            sources = [s for job in jobs for s in compilable(job)]
            if not sources:
                return
            with timed(chk, "g++-unity"):
                rc, diags, raw = sc.gxx_unity(sources, include_dirs, workdir, timeout=900)
            if rc is None:
                chk.count("gxx_timeouts")
                return
            chk.count("gxx_unity_runs")
            chk.count("files_parsed/cpp-compiler", len(sources))
            suspicious = [d for d in diags if d[2] != "warning" and sc.classify_gxx(d[3])]
            if not suspicious:
                for d in diags:
                    if d[2] != "warning":
                        chk.hist("gxx_semantic_diagnostics_ignored", slug(re.sub(r"'[^']*'", "X", d[3])))
                return
            # A broken file can derail the parser for the files after it: confirm every
            # implicated variant in a translation unit of its own.
            implicated = []
            for job in jobs:
                _, gen, _ = job
                prefix = str(gen.root) + "/"
                if any(d[0].startswith(prefix) for d in suspicious):
                    implicated.append(job)
            if not implicated:
                implicated = list(jobs)
            for job in implicated:
                one = compilable(job)
                if not one:
                    continue
                confirm_key = f"{job[0].payload}@{job[0].category}"
                if self.cpp_confirmed.get(confirm_key, 0) >= 1 and not job[0].is_clean:
                    chk.count("gxx_confirmations_skipped_same_mechanism")
                    continue
                self.cpp_confirmed[confirm_key] = self.cpp_confirmed.get(confirm_key, 0) + 1
                rc, diags, raw = sc.gxx_unity(
                    one, [str(job[1].root / "include")], workdir, timeout=600, name="single"
                )
                chk.count("gxx_confirmation_runs")
                if rc is None:
                    chk.count("gxx_timeouts")
                    continue
                self.attribute_cpp([job], diags, "g++-syntax", lexical_only=False)
        finally:
            shutil.rmtree(workdir, ignore_errors=True)

    def attribute_cpp(self, jobs, diags, oracle: str, lexical_only: bool) -> None:
        for path, line, kind, message in diags:
            cls = sc.classify_gxx(message)
            if cls is None:
                if kind != "warning":
                    self.chk.hist("gxx_semantic_diagnostics_ignored",
                                  slug(re.sub(r"'[^']*'", "X", message)))
                continue
            level, code = cls
            if lexical_only and level != "lexical":
                continue
            if kind == "warning" and level != "lexical":
                continue
            for variant, gen, _ in jobs:
                if path.startswith(str(gen.root) + "/"):
                    variant.failures["cpp"].append(
                        (gen.rel(path), sc.Failure(oracle, code, path, line, message))
                    )
                    break

    # -- verdicts -------------------------------------------------------------------
    def judge(self, variant: Variant) -> None:
        chk = self.chk
        for target, failures in variant.failures.items():
            counted: Dict[Tuple[str, str, str], int] = collections.Counter()
            by_key: Dict[Tuple[str, str, str], Tuple[str, sc.Failure]] = {}
            for rel, failure in failures:
                k = (rel, failure.oracle, failure.code)
                counted[k] += 1
                by_key.setdefault(k, (rel, failure))
            if variant.is_clean:
                self.baseline[(variant.base, target)] = collections.Counter(counted)
                for (rel, oracle, code), _ in counted.items():
                    where = rel.rsplit("/", 2)[-2] if "/" in rel else ""
                    failure = by_key[(rel, oracle, code)][1]
                    if oracle == "g++-syntax" and code in ("expected-token", "misplaced-definition"):
                        # Without a payload there is no text that could have derailed the
                        # parser; g++'s "expected ..." then stems from a semantic problem
                        # (e.g. an undeclared template), which is not C20.
                        chk.count("cpp_baseline_parse_diagnostics_not_judged")
                        chk.hist("cpp_baseline_parse_diagnostics_not_judged", f"{rel}: {failure.message[:80]}")
                        continue
                    chk.violation(
                        f"{target}/{oracle}/no-payload/{slug(code)}@{slug(where) or 'root'}",
                        self.witness(variant, target, rel, failure),
                    )
                continue
            base = self.baseline.get((variant.base, target), collections.Counter())
            for k, n in counted.items():
                if n <= base.get(k, 0):
                    chk.count("failures_already_in_baseline")
                    continue
                rel, oracle, code = k
                failure = by_key[k][1]
                chk.violation(
                    f"{target}/{oracle}/{variant.payload}@{variant.category}",
                    self.witness(variant, target, rel, failure),
                )

    def witness(self, variant: Variant, target: str, rel: str, failure: sc.Failure) -> Dict[str, Any]:
        excerpt = ""
        try:
            lines = pathlib.Path(failure.path).read_text(encoding="utf-8", errors="replace").split("\n")
            lo = max(0, failure.line - 4)
            excerpt = "\n".join(lines[lo:failure.line + 2])[:1500]
        except OSError:
            pass
        return {
            "base_model": variant.base,
            "payload": variant.payload,
            "payload_text": di.PAYLOADS_CORE.get(variant.payload)
            or di.PAYLOADS_EXTRA.get(variant.payload) or di.PAYLOADS_PATTERN.get(variant.payload),
            "category": variant.category,
            "contexts": variant.contexts,
            "target": target,
            "file": rel,
            "oracle": failure.oracle,
            "diagnostic": failure.code,
            "line": failure.line,
            "message": failure.message[:600],
            "excerpt": excerpt,
            "meta_model": variant.text,
        }

    # -- main loop --------------------------------------------------------------------
    def process(self, variants: List[Variant]) -> None:
        chk = self.chk
        live: List[Variant] = []
        for variant in variants:
            try:
                ok = self.generate(variant)
            except Exception:
                chk.harness_error("generation crashed in the harness: " + traceback.format_exc()[-800:])
                ok = False
            if not ok:
                if variant.rejected_text is not None:
                    chk.count("variants_rejected_by_front_end")
                    chk.hist("rejected_variants", f"{variant.payload}@{variant.category}")
                else:
                    chk.count("variants_without_successful_target")
                variant.cleanup()
                continue
            chk.count("variants_generated")
            live.append(variant)
        try:
            self.check_batch(live)
            for variant in live:
                self.judge(variant)
                nontrivial = variant.changed_files > 0
                if not variant.is_clean:
                    chk.hist("variants_by_category", variant.category)
                    chk.hist("variants_by_payload", variant.payload)
                sample = None
                if not variant.is_clean and len(chk.samples) < 4 and variant.changed_files:
                    sample = {
                        "base_model": variant.base,
                        "payload": variant.payload,
                        "category": variant.category,
                        "contexts": variant.contexts,
                        "targets_generated": sorted(variant.generated),
                        "files_differing_from_baseline": variant.changed_files,
                        "failures": {t: len(f) for t, f in variant.failures.items()},
                    }
                chk.case(
                    distinct_key=(variant.base, variant.payload, variant.category)
                    if nontrivial and not variant.is_clean else None,
                    sample=sample,
                )
        finally:
            for variant in live:
                variant.cleanup()
            driver._wipe_cache()


def base_models(chk: harness.Check) -> List[Tuple[str, str]]:
    """(name, text) of the base models; the kitchen sink comes first."""
    bases = [("kitchen-sink", di.KITCHEN_SINK)]
    n_mmg = chk.pick(3, 24)
    for i in range(n_mmg):
        profile = mmgen.Profile(
            p_docstrings=1.0, n_enums=(1, 3), n_cprims=(1, 3), n_classes=(2, 5),
            n_pattern_fns=(1, 2), n_const_sets=(1, 2), n_const_prims=(1, 2),
            p_invariant=0.9, p_impl_method=0.3,
        )
        m = mmgen.generate(chk.rng("mmg", i), profile)
        bases.append((f"mmg/{chk.seed}/{i}", m.text))
    if chk.tier == "thorough":
        bases.extend(corpus.small_common())
    return bases


def plan(chk: harness.Check) -> List[Tuple[int, str, str]]:
    """(base index, payload name, category) tasks; the order is the priority."""
    payloads = dict(di.PAYLOADS_CORE)
    if chk.tier == "thorough":
        payloads.update(di.PAYLOADS_EXTRA)
    # Kitchen sink x every (payload, category): payload-major, so that every prefix of the
    # list (a run cut short by its wall budget) mixes all categories.
    ks: List[Tuple[int, str, str]] = []
    pattern_names = list(di.PAYLOADS_PATTERN)
    if chk.tier == "quick":
        pattern_names = pattern_names[:8]
    for k, name in enumerate(payloads):
        for category in di.CATEGORIES[:-1]:
            ks.append((0, name, category))
        if k < len(pattern_names):
            ks.append((0, pattern_names[k], "pattern"))
    for name in pattern_names[len(payloads):]:
        ks.append((0, name, "pattern"))
    # rotate by the seed so that different seeds start with different payloads
    if ks:
        shift = (chk.seed * 7 * len(di.CATEGORIES)) % len(ks)
        ks = ks[shift:] + ks[:shift]
    tasks = list(ks)
    n_bases = len(base_models(chk))
    rng = chk.rng("plan")
    per_base = chk.pick(10, 40)
    for b in range(1, n_bases):
        pool = [(name, category) for category in di.CATEGORIES[:-1] for name in payloads]
        for name, category in rng.sample(pool, min(per_base, len(pool))):
            tasks.append((b, name, category))
    return tasks


def payload_text(name: str, category: str) -> str:
    if category == "pattern":
        return di.PAYLOADS_PATTERN[name]
    return di.PAYLOADS_CORE.get(name) or di.PAYLOADS_EXTRA[name]


#: literal parts of interpolated patterns; what matters is how the two kinds of quotes are
#: spread over the parts (a generator that picks the quoting per part, or from one part
#: only, ends a literal early)
QUOTE_PARTS = ["", "x", '"', "'", "\"'", "''\"", "\"\"'", "'x'", '"x"', "\\\\.'", '\\\\."', "y{{2}}'"]


def interpolated_pattern_models(chk: harness.Check) -> List[Tuple[str, str]]:
    """Models whose pattern functions interpolate variables between quote-laden parts."""
    rng = chk.rng("interpolated-patterns")
    combos = [(a, b, c) for a in QUOTE_PARTS for b in QUOTE_PARTS for c in QUOTE_PARTS
              if any(("'" in p or '"' in p) for p in (a, b, c))]
    rng.shuffle(combos)
    # the mirror cases first: the majority of one part disagrees with the overall majority
    pinned = [("(\"", "\"|\"\"|'", "')"), ("('", "'|''|\"", "\")"), ("\"\"", "'", "x"), ("''", "\"", "x")]
    n_models, per_model = chk.pick((3, 10), (12, 24))
    models = []
    queue = pinned + combos
    for k in range(n_models):
        mine, queue = queue[:per_model], queue[per_model:]
        lines = [
            "from re import match",
            "from typing import List, Optional",
            "",
            "from icontract import invariant, DBC",
            "",
            "from aas_core_meta.marker import verification",
            "",
        ]
        names = []
        for j, (a, b, c) in enumerate(mine):
            name = f"matches_mix_{j}"
            names.append(name)
            body = a + "{word}" + b + "{other}" + c

            def esc(text: str) -> str:
                return text.replace('"', '\\"')

            lines += [
                "",
                "@verification",
                f"def {name}(text: str) -> bool:",
                f'    """Check that :paramref:`text` matches the mix {j}."""',
                '    word = "[a-z]+"',
                '    other = f"({word}|[0-9])"',
                f'    pattern = f"^{esc(body)}$"',
                "",
                "    return match(pattern, text) is not None",
                "",
            ]
        for j, name in enumerate(names[:6]):
            lines += [
                "",
                f'@invariant(lambda self: {name}(self), "Must match the mix {j}.")',
                f"class Mixed_text_{j}(str, DBC):",
                f'    """Represent a text of the mix {j}."""',
                "",
            ]
        lines += [
            "",
            f'@invariant(lambda self: {names[-1]}(self.text), "Text must match.")',
            "class Something(DBC):",
            '    """Represent something."""',
            "",
            "    text: str",
            '    """Text of something"""',
            "",
            '    brief_text: "Mixed_text_0"',
            '    """Brief text of something"""',
            "",
            '    def __init__(self, text: str, brief_text: "Mixed_text_0") -> None:',
            "        self.text = text",
            "        self.brief_text = brief_text",
            "",
            "",
            '__version__ = "dummy"',
            '__xml_namespace__ = "https://dummy.com"',
            "",
        ]
        models.append((f"interpolated-patterns/{chk.seed}/{k}", "\n".join(lines)))
    return models



def run_baseline(w: "Worker", base_name: str, sites: di.Sites, with_cpp: bool) -> None:
    clean = di.clean_variant(sites, w.chk.rng("clean", base_name))
    w.skip_cpp = not with_cpp
    try:
        w.process([Variant(base_name, "plain", "no-payload", clean.text, True)])
    finally:
        w.skip_cpp = False
    w.chk.count("baselines_checked")


def worker(args) -> Dict[str, Any]:
    argv, shard, n_shards = args
    w = Worker(argv, shard)
    chk = w.chk
    budget = chk.wall_budget(120, 600)
    try:
        bases = base_models(chk)
        tasks = plan(chk)
        only = os.environ.get("VF_C20_FILTER")
        if only:
            tasks = [t for t in tasks if re.search(only, f"{t[1]}@{t[2]}")]
        # kitchen-sink tasks round-robin; every other base model belongs to one worker
        mine = [
            t for i, t in enumerate(tasks)
            if (t[0] == 0 and i % n_shards == shard) or (t[0] != 0 and t[0] % n_shards == shard)
        ]
        sites_of: Dict[int, di.Sites] = {}
        batch: List[Variant] = []
        batch_size = chk.pick(8, 16)
        own_minimum = 5 if chk.budget is None else 0

        def flush() -> None:
            if batch:
                w.process(list(batch))
                batch.clear()

        # interpolated patterns with quotes spread over the literal parts (no baseline:
        # every parse failure of their output counts)
        if not only:
            for k, (model_name, model_text) in enumerate(interpolated_pattern_models(chk)):
                if k % n_shards != shard:
                    continue
                try:
                    ast.parse(model_text)
                except SyntaxError:
                    chk.harness_error(f"interpolated-pattern model {model_name} is not Python")
                    continue
                before = chk.counters.get("variants_generated", 0)
                w.process([Variant(model_name, "quote-mix", "pattern-interpolated", model_text, False)])
                if chk.counters.get("variants_generated", 0) > before:
                    chk.count("interpolated_pattern_models_generated")
        for index, (b, name, category) in enumerate(mine):
            # soft budget; on a crowded machine go on (up to three times the budget) until
            # this worker has contributed its share of the minimum observations
            done = chk.counters.get("variants_generated", 0) + len(batch)
            # ... and, when no budget was given explicitly, until most of its tasks are
            # done (up to five budgets): which payload meets which category must not
            # depend on how busy the machine is
            if chk.budget is None and index < 0.85 * len(mine) and chk.elapsed() < 5 * budget:
                pass
            elif chk.elapsed() > budget and (done >= own_minimum or chk.elapsed() > 3 * budget):
                chk.count("tasks_skipped_for_budget", len(mine) - index)
                break
            if b not in sites_of:
                base_name, base_text = bases[b]
                try:
                    sites_of[b] = di.Sites(base_text)
                except SyntaxError:
                    continue
                flush()
                # the kitchen sink's C++ baseline is compiled by worker 0 only
                run_baseline(w, base_name, sites_of[b], with_cpp=(b != 0 or shard == 0))
            variants = w.make_variants(bases[b][0], sites_of[b], name, category,
                                       payload_text(name, category))
            if not variants:
                chk.count("tasks_without_admitted_context")
                chk.hist("tasks_without_admitted_context", f"{name}@{category}")
            batch.extend(variants)
            if len(batch) >= batch_size:
                flush()
        flush()
    except Exception:
        chk.harness_error("worker crashed: " + traceback.format_exc()[-1500:])
    finally:
        w.tools.close()
    return chk.export()


def replay(argv, path: str) -> int:
    """Re-run the single meta-model of a replay file and say whether it still fails."""
    import json

    data = json.loads(pathlib.Path(path).read_text())
    witness = data["witness"]
    w = Worker([a for a in argv if not a.startswith("--replay") and a != path], 0)
    try:
        variant = Variant(
            witness.get("base_model", "replay"), witness.get("payload", "plain"),
            witness.get("category", "no-payload"), witness["meta_model"],
            witness.get("category") == "no-payload",
        )
        w.process([variant])
    finally:
        w.tools.close()
    reproduced = data["mechanism"] in w.chk.violations or data["mechanism"] in w.chk.known_hits
    print(f"REPLAY property=C20 mechanism={data['mechanism']} "
          f"{'reproduced' if reproduced else 'not reproduced'}; "
          f"observed={sorted(w.chk.violations) + sorted(w.chk.known_hits)}")
    return 1 if reproduced else 0


def main(argv) -> int:
    chk = harness.Check("C20", "exploration", RULE, argv)
    if chk.replay:
        return replay(list(argv), chk.replay)
    n_shards = int(os.environ.get("VF_C20_WORKERS", "8"))
    with concurrent.futures.ProcessPoolExecutor(max_workers=n_shards) as pool:
        jobs = [pool.submit(worker, (list(argv), s, n_shards)) for s in range(n_shards)]
        for job in jobs:
            try:
                chk.merge(job.result())
            except Exception as err:
                chk.harness_error(f"worker failed: {err!r}")
    chk.assume(
        "C# and Go sources are judged by lexers written from the language specifications "
        "(strings, verbatim/raw/interpolated strings, character and rune literals, escape "
        "sequences, comments, bracket balance), not by the compilers, which are absent: "
        "this is weaker than parsing"
    )
    chk.assume(
        "C++: only diagnostics of the lexer/preprocessor and 'expected ...' parse errors of g++ "
        "count; semantic diagnostics (unknown names, missing third-party headers) are ignored; "
        "jsonization.cpp and the tests are only preprocessed (nlohmann/json and catch2 are absent)"
    )
    chk.assume(
        "Java: the javac parser alone decides (JavacTask.parse); semantic errors are not C20"
    )
    chk.assume(
        "a failure that the payload-free baseline of the same base model shows as well is "
        "reported once under .../no-payload/... and not attributed to a payload"
    )
    chk.require_min("variants_generated", chk.pick(20, 200))
    if not os.environ.get("VF_C20_FILTER"):
        chk.require_min("interpolated_pattern_models_generated", 1)
    for name, quick, thorough in (
        ("files_parsed/python", 40, 400), ("files_parsed/java", 60, 400),
        ("files_parsed/typescript", 40, 400), ("files_parsed/csharp", 40, 400),
        ("files_parsed/golang", 40, 400), ("files_parsed/json", 8, 120),
        ("files_parsed/xml", 8, 120), ("files_parsed/cpp-compiler", 30, 300),
        ("files_parsed/cpp-preprocessor", 40, 400), ("csharp_doc_blocks_parsed", 500, 4000),
    ):
        leg = {"cpp-compiler": "cpp", "cpp-preprocessor": "cpp"}.get(
            name.split("/")[-1], name.split("/")[-1]
        )
        if any(u.startswith(leg) for u in chk.unavailable):
            continue
        chk.require_min(name, chk.pick(quick, thorough))
    return chk.finish()
