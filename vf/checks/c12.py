"""C12 — the generated JSON Schema enforces every inferred constraint."""
import concurrent.futures
import json
import os
import time
import traceback
from typing import Any, Dict

from vf import harness, instances, jschema
from vf.checks import c11

RULE = (
    "valid documents of C11 (SDK output of instances on which Python evaluates every "
    "invariant to True, and which validate) x single-violation twins: for every value "
    "under a recognised length / pattern / list-size constraint (own class, ancestor, "
    "constrained primitive as property or item type; expected set recomputed from the "
    "meta-model by an independent recogniser, each twin confirmed to break its invariant "
    "by Python itself) a document re-serialised by the SDK with length min-1 / max+1, a "
    "string outside one pattern, a list one too short / long; plus structural twins of the "
    "JSON value (required property removed, modelType removed / unknown / non-string / of "
    "another class at the root, value replaced by another JSON type); every twin must fail "
    "validation; excluded: byte-array twins whose base64 length stays inside "
    "[4*ceil(min/3), 4*ceil(max/3)], item-level tightenings by descendants (never "
    "recognised); distinct_nontrivial = distinct (model, class, property, twin kind)"
)


MINIMA = {
    "valid_documents": (80, 1000),
    "constraint_twins_judged": (150, 2500),
    "constraint_twins_pure": (100, 2000),
    "structural_twins_judged": (600, 10000),
}


def constraint_twins(chk: harness.Check, op: jschema.Opened, maker: jschema.TwinMaker,
                     name: str, inst, doc, definition: str, cap: int) -> None:
    pm, schema, rng = op.pm, op.schema, op.rng
    candidates = [v for v in jschema.visits(pm, inst) if v.kind != "object"]
    rng.shuffle(candidates)
    made = 0
    for v in candidates:
        if made >= cap:
            chk.count("constraint_twins_skipped_for_cap")
            break
        for twin in maker.for_visit(v):
            made += 1
            rec = twin.rec
            label = f"{twin.kind}/{twin.value_kind}/{twin.origin}/{rec.guard_form}" + ("/and-joined" if rec.conj else "")
            # -- the twin instance and Python's opinion about it
            try:
                twin_root = jschema.replace_at(inst, v.path, twin.new_value)
                memo: Dict[int, Any] = {}
                instances.to_shadow(pm, twin_root, memo)
                owner = jschema.get_at(twin_root, v.owner_path)
                verdict = jschema.violates_per_python(pm, rec, memo.get(id(owner)), twin.new_value)
            except Exception as err:
                chk.count("twins_not_buildable")
                continue
            if verdict is None:
                chk.count("twins_python_could_not_evaluate")
                continue
            if verdict is False:
                chk.harness_error(
                    f"recogniser says {rec!r} is broken by {twin.new_value!r} but Python evaluates "
                    f"the invariant {rec.inv.body_src!r} to True (model {name})"
                )
                continue
            chk.count("twins_confirmed_by_python")
            if twin.value_kind == "bytes":
                recs = op.rec.for_value(v.owner.cls, v.prop.name, v.prop.type, item=(v.kind == "item"))
                lo, hi, _ = jschema.effective(recs)
                if not maker.bytes_twin_expressible(twin, lo[0] if lo else None, hi[0] if hi else None):
                    chk.count("bytes_twins_excluded_by_statement")
                    continue
            try:
                twin_doc = jschema.serialise(op.sdk, twin_root)
            except Exception as err:
                chk.count("twins_sdk_could_not_serialise")
                continue
            if twin_doc == doc:
                chk.count("twins_identical_to_original_skipped")
                continue
            accepted = schema.is_valid(definition, twin_doc)
            chk.count("constraint_twins_judged")
            chk.count("constraint_twins_pure" if twin.pure else "constraint_twins_impure")
            chk.hist("constraint_twins", label + (":accepted" if accepted else ":rejected"))
            chk.case(distinct_key=(name, v.owner.cls, v.prop.name, twin.kind) if twin.pure else None)
            if accepted:
                if twin.value_kind == "bytes" and twin.kind == "len-min" and jschema.b64len(len(twin.new_value)) >= rec.value:
                    key = (f"constraint-not-enforced/len-min/bytes-base64-text-reaches-byte-bound/"
                           f"{twin.origin}/{rec.guard_form}")
                else:
                    key = f"constraint-not-enforced/{label}"
                chk.violation(
                    key,
                    {"model": name, "text": op.text, "class": inst.cls, "definition": definition,
                     "owner_class": v.owner.cls, "property": v.prop.name, "path": [str(s) for s in v.path],
                     "invariant": rec.inv.body_src, "declared_in": rec.declared_in,
                     "twin_kind": twin.kind, "twin_detail": twin.detail, "pure": twin.pure,
                     "original_value": v.value, "twin_value": twin.new_value,
                     "document_json": json.dumps(doc), "twin_document_json": json.dumps(twin_doc)},
                )


def structural_twins(chk: harness.Check, op: jschema.Opened, name: str, inst, doc,
                     definition: str, cap_per_object: int) -> None:
    pm, schema, rng = op.pm, op.schema, op.rng
    model_types = sorted(
        jschema.definition_name(c) for c in pm.order
        if pm.is_class(c) and not pm.classes[c].abstract and pm.with_model_type(c)
    )

    def judge(kind: str, twin_doc: Any, extra: Dict[str, Any], distinct: Any) -> None:
        accepted = schema.is_valid(definition, twin_doc)
        chk.count("structural_twins_judged")
        chk.hist("structural_twins", kind + (":accepted" if accepted else ":rejected"))
        chk.case(distinct_key=distinct)
        if accepted:
            chk.violation(
                f"structural-twin-accepted/{kind}",
                dict(extra, model=name, text=op.text, definition=definition, root_class=inst.cls,
                     document_json=json.dumps(doc), twin_document_json=json.dumps(twin_doc)),
            )

    objects = [v for v in jschema.visits(pm, inst) if v.kind == "object"]
    if len(objects) > 6:
        objects = [objects[0]] + rng.sample(objects[1:], 5)
    for v in objects:
        cls = v.owner.cls
        node = jschema.doc_get(doc, v.jpath)
        if not isinstance(node, dict):
            chk.count("sdk_document_object_expected_skipped")
            continue
        where = {"object_class": cls, "object_path": [str(s) for s in v.jpath]}
        # -- required properties
        for declared_in, prop in pm.all_props(cls):
            key = jschema.json_prop(prop.name)
            if prop.type.optional or key not in node:
                continue

            def drop(n, key=key):
                del n[key]
                return n

            home = "own" if declared_in == cls else "inherited"
            judge(f"required-property-missing/{home}-property",
                  jschema.doc_replace(doc, v.jpath, drop),
                  dict(where, property=prop.name), (name, cls, prop.name, "missing"))
        # -- modelType
        if pm.with_model_type(cls):
            if "modelType" not in node:
                chk.count("sdk_document_lacks_model_type_skipped")
            else:
                marker = "marker-on-own-class" if pm.classes[cls].own_with_model_type else "marker-inherited"
                shape = "has-concrete-descendants" if pm.concrete_descendants(cls) else "leaf"
                tag = f"{marker}/{shape}/" + ("root" if not v.jpath else "nested")

                def drop_mt(n):
                    del n["modelType"]
                    return n

                def set_mt(value):
                    def edit(n):
                        n["modelType"] = value
                        return n
                    return edit

                judge(f"modelType-missing/{tag}", jschema.doc_replace(doc, v.jpath, drop_mt), where, (name, cls, "modelType", "missing"))
                judge(f"modelType-wrong/unknown-name/{tag}", jschema.doc_replace(doc, v.jpath, set_mt(node["modelType"] + "X")), where, (name, cls, "modelType", "unknown"))
                judge(f"modelType-wrong/not-a-string/{tag}", jschema.doc_replace(doc, v.jpath, set_mt(7)), where, (name, cls, "modelType", "number"))
                others = [m for m in model_types if m != node["modelType"]]
                if not v.jpath and others:
                    judge(f"modelType-wrong/another-class/{tag}", jschema.doc_replace(doc, v.jpath, set_mt(rng.choice(others))), where, (name, cls, "modelType", "other"))
        # -- mistyped values
        props = [(d, p) for d, p in pm.all_props(cls) if jschema.json_prop(p.name) in node]
        rng.shuffle(props)
        for declared_in, prop in props[:cap_per_object]:
            key = jschema.json_prop(prop.name)
            kind = jschema.json_kind(pm, prop.type)
            options = jschema.MISTYPES.get(kind)
            if not options:
                continue
            for to_kind, replacement in rng.sample(options, 2):
                def swap(n, key=key, replacement=replacement):
                    n[key] = replacement
                    return n

                judge(f"mistyped/{kind}-as-{to_kind}", jschema.doc_replace(doc, v.jpath, swap),
                      dict(where, property=prop.name, replacement=replacement),
                      (name, cls, prop.name, f"as-{to_kind}"))


def check_model(chk: harness.Check, name: str, text: str, rng, n_instances: int, deadline: float) -> None:
    op = jschema.open_model(chk, name, text, rng)
    if op is None:
        return
    try:
        maker = jschema.TwinMaker(op.pm, op.rec, op.gen, rng)
        first = True
        for inst, doc, definition in jschema.documents(chk, op, n_instances, deadline):
            if definition not in op.schema.definitions or not op.schema.is_valid(definition, doc):
                chk.count("documents_not_valid_skipped_left_to_C11")
                continue
            chk.count("valid_documents")
            before = chk.evaluations
            constraint_twins(chk, op, maker, name, inst, doc, definition, cap=24)
            structural_twins(chk, op, name, inst, doc, definition, cap_per_object=3)
            if first and len(chk.samples) < chk.max_samples:
                first = False
                chk.sample({"model": name, "class": inst.cls, "document": json.dumps(doc)[:500],
                            "twins_judged": chk.evaluations - before})
    finally:
        op.close()


def worker(args) -> Dict[str, Any]:
    argv, shard, n_shards, n_mmg, n_instances = args
    chk = harness.Check("C12", "exploration", RULE, argv)
    budget = chk.wall_budget(150, 720)
    deadline = chk.t0 + budget
    models = [m for m in c11.model_list(chk, n_mmg) if m[2]]
    mine = [m for idx, m in enumerate(models) if idx % n_shards == shard]
    for idx, (name, text, _) in enumerate(mine):
        limit = chk.t0 + 0.8 * budget if text is None else deadline
        if time.time() > limit:
            if text is None and not c11.share_met(chk, MINIMA, tuple(MINIMA), n_shards) and time.time() < chk.t0 + chk.pick(2.0, 1.5) * budget:
                limit = chk.t0 + chk.pick(2.0, 1.5) * budget
                chk.count("models_run_past_the_budget_to_reach_minimum_counts")
            else:
                chk.count("models_skipped_for_budget")
                continue
        if text is None:
            index = int(name.rsplit("/", 1)[1])
            m = jschema.generate_model(chk.rng("model", index), index)
            text = m.text
            for k, v in m.features.items():
                chk.hist("mmg_features", k, v)
        try:
            check_model(chk, name, text, chk.rng("inst", name), n_instances, limit)
        except RecursionError:
            chk.count("models_recursion_skipped")
    return chk.export()


def main(argv) -> int:
    chk = harness.Check("C12", "exploration", RULE, argv)
    n_mmg = chk.pick(56, 900)
    n_instances = chk.pick(16, 60)
    n_shards = int(os.environ.get("VF_WORKERS", "8"))
    with concurrent.futures.ProcessPoolExecutor(max_workers=n_shards) as pool:
        jobs = [
            pool.submit(worker, (list(argv), s, n_shards, n_mmg, n_instances))
            for s in range(n_shards)
        ]
        for job in jobs:
            try:
                chk.merge(job.result())
            except Exception as err:
                chk.harness_error(f"worker failed: {err!r}\n{traceback.format_exc()[-1500:]}")
    for counter, (quick, thorough) in MINIMA.items():
        chk.require_min(counter, chk.pick(quick, thorough))
    chk.assume("the expected constraints are those in the documented forms: len(self.p) <op> k in both operand orders, pattern-function calls (single or and-joined), optionally guarded on the *same* property; a guard on another property makes the constraint conditional and is not expected to be enforced")
    chk.assume("a twin is judged only after Python itself evaluates the targeted invariant to not-True on it")
    chk.assume("documents the schema already rejects are C11's business and are skipped here")
    return chk.finish()
