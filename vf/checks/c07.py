"""C07 — type-checked invariants cannot fail at run time."""
import concurrent.futures
import re
from typing import Any, Dict, List, Tuple

from vf import corpus, driver, harness, instances, mmgen, pyexec

RULE = (
    "meta-models whose invariants have exactly one typing obligation flipped (optional "
    "used unguarded, wrong guard, wrong branch, narrowing leaking out of an `or`, optional "
    "member in a loop or behind a guarded parent, operands of the wrong kind), plus "
    "well-typed controls; a model counts as accepted when the front end loads it AND the "
    "Python generator (which runs the type inference on every invariant) exits 0; every "
    "invariant of an accepted model is evaluated by Python on type-conforming instances "
    "(None wherever Optional) and must yield a bool or raise IndexError only; "
    "distinct_nontrivial = distinct (mistyping kind, accepted?) pairs"
)


def classify(exc: BaseException) -> Tuple[str, str]:
    """Return (kind, position) of a failure: is None involved, and where."""
    import traceback

    text = f"{type(exc).__name__}: {exc}"
    frames = traceback.extract_tb(exc.__traceback__)
    inner = frames[-1].name if frames else "?"
    in_called_function = inner not in ("<lambda>", "<genexpr>", "check_model")
    if "NoneType" in text:
        if in_called_function:
            return "none-dereference", "optional-passed-to-function"
        if "has no len()" in text:
            return "none-dereference", "len-of-optional"
        message = re.sub(r"'[A-Za-z_0-9]+' object", "object", str(exc))
        message = re.sub(r"attribute '[^']*'", "attribute", message)
        return "none-dereference", f"{type(exc).__name__}:{message[:60]}"
    return "kind-mismatch", type(exc).__name__


def check_model(chk: harness.Check, name: str, text: str, tags: List[str], rng, n_instances: int) -> None:
    tag = tags[0] if tags else "well-typed"
    loaded, error, exc = driver.load_inprocess(text)
    if exc is not None:
        chk.count("front_end_crashed")
        return
    if error is not None:
        chk.count("rejected_by_front_end")
        chk.hist("verdict_by_mistyping", f"{tag}:rejected-front-end")
        chk.case(distinct_key=(tag, "rejected"))
        return
    result = driver.run_inprocess(text, "python")
    result.cleanup()
    if result.exc is not None:
        chk.count("python_generator_crashed")
        chk.hist("verdict_by_mistyping", f"{tag}:generator-crashed")
        return
    if result.rc != 0:
        chk.count("rejected_by_type_inference")
        chk.hist("verdict_by_mistyping", f"{tag}:rejected-type-inference")
        chk.case(distinct_key=(tag, "rejected"))
        return
    chk.count("models_accepted")
    if tags:
        chk.count("mistyped_models_accepted")
    chk.hist("verdict_by_mistyping", f"{tag}:accepted")
    try:
        pm = pyexec.PyModel(text)
    except Exception as err:
        chk.count("reference_executor_failed")
        return
    gen = instances.InstanceGenerator(pm, rng)
    classes = gen.instantiable()
    if not classes:
        chk.count("accepted_models_without_instantiable_class")
        return
    chk.case(
        distinct_key=(tag, "accepted"),
        sample={"model": name, "mistyping": tag,
                "invariant": [i.body_src for c in pm.classes.values() for i in c.own_invariants if i.description and "(mistyped)" in i.description][:1]}
        if tags and len(chk.samples) < 6 else None,
    )
    for i in range(n_instances):
        cls = classes[i % len(classes)]
        inst = gen.gen_instance(cls)
        memo: Dict[int, Any] = {}
        instances.to_shadow(pm, inst, memo)
        for path, value, t in instances.walk(pm, inst):
            if isinstance(value, instances.Inst):
                arg, invs = memo[id(value)], pm.all_invariants(value.cls)
            elif t.kind == "atomic" and pm.is_constrained_primitive(t.name):
                arg, invs = value, pm.all_invariants(t.name)
            else:
                continue
            for owner, inv in invs:
                if inv.func is None:
                    continue
                chk.count("invariant_evaluations")
                mistyped_inv = bool(inv.description and "(mistyped)" in inv.description)
                if mistyped_inv:
                    chk.count("evaluations_of_mistyped_invariants")
                witness = {"model": name, "text": text, "class": owner, "invariant": inv.body_src,
                           "mistyping": tag if mistyped_inv else "none",
                           "instance": instances.to_jsonable_sample(value)}
                try:
                    result_value = inv.func(arg)
                except IndexError:
                    chk.count("index_errors_tolerated")
                    continue
                except NotImplementedError:
                    # an implementation-specific function without a reference body
                    chk.count("skipped_implementation_specific_without_body")
                    continue
                except RecursionError:
                    raise
                except Exception as err:
                    kind, position = classify(err)
                    if kind == "kind-mismatch":
                        sub = tag.split("/", 1)[1] if (mistyped_inv and tag.startswith("kind-mismatch/")) else position
                    else:
                        sub = position
                    chk.violation(f"invariant-raises/{kind}/{sub}",
                                  dict(witness, exception=f"{type(err).__name__}: {err}"))
                    continue
                if not isinstance(result_value, bool):
                    sub = tag.split("/", 1)[1] if (mistyped_inv and tag.startswith("kind-mismatch/")) else type(result_value).__name__
                    chk.violation(f"invariant-not-boolean/{sub}", dict(witness, result=repr(result_value)[:200]))


FOOTER = '\n\n__version__ = "dummy"\n__xml_namespace__ = "https://dummy.com"\n'

# Hand-written shapes the generator does not produce; each must either be rejected or
# evaluate cleanly.
TARGETED = {
    "constrained-primitive-with-parents-of-different-primitives": '''
@invariant(lambda self: self >= 0, "Count must be non-negative.")
class Count(int, DBC):
    pass


@invariant(lambda self: len(self) > 0, "Name must not be empty.")
class Name(str, DBC):
    pass


class Named_count(Count, Name, DBC):
    pass


class Holder(DBC):
    value: Named_count

    def __init__(self, value: Named_count) -> None:
        self.value = value
''',
    "constrained-primitive-with-parents-of-different-primitives-reversed": '''
@invariant(lambda self: len(self) > 0, "Name must not be empty.")
class Name(str, DBC):
    pass


@invariant(lambda self: self >= 0, "Count must be non-negative.")
class Count(int, DBC):
    pass


class Named_count(Name, Count, DBC):
    pass


class Holder(DBC):
    value: Named_count
    other: Optional[Named_count]

    def __init__(self, value: Named_count, other: Optional[Named_count] = None) -> None:
        self.value = value
        self.other = other
''',
    "optional-on-the-right-of-a-comparison": '''
@invariant(lambda self: self.low <= self.high, "Low must not exceed high.")
class Interval(DBC):
    low: int
    high: Optional[int]

    def __init__(self, low: int, high: Optional[int] = None) -> None:
        self.low = low
        self.high = high
''',
    "optional-on-the-left-of-a-comparison": '''
@invariant(lambda self: self.low <= self.high, "Low must not exceed high.")
class Interval(DBC):
    high: int
    low: Optional[int]

    def __init__(self, high: int, low: Optional[int] = None) -> None:
        self.high = high
        self.low = low
''',
    "loop-variable-shadows-a-narrowed-argument": '''
class Detail(DBC):
    value: int

    def __init__(self, value: int) -> None:
        self.value = value


class Item(DBC):
    detail: Optional[Detail]

    def __init__(self, detail: Optional[Detail] = None) -> None:
        self.detail = detail


@verification
def details_positive(item: Item, items: List[Item]) -> bool:
    """Check the details of the items if the detail of the item is set."""
    return (
        item.detail is None
        or all(item.detail.value > 0 for item in items)
    )


@invariant(lambda self: details_positive(self.primary, self.remaining), "Details must be positive.")
class Holder(DBC):
    primary: Item
    remaining: List[Item]

    def __init__(self, primary: Item, remaining: List[Item]) -> None:
        self.primary = primary
        self.remaining = remaining
''',
    "loop-variable-with-a-fresh-name-and-narrowed-argument": '''
class Detail(DBC):
    value: int

    def __init__(self, value: int) -> None:
        self.value = value


class Item(DBC):
    detail: Optional[Detail]

    def __init__(self, detail: Optional[Detail] = None) -> None:
        self.detail = detail


@verification
def details_positive(item: Item, items: List[Item]) -> bool:
    """Check the details of the items if the detail of the item is set."""
    return (
        item.detail is None
        or all(item.detail.value > 0 and other.detail is None for other in items)
    )


@invariant(lambda self: details_positive(self.primary, self.remaining), "Details must be positive.")
class Holder(DBC):
    primary: Item
    remaining: List[Item]

    def __init__(self, primary: Item, remaining: List[Item]) -> None:
        self.primary = primary
        self.remaining = remaining
''',
    "local-variable-re-assigned-with-an-ancestor-value": '''
@serialization(with_model_type=True)
class Shape(DBC):
    name: str

    def __init__(self, name: str) -> None:
        self.name = name


class Circle(Shape):
    radius: int

    def __init__(self, name: str, radius: int) -> None:
        Shape.__init__(self, name=name)
        self.radius = radius


@verification
def radius_positive(first: Circle, second: Shape) -> bool:
    """Check the radius."""
    current = first
    current = second
    return current.radius > 0


@invariant(lambda self: radius_positive(self.circle, self.shape), "Radius must be positive.")
class Holder(DBC):
    circle: Circle
    shape: Shape

    def __init__(self, circle: Circle, shape: Shape) -> None:
        self.circle = circle
        self.shape = shape
''',
    "local-variable-re-assigned-with-a-descendant-value": '''
@serialization(with_model_type=True)
class Shape(DBC):
    name: str

    def __init__(self, name: str) -> None:
        self.name = name


class Circle(Shape):
    radius: int

    def __init__(self, name: str, radius: int) -> None:
        Shape.__init__(self, name=name)
        self.radius = radius


@verification
def name_not_empty(first: Circle, second: Shape) -> bool:
    """Check the name."""
    current = second
    current = first
    return len(current.name) > 0


@invariant(lambda self: name_not_empty(self.circle, self.shape), "Name must not be empty.")
class Holder(DBC):
    circle: Circle
    shape: Shape

    def __init__(self, circle: Circle, shape: Shape) -> None:
        self.circle = circle
        self.shape = shape
''',
    "optional-list-in-quantifier": '''
@invariant(lambda self: all(len(x) > 0 for x in self.names), "Names must not be empty.")
class Something(DBC):
    names: Optional[List[str]]

    def __init__(self, names: Optional[List[str]] = None) -> None:
        self.names = names
''',
    "optional-in-range-bound": '''
@invariant(lambda self: all(self.items[i] > 0 for i in range(0, self.size)), "Items must be positive.")
class Something(DBC):
    items: List[int]
    size: Optional[int]

    def __init__(self, items: List[int], size: Optional[int] = None) -> None:
        self.items = items
        self.size = size
''',
    "optional-member-of-member": '''
class Inner(DBC):
    name: Optional[str]

    def __init__(self, name: Optional[str] = None) -> None:
        self.name = name


@invariant(lambda self: self.inner.name == "x" or len(self.inner.name) > 1, "Inner name.")
class Outer(DBC):
    inner: Inner

    def __init__(self, inner: Inner) -> None:
        self.inner = inner
''',
    "optional-index": '''
@invariant(lambda self: self.items[0] > 0, "First positive.")
class Something(DBC):
    items: Optional[List[int]]

    def __init__(self, items: Optional[List[int]] = None) -> None:
        self.items = items
''',
    "optional-arithmetic": '''
@invariant(lambda self: self.size + 1 > 0, "Size.")
class Something(DBC):
    size: Optional[int]

    def __init__(self, size: Optional[int] = None) -> None:
        self.size = size
''',
}


def worker(args) -> Dict[str, Any]:
    argv, shard, n_shards, n_models, n_instances = args[:-1]
    mins = args[-1]
    chk = harness.Check("C07", "exploration", RULE, argv)
    chk.set_worker_minimums(mins, n_shards)
    budget = chk.wall_budget(150, 900)
    jobs: List[Tuple[str, str, List[str]]] = []
    if shard == 0:
        for name, text in corpus.small_common():
            jobs.append((name, text, []))
    for k, (name, body) in enumerate(sorted(TARGETED.items())):
        if k % n_shards == shard:
            jobs.append((f"targeted/{name}", body + FOOTER, []))
    for i in range(shard, n_models, n_shards):
        mistype = i % 8 != 0  # 1 in 8 is a well-typed control
        m = mmgen.generate(chk.rng("model", i), mmgen.Profile(sdk_safe=True, mistype=mistype, p_optional=0.5))
        jobs.append((f"mmg/{chk.seed}/{i}", m.text, [t for _, _, t in m.mistyped]))
    for idx, (name, text, tags) in enumerate(jobs):
        if chk.should_stop(budget):
            chk.count("models_skipped_for_budget", len(jobs) - idx)
            break
        check_model(chk, name, text, tags, chk.rng("inst", name), n_instances)
    return chk.export()


def main(argv) -> int:
    chk = harness.Check("C07", "exploration", RULE, argv)
    n_models = chk.pick(400, 8000)
    n_instances = chk.pick(30, 60)
    n_shards = 12
    mins = {
        "models_accepted": chk.pick(60, 250),
        "mistyped_models_accepted": chk.pick(15, 100),
        "rejected_by_type_inference": chk.pick(50, 250),
        "invariant_evaluations": chk.pick(5000, 50000),
    }
    with concurrent.futures.ProcessPoolExecutor(max_workers=n_shards) as pool:
        jobs = [pool.submit(worker, (list(argv), s, n_shards, n_models, n_instances, mins)) for s in range(n_shards)]
        for job in jobs:
            try:
                chk.merge(job.result())
            except Exception as err:
                chk.harness_error(f"worker failed: {err!r}")
    if chk.tier == "thorough":
        # the real-world model: 109 invariants on generated instances
        check_model(chk, "corpus/v3", corpus.v3(), [], chk.rng("v3"), 300)
    chk.assume("'accepts' = run.load_model succeeds and the Python generator, which calls type_inference.infer_for_invariant on every invariant, exits 0")
    for counter_name, minimum in mins.items():
        chk.require_min(counter_name, minimum)
    return chk.finish()
