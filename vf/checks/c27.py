"""C27 — message wrapping keeps text and layout rules."""
import io
import random
from typing import Any, List, Optional

from vf import corpus, driver, harness, hooks

ARTICLES = ("a", "an", "the")

RULE = (
    "texts over a word alphabet (articles, long words, runs of articles, double spaces, "
    "empty) x widths 1..120 given to the real common.wrap_text_into_lines through a "
    "post-condition monitor, plus every invariant description wrapped while the "
    "generators run on corpus models; a case is non-trivial when it produced >= 2 "
    "segments; distinct = distinct (text, width)"
)


def oracle(text: str, width: int, segments: List[str]) -> Optional[str]:
    """Return the name of the broken clause, or None."""
    if not isinstance(segments, list) or not all(isinstance(s, str) for s in segments):
        return "result-not-list-of-str"
    if "".join(segments) != text:
        return "text-not-preserved"
    for seg in segments:
        if len(seg) > width:
            unit = seg[:-1] if seg.endswith(" ") else seg
            parts = unit.split(" ")
            single = len(parts) == 1 or (
                # an article glued to the following part (possibly the empty part
                # between two consecutive blanks)
                len(parts) == 2 and parts[0] in ARTICLES
            )
            if not single:
                return "overlong-segment-with-several-words"
    # article rule, judged on boundaries between non-empty text on both sides
    pos = 0
    for i, seg in enumerate(segments[:-1]):
        pos += len(seg)
        before, after = text[:pos], text[pos:]
        if not before or not after:
            continue
        if not before.endswith(" "):
            continue
        last_part = before[:-1].split(" ")[-1]
        next_part = after.split(" ")[0]
        if last_part in ARTICLES and next_part != "" and next_part not in ARTICLES:
            return "article-ends-segment"
    return None


WORDS = [
    "a", "an", "the", "a", "the", "value", "must", "not", "be", "empty", "x", "of",
    "Constraint", "AASd-130:", "idShort", "shall", "supercalifragilisticexpialidocious",
    "0123456789012345678901234567890123456789012345678901234567890123456789", "",
    "The", "A", "an,", "the.", "'a'", "theatre", "ana", "ünïcödé", "\t", "a b",
    "values:", "[a-z]+", "{}", '"quoted"',
]


def gen_text(rng: random.Random) -> str:
    mode = rng.random()
    n = rng.choice([0, 1, 2, 3, 5, 8, 13, 21, 40])
    if mode < 0.15:
        pool = ["a", "an", "the"]
    elif mode < 0.3:
        pool = ["a", "an", "the", "w", "word"]
    else:
        pool = WORDS
    parts = [rng.choice(pool) for _ in range(n)]
    if rng.random() < 0.2:
        # words with exact lengths around common widths
        k = rng.randrange(0, len(parts) + 1)
        parts.insert(k, "w" * rng.choice([1, 9, 10, 11, 59, 60, 61]))
    return " ".join(parts)


def main(argv) -> int:
    chk = harness.Check("C27", "exploration", RULE, argv)
    from aas_core_codegen import common

    state = {"in_generation": False}

    def observer(args, kwargs, result, err) -> None:
        text = args[0] if args else kwargs.get("text")
        width = kwargs.get("line_width", args[1] if len(args) > 1 else 60)
        origin = "generation" if state["in_generation"] else "fuzz"
        chk.count(f"monitor_evaluations_{origin}")
        if err is not None:
            chk.violation(
                f"raised/{type(err).__name__}",
                {"text": text, "width": width, "exception": repr(err)},
            )
            return
        broken = oracle(text, width, result)
        key = (text, width) if len(result) >= 2 else None
        chk.case(
            distinct_key=key,
            sample={"text": text, "width": width, "segments": result}
            if key is not None and (chk.evaluations % 997 == 0 or origin == "generation")
            else None,
        )
        chk.hist("segments", min(len(result), 10))
        if broken is not None:
            chk.violation(
                f"{broken}", {"text": text, "width": width, "segments": result}
            )

    hooks.import_all_repo_modules()
    monitor = hooks.Monitor("aas_core_codegen.common", "wrap_text_into_lines", observer)
    chk.extra["references_rebound"] = monitor.rebound

    # fixed regression inputs (article boundaries)
    fixed = [
        ("the value", 4), ("word the value", 9), ("a an the", 2), ("a an the word", 5),
        ("", 10), ("single", 3), ("x " * 40 + "the end", 60), ("aa the b", 6),
        ("the " + "w" * 70 + " tail", 60), ("w" * 60 + " the x", 60),
    ]
    def call(*args: Any) -> None:
        # the monitor has recorded a raised exception as a violation: go on
        try:
            common.wrap_text_into_lines(*args)
        except Exception:  # noqa
            chk.count("calls_that_raised")

    for text, width in fixed:
        call(text, width)

    n = chk.pick(20000, 600000)
    budget = chk.wall_budget(40, 420)
    rng = chk.rng("fuzz")
    for i in range(n):
        if i % 2000 == 0 and chk.elapsed() > budget:
            break
        text = gen_text(rng)
        width = rng.choice([1, 2, 3, 4, 5, 8, 10, 20, 40, 59, 60, 61, 80, 120, rng.randint(1, 120)])
        if rng.random() < 0.3:
            call(text)
        else:
            call(text, width)

    # real descriptions while generators run
    state["in_generation"] = True
    models = corpus.small_common() + [
        m for m in corpus.models() if "with_invariants" in m[0] or "invariant" in m[0]
    ]
    if chk.tier == "thorough":
        models.append(("v3", corpus.v3()))
    for name, text in models:
        for target in ("python", "typescript") if chk.tier == "quick" else (
            "python", "typescript", "java", "csharp", "golang", "cpp"
        ):
            res = driver.run_inprocess(text, target)
            res.cleanup()
    state["in_generation"] = False
    monitor.uninstall()

    chk.require_min("monitor_evaluations_fuzz", 1000)
    chk.require_min("monitor_evaluations_generation", 5)
    chk.assume(
        "an over-long segment may be one word with one article glued in front "
        "(the article rule makes that unit indivisible)"
    )
    return chk.finish()
