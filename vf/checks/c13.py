"""C13 — the generated XSD is a valid schema and never rejects valid data."""
import concurrent.futures
import os
import traceback
import xml.etree.ElementTree as ET
from typing import Any, Dict, List, Optional, Tuple

from vf import corpus, driver, env, harness, instances, mmgen, pyexec, pysdk, xschema
from vf import regexgen as rg

RULE = (
    "accepted meta-models (MMG sdk-safe profile restricted to schema-relevant invariants: "
    "length / pattern / list-size on own, inherited and constrained-primitive-typed "
    "properties, lists, polymorphic properties, diamonds and chains; corpus fixtures; a few "
    "hand-written models) run through the real xsd target; (a) schema.xsd must build in "
    "xmlschema.XMLSchema (XSD 1.0) and XMLSchema11 and its xs:pattern escapes must belong to "
    "the XSD regex grammar; (b) every document the generated Python SDK writes for an "
    "instance on which Python evaluates all invariants to True (strings: XML 1.0 characters, "
    "no line breaks when the model has patterns) must validate in both; (c) one-pattern "
    "models: every sampled string that Python re accepts must be accepted by the emitted "
    "xs:pattern in both validators; distinct_nontrivial = distinct models with >= 1 "
    "constrained value inside a validated document + distinct pattern skeletons with >= 1 "
    "member string validated"
)

WORKERS = int(os.environ.get("VF_WORKERS", "12"))

# --------------------------------------------------------------------------- models
CROSS_GUARD_MODEL = mmgen.IMPORTS + '''
@invariant(
    lambda self: not (self.some_flag is not None) or len(self.some_text) <= 3,
    "If the flag is given, the text must be short.",
)
class Something(DBC):
    some_text: str

    some_flag: Optional[str]

    def __init__(self, some_text: str, some_flag: Optional[str] = None) -> None:
        self.some_text = some_text
        self.some_flag = some_flag


__version__ = "V0.1"
__xml_namespace__ = "https://dummy.com/gen"
'''

CROSS_GUARD_PATTERN_MODEL = mmgen.IMPORTS + '''
@verification
def matches_digits(text: str) -> bool:
    """Check the text."""
    pattern = f"^[0-9]+$"
    return match(pattern, text) is not None


@invariant(
    lambda self: self.some_flag is None or matches_digits(self.some_text),
    "If the flag is given, the text must be digits.",
)
class Something(DBC):
    some_text: str

    some_flag: Optional[str]

    def __init__(self, some_text: str, some_flag: Optional[str] = None) -> None:
        self.some_text = some_text
        self.some_flag = some_flag


__version__ = "V0.1"
__xml_namespace__ = "https://dummy.com/gen"
'''

TWO_PATTERNS_MODEL = mmgen.IMPORTS + '''
@verification
def matches_word(text: str) -> bool:
    """Check the text."""
    pattern = f"^[a-z]+[0-9]*$"
    return match(pattern, text) is not None


@verification
def matches_short(text: str) -> bool:
    """Check the text."""
    pattern = f"^.{{1,4}}$"
    return match(pattern, text) is not None


@invariant(lambda self: matches_word(self), "Must be a word.")
class Word(str, DBC):
    pass


@invariant(lambda self: matches_short(self.some_word), "Must be short.")
@invariant(lambda self: len(self.some_words) >= 1, "At least one word.")
class Something(DBC):
    some_word: Word

    some_words: List[Word]

    def __init__(self, some_word: Word, some_words: List[Word]) -> None:
        self.some_word = some_word
        self.some_words = some_words


__version__ = "V0.1"
__xml_namespace__ = "https://dummy.com/gen"
'''


MULTI_PARENT_CPRIM_MODEL = mmgen.IMPORTS + '''
@verification
def matches_lower(text: str) -> bool:
    """Check the text."""
    pattern = f"^[a-z]*$"
    return match(pattern, text) is not None


@verification
def matches_no_x(text: str) -> bool:
    """Check the text."""
    pattern = f"^[^x]*$"
    return match(pattern, text) is not None


@invariant(lambda self: len(self) <= 6, "At most six characters.")
class Short_text(str, DBC):
    pass


@invariant(lambda self: matches_lower(self), "Must be lower-case.")
class Lower_text(str, DBC):
    pass


@invariant(lambda self: len(self) >= 2, "At least two characters.")
class Longish_text(str, DBC):
    pass


class Short_lower_text(Short_text, Lower_text, DBC):
    pass


@invariant(lambda self: matches_no_x(self), "Must not have an x.")
class Picky_text(Short_text, Lower_text, Longish_text, DBC):
    pass


class Lower_short_text(Lower_text, Short_text, DBC):
    pass


@invariant(lambda self: len(self.some_texts) >= 1, "At least one text.")
class Something(DBC):
    some_text: Short_lower_text

    other_text: Lower_short_text

    picky_text: Picky_text

    some_texts: List[Picky_text]

    optional_text: Optional[Short_lower_text]

    def __init__(
        self,
        some_text: Short_lower_text,
        other_text: Lower_short_text,
        picky_text: Picky_text,
        some_texts: List[Picky_text],
        optional_text: Optional[Short_lower_text] = None,
    ) -> None:
        self.some_text = some_text
        self.other_text = other_text
        self.picky_text = picky_text
        self.some_texts = some_texts
        self.optional_text = optional_text


__version__ = "V0.1"
__xml_namespace__ = "https://dummy.com/gen"
'''


DIAMOND_MODEL = mmgen.IMPORTS + '''
@abstract
class Top(DBC):
    top_text: str

    def __init__(self, top_text: str) -> None:
        self.top_text = top_text


@abstract
class Left(Top):
    left_text: str

    def __init__(self, top_text: str, left_text: str) -> None:
        Top.__init__(self, top_text=top_text)
        self.left_text = left_text


@abstract
class Right(Top):
    right_text: str

    def __init__(self, top_text: str, right_text: str) -> None:
        Top.__init__(self, top_text=top_text)
        self.right_text = right_text


class Bottom(Left, Right):
    def __init__(self, top_text: str, left_text: str, right_text: str) -> None:
        Left.__init__(self, top_text=top_text, left_text=left_text)
        Right.__init__(self, top_text=top_text, right_text=right_text)


__version__ = "V0.1"
__xml_namespace__ = "https://dummy.com/gen"
'''

DIAMOND_OPTIONAL_MODEL = mmgen.IMPORTS + '''
@abstract
class Top(DBC):
    top_a: Optional[str]

    top_b: Optional[str]

    def __init__(self, top_a: Optional[str] = None, top_b: Optional[str] = None) -> None:
        self.top_a = top_a
        self.top_b = top_b


@abstract
class Left(Top):
    def __init__(self, top_a: Optional[str] = None, top_b: Optional[str] = None) -> None:
        Top.__init__(self, top_a=top_a, top_b=top_b)


@abstract
class Right(Top):
    def __init__(self, top_a: Optional[str] = None, top_b: Optional[str] = None) -> None:
        Top.__init__(self, top_a=top_a, top_b=top_b)


class Bottom(Left, Right):
    def __init__(self, top_a: Optional[str] = None, top_b: Optional[str] = None) -> None:
        Left.__init__(self, top_a=top_a, top_b=top_b)
        Right.__init__(self, top_a=top_a, top_b=top_b)


__version__ = "V0.1"
__xml_namespace__ = "https://dummy.com/gen"
'''


def targeted_models() -> List[Tuple[str, str]]:
    return [
        ("targeted/diamond/required-properties", DIAMOND_MODEL),
        ("targeted/diamond/optional-properties", DIAMOND_OPTIONAL_MODEL),
        ("targeted/guard-on-other-property/length", CROSS_GUARD_MODEL),
        ("targeted/guard-on-other-property/pattern", CROSS_GUARD_PATTERN_MODEL),
        ("targeted/two-patterns-own-and-constrained-primitive", TWO_PATTERNS_MODEL),
        ("targeted/constrained-primitive-with-several-parents", MULTI_PARENT_CPRIM_MODEL),
    ]


def mmg_profile(i: int) -> mmgen.Profile:
    return mmgen.Profile(
        sdk_safe=True,
        schema_invariants_only=True,
        n_pattern_fns=(1, 3),
        n_cprims=(1, 4),
        n_classes=(2, 7),
        n_transpilable_fns=(0, 0),
        n_impl_fns=(0, 0),
        n_const_prims=(0, 0),
        n_const_sets=(0, 1),
        p_invariant=0.9,
        max_invariants=3,
        p_impl_method=0.0,
        p_list=0.35,
        p_diamond=0.35 if i % 3 == 0 else 0.15,
        simple_patterns=(i % 4 == 3),
        float_props=(i % 2 == 0),
        bool_cprims=False,
    )


# --------------------------------------------------------------------------- patterns
#: hand-written patterns around the escapes and constructs the translation touches
TARGETED_PATTERNS = [
    "^a\\x2ab$", "^a\\x2bb$", "^a\\x3fb$", "^a\\x7cb$", "^a\\x2eb$", "^\\x28a\\x29$",
    "^[\\x2d\\x5d]$", "^[a\\x2dz]$", "^\\x5b$", "^\\x5cd$", "^a\\x24$", "^\\x5ea$",
    "^a\\\\x2ab$", "^a\\\\xZZb$", "^\\\\x41$",
    "^[a-zA-Z\\xC0-\\xD6\\xD8-\\xF6\\xF8-\\xFF]+$", "^a\\xE9b$", "^\\xe9\\xC9$", "^[\\xAa-\\xfF]$",
    "^a\\x4Ab$", "^\\u00e9\\xC9$",
    "^a\\$b$", "^a\\^b$", "^a\\.b$", "^a\\*\\+\\?b$", "^\\(a\\)\\[b\\]$", "^a\\\\b$", "^a\\#b#$",
    "^\\u00e9+$", "^[\\u00e9-\\u0100]$", "^\\u0100$", "^\\U0001F600$", "^[\\U00010000-\\U0010FFFF]$",
    "^é+$", "^[à-ÿ]$", "^\U0001F600?$",
    "^a*?b$", "^a+?$", "^a??b$", "^a{2}?$", "^a{1,2}?b$",
    "^a{,2}b$", "^a{2,}$", "^(a{1}){0,2}$", "^a{01,2}$",
    "^[a-z]+-[0-9]$", "^[{}|]x$", "^[\\^a]$", "^[a^]$", "^[\\-a]$", "^[a\\-z]$", "^[a-]$", "^[-a]$",
    "^[^a-c]$", "^[^\\]]$", "^a.b$", "^(a|)$", "^(|a)$", "^(a|b|cd)+$", "^\\x26\\x3c\\x22$",
    "^a\\tb$", "^[ \\t]*$", "^a b$", "^ a $", "^$", "^()$", "^(^a$)$", "^a^b$", "^a$b$",
    "^[\\[\\]]$", "^[\\\\]$", "^[.]$", "^[$]$", "^[*+?]$", "^[(|)]$",
]


def corpus_patterns() -> List[str]:
    """Constant patterns of the verification functions in the repository's own models."""
    found: List[str] = []
    for name, text in corpus.models(include_v3=True):
        if "match(" not in text:
            continue
        try:
            pm = pyexec.PyModel(text, execute=False)
        except Exception:  # noqa
            continue
        for fn in pm.functions.values():
            if fn.pattern is not None and fn.pattern not in found and len(fn.pattern) < 3000:
                found.append(fn.pattern)
    return found


def pattern_workload(chk: harness.Check, n_generated: int) -> List[Tuple[str, str]]:
    out: List[Tuple[str, str]] = [("targeted", p) for p in TARGETED_PATTERNS]
    from_corpus = corpus_patterns()
    if chk.tier == "quick":
        # the long patterns of the v3 model cost seconds each: a seeded sample of them
        short = [p for p in from_corpus if len(p) <= 300]
        long_ = [p for p in from_corpus if len(p) > 300]
        chk.rng("corpus-patterns").shuffle(long_)
        from_corpus = short + long_[:6]
    generated: List[Tuple[str, str]] = []
    out, head = generated, out
    for i in range(n_generated):
        rng = chk.rng("pattern", i)
        r = i % 10
        if r < 6:
            out.append(("regexgen-anchored", rg.gen_pattern(rng, "anchored", nongreedy=(i % 20 == 0))))
        elif r < 8:
            out.append(("regexgen-astral", rg.gen_pattern(rng, "astral", anchored=1.0, surrogate_cp=0.0, inner_anchors=0.0, nongreedy=False)))
        else:
            out.append(("mmgen", mmgen.Generator(rng, mmgen.Profile(astral_patterns=(i % 4 == 0))).gen_pattern()))
    # interleave the repository's own patterns with the generated ones
    merged: List[Tuple[str, str]] = list(head)
    corpus_items = [("corpus", p) for p in from_corpus]
    step = max(1, len(generated) // max(1, len(corpus_items)))
    for k, item in enumerate(generated):
        if k % step == 0 and corpus_items:
            merged.append(corpus_items.pop(0))
        merged.append(item)
    merged += corpus_items
    out = merged
    # braces that Python reads as text but the front end reads as a quantifier are a
    # divergence of the regex *parser* (C16), not of the XSD translation
    return [
        (source, p) for source, p in out
        if rg.braces_hint(p) not in ("blank-in-braces", "non-ascii-digit-in-braces")
    ]


# --------------------------------------------------------------------------- helpers
def xsd_outcome(chk: harness.Check, run: xschema.XsdRun, base: Dict[str, Any], where: str,
                patterns: List[str]) -> bool:
    """Record a crash / refusal / time-out of the xsd target; True if a schema exists."""
    chk.hist(f"xsd_outcome/{where}", run.outcome)
    if run.outcome == "ok":
        return True
    if run.outcome == "timeout":
        chk.count("xsd_generation_timed_out")
        return False
    if run.outcome == "crash":
        assert run.exc is not None
        sig = rg.crash_key(run.exc, str(env.REPO))
        chk.hist("xsd_crashes", sig)
        if "@xsd/" in sig:
            chk.violation(
                "xsd-crash/" + sig,
                dict(base, error=harness.format_exc(run.exc)),
            )
        else:
            chk.count("xsd_crashes_outside_xsd_package_skipped")
        return False
    kind, msg = xschema.refusal_class(run.stderr)
    chk.hist("xsd_refusals", f"{kind}:{msg}")
    if kind == "pattern-translation":
        if any(xschema.mentions_non_xml_character(p) for p in patterns):
            # a pattern over characters that no XML document can hold: refusing is right
            chk.count("xsd_refusals_for_patterns_with_non_xml_characters")
            return False
        causes = sorted({c for c in (xschema.confirmed_cause_of_refusal(p) for p in patterns) if c})
        if not causes:
            # the re-spelt variants may fail for reasons of their own (colliding ranges):
            # then the place the refusal itself points at decides
            causes = sorted({
                c for c in (xschema.refusal_points_at_undone_escape(p, run.stderr) for p in patterns) if c
            })
        chk.violation(
            "xsd-refused/pattern-translation/" + (causes[0] if causes else msg),
            dict(base, stderr=run.stderr[-2500:], patterns=patterns[:8]),
        )
    else:
        chk.count("xsd_refusals_other_skipped")
    return False


def _escaped_code_points(pattern: str) -> Tuple[set, set]:
    """Code points below U+0100 written as ``\\xHH`` and as ``\\uHHHH``/``\\UHHHHHHHH``."""
    as_x: set = set()
    as_u: set = set()
    i = 0
    while i < len(pattern):
        if pattern[i] != "\\" or i + 1 >= len(pattern):
            i += 1
            continue
        letter = pattern[i + 1]
        width = {"x": 2, "u": 4, "U": 8}.get(letter)
        digits = pattern[i + 2:i + 2 + width] if width else ""
        if width and len(digits) == width and all(c in "0123456789abcdefABCDEF" for c in digits):
            (as_x if letter == "x" else as_u).add(int(digits, 16))
            i += 2 + width
        else:
            i += 2
    return as_x, as_u


def x_escape_key(key: str, patterns: List[str], xsd_text: str) -> str:
    """Tell a ``\\xHH`` that the source spelled so and the generator failed to undo.

    The retree renderer writes explicitly encoded characters below U+0100 as ``\\xhh``
    (known for ``\\u00e9`` in the source); a ``\\xHH`` of the source is replaced by the
    character itself before parsing and must never reach the schema.
    """
    if not key.endswith("escape-not-in-xsd-grammar:\\x"):
        return key
    emitted: set = set()
    for value in xschema.pattern_values(xsd_text):
        emitted |= _escaped_code_points(value)[0]
    source_x: set = set()
    source_u: set = set()
    for pattern in patterns:
        as_x, as_u = _escaped_code_points(pattern)
        source_x |= as_x
        source_u |= as_u
    if (emitted - source_u) & source_x:
        return key + "/x-escape-of-the-source-not-undone"
    return key



def schema_validity(chk: harness.Check, validators: xschema.Validators, base: Dict[str, Any],
                    patterns: List[str]) -> bool:
    """Part (a): both processors build the schema; escapes belong to the XSD grammar."""
    chk.count("schemas_loaded_in_xsd10_and_xsd11")
    flagged = set()
    if validators.errors:
        keys = {}
        for version, err in validators.errors.items():
            keys.setdefault(xschema.schema_error_key(err, validators.xsd_text), []).append(version)
        for key, versions in keys.items():
            flagged.add(key)
            if key.startswith("validator-limitation/"):
                chk.count("schemas_not_judged_for_a_limitation_of_the_validator")
                chk.hist("validator_limitations", key)
                continue
            if key.startswith("pattern/") and not key.startswith(
                ("pattern/escape-not-in-xsd-grammar", "pattern/lazy-quantifier")
            ):
                causes = sorted({c for c in (xschema.confirmed_cause_of_invalid_facet(p) for p in patterns) if c})
                if causes:
                    key = "pattern/" + causes[0]
            key = x_escape_key(key, patterns, validators.xsd_text)
            chk.violation(
                "xsd-invalid/" + key,
                dict(base, refused_by=versions, schema=validators.xsd_text[:6000],
                     error=str(validators.errors[versions[0]])[:1500]),
            )
    grammar_ok = True
    for value, esc in xschema.strict_escape_scan(validators.xsd_text):
        key = f"pattern/escape-not-in-xsd-grammar:{esc}"
        chk.count("patterns_with_escape_outside_xsd_grammar")
        grammar_ok = False  # whatever a lenient processor makes of it is not judged
        if key in flagged:
            continue
        flagged.add(key)
        key = x_escape_key(key, patterns, validators.xsd_text)
        chk.violation(
            "xsd-invalid/" + key,
            dict(base, refused_by=["W3C XSD regex grammar (single/multi-character escapes)"],
                 emitted_pattern=value, schema=validators.xsd_text[:6000]),
        )
    return validators.ok and grammar_ok


def inheritance_shape(pm: pyexec.PyModel, cls: str) -> str:
    bases = pm.classes[cls].bases
    if not bases:
        return "no-bases"
    seen: Dict[str, int] = {}

    def visit(name: str) -> None:
        for b in pm.classes[name].bases:
            seen[b] = seen.get(b, 0) + 1
            visit(b)

    visit(cls)
    if any(n > 1 for n in seen.values()):
        return "diamond"
    multi = len(bases) > 1 or any(len(pm.classes[a].bases) > 1 for a in pm.ancestors(cls))
    return "multiple-bases" if multi else "single-chain"


_STRUCTURAL = ("unexpected-child", "content-incomplete", "character-data")
_BOUND_KINDS = {"pattern": ("pattern",), "length-greater": ("max",), "length-lesser": ("min",)}


def rejection_key(pm: pyexec.PyModel, exp: xschema.Expectations, nodes: Optional[List[xschema.ObjectNode]],
                  inst: instances.Inst, error: Any) -> str:
    """Mechanism of a valid document that a validator rejects."""
    kind = xschema.reason_kind(error.reason)
    elem = getattr(error, "elem", None)
    if nodes is None or elem is None:
        return f"valid-document-rejected/{kind}/unmapped"
    if kind in _STRUCTURAL:
        # the content of an object element (or of the element of a class-typed property)
        for node in nodes:
            if node.elem is elem:
                shape = inheritance_shape(pm, node.inst.cls)
                if shape == "diamond":
                    return f"valid-document-rejected/diamond-inheritance/{kind}"
                return f"valid-document-rejected/{kind}/{shape}"
    for node in nodes:
        decl = {p.name: d for d, p in pm.all_props(node.inst.cls)}
        for name, t, pelem in node.props:
            base_t = t.strip_optional()
            role = None
            if pelem is elem:
                role = "list" if base_t.kind == "list" else "value"
            elif any(child is elem for child in pelem) and base_t.kind == "list":
                role = "item"
            if role is None:
                continue
            pe = exp.by_prop.get((decl[name], name))
            tname = base_t.inner.name if base_t.kind == "list" and base_t.inner else base_t.name
            prim = pm.primitive_of(tname) or ("enum" if pm.is_enum(tname) else "class")
            what = "list" if role == "list" else f"{role}:{prim}"
            if pe is not None and pe.conditional_on_other:
                return f"valid-document-rejected/constraint-guarded-by-another-property/{kind}/{what}"
            cause = "no-recognised-constraint"
            if pe is not None:
                ve = pe.item if (role == "item") else pe.value
                wanted = _BOUND_KINDS.get(kind, ("min", "max") if role == "list" else ("min", "max", "pattern"))
                forms = sorted({f"{b.origin}:{b.form}" for b in ve.bounds if b.kind in wanted})
                if forms:
                    cause = "+".join(forms)[:100]
            inherited = "inherited" if decl[name] != node.inst.cls else "own"
            return f"valid-document-rejected/{kind}/{what}/{inherited}/{cause}"
    return f"valid-document-rejected/{kind}/unlocated"


# --------------------------------------------------------------------------- (a)+(b)
def check_model(chk: harness.Check, name: str, text: str, rng: Any, n_instances: int,
                n_xmllint: int, fixture_snippets: Optional[Dict[str, str]] = None,
                pace: Optional[xschema.Pace] = None) -> None:
    base = {"model": name, "text": text}
    try:
        pm = pyexec.PyModel(text)
    except Exception as err:  # noqa
        chk.count("reference_executor_failed")
        chk.hist("reference_executor_failure", type(err).__name__)
        return
    loaded, error, exc = driver.load_inprocess(text)
    if exc is not None or error is not None:
        chk.count("models_rejected_or_crashed_in_front_end")
        return
    chk.count("models_accepted_by_front_end")
    run = xschema.run_xsd(text, seconds=chk.pick(15.0, 40.0) if fixture_snippets is None else 300.0,
                          snippets=fixture_snippets)
    sdk: Optional[pysdk.Sdk] = None
    try:
        model_patterns = [fn.pattern for fn in pm.functions.values() if fn.pattern is not None]
        if not xsd_outcome(chk, run, base, "models", model_patterns):
            return
        validators = xschema.Validators(run.xsd or "")
        chk.count("model_schemas_built")
        if not schema_validity(chk, validators, base, model_patterns):
            return
        if fixture_snippets is not None:
            chk.case(sample=None)
            return
        try:
            sdk = pysdk.Sdk(text, pm)
        except pysdk.SdkError as err:
            chk.count("models_python_generator_crashed" if err.result.exc is not None else "models_python_generator_rejected")
            return
        except Exception:  # noqa
            chk.count("models_sdk_import_failed")
            return
        chk.count("models_with_schema_and_sdk")
        exp = xschema.Expectations(pm)
        names = xschema.Names(pm.xml_namespace or driver.DEFAULT_NAMESPACE)
        has_patterns = exp.has_any_pattern_function()
        gen = xschema.DirectedGenerator(pm, rng, exp)
        classes = gen.instantiable()
        if not classes:
            chk.count("models_without_instantiable_class")
            return
        docs_for_lint: List[Tuple[str, bool]] = []
        constrained_here = 0
        for i in range(n_instances):
            if pace is not None and pace.over():
                chk.count("instances_skipped_for_budget", n_instances - i)
                break
            cls = classes[i % len(classes)]
            try:
                inst = gen.gen_instance(cls)
            except instances.Unsatisfied:
                chk.count("instances_unsatisfied")
                continue
            if not instances.all_invariants_hold(pm, inst):
                chk.count("instances_failing_independent_recheck")
                continue
            strings = xschema.strings_in(inst, pm)
            if not all(xschema.is_xml_text(s) for s in strings):
                chk.count("instances_skipped_not_xml_text")
                continue
            if has_patterns and any(xschema.has_line_break(s) for s in strings):
                chk.count("instances_skipped_line_break_in_pattern_model")
                continue
            witness = dict(base, cls=cls, instance=instances.to_jsonable_sample(inst))
            try:
                doc = sdk.xmlization.to_str(sdk.build(inst))
                root = ET.fromstring(doc)
            except RecursionError:
                raise
            except Exception:  # noqa: writing is C10's business
                chk.count("sdk_failed_to_write_or_not_well_formed")
                continue
            try:
                nodes: Optional[List[xschema.ObjectNode]] = xschema.map_document(pm, names, root, inst)
            except xschema.MappingFailed:
                nodes = None
                chk.count("documents_not_mapped_to_instance")
            n_sites = sum(1 for _ in xschema.sites(pm, exp, inst))
            chk.count("documents_validated")
            chk.count("constrained_values_in_validated_documents", n_sites)
            chk.hist("document_root_inheritance_shape", inheritance_shape(pm, cls))
            constrained_here += n_sites
            rejected = False
            for version, schema in validators.schemas.items():
                first = None
                for err in schema.iter_errors(root):
                    first = err
                    break
                if first is None:
                    continue
                rejected = True
                key = rejection_key(pm, exp, nodes, inst, first)
                if xschema.reason_kind(first.reason) == "pattern":
                    if any(xschema.has_escaped_range_start(v) for v in xschema.pattern_values(validators.xsd_text)):
                        chk.count("rejections_not_judged_for_a_limitation_of_the_validator")
                        continue
                    if xschema.xmllint_verdict(validators.xsd_text, doc) is True:
                        chk.count("rejections_not_confirmed_by_xmllint")
                        chk.hist("validator_disagreements", "document: xmlschema rejects (pattern) / xmllint accepts")
                        continue
                chk.violation(
                    key,
                    dict(witness, document=doc[:4000], validator=f"xmlschema XSD {version}",
                         reason=str(first.reason)[:400], path=str(first.path),
                         schema=validators.xsd_text[:8000]),
                )
            if len(docs_for_lint) < n_xmllint:
                docs_for_lint.append((doc, rejected))
            chk.case(
                sample={"model": name, "cls": cls, "document": doc[:400],
                        "constrained_values": n_sites} if (i == 0 and n_sites) else None
            )
        if constrained_here:
            chk.add_distinct([("model", name)])
            chk.count("models_with_constrained_values_validated")
        second_opinion(chk, run, docs_for_lint)
    finally:
        if sdk is not None:
            sdk.close()
        run.cleanup()


def second_opinion(chk: harness.Check, run: xschema.XsdRun, docs: List[Tuple[str, bool]]) -> None:
    if run.result is None or not docs:
        return
    paths = []
    for k, (doc, _) in enumerate(docs):
        path = run.result.output_dir / f"doc{k}.xml"
        path.write_text(doc, encoding="utf-8")
        paths.append(str(path))
    got = xschema.xmllint_schema(str(run.result.output_dir / "schema.xsd"), paths)
    if got is None:
        chk.unavailable_leg("xmllint second opinion unavailable")
        return
    chk.hist("xmllint_second_opinion", "schema-compiles" if got["schema_ok"] else "schema-refused")
    if not got["schema_ok"]:
        lines = [ln for ln in got["text"].splitlines() if "error" in ln]
        head = lines[0].split("error", 1)[1] if lines else got["text"][-200:]
        chk.hist("xmllint_refuses_schema_that_xmlschema_builds", rg.norm_text(head, 10))
    for path, (_, rejected) in zip(paths, docs):
        verdict = got["valid"].get(path)
        if verdict is None:
            continue
        chk.hist(
            "xmllint_second_opinion",
            f"document: xmlschema {'rejects' if rejected else 'accepts'} / xmllint {'accepts' if verdict else 'rejects'}",
        )


# --------------------------------------------------------------------------- (c)
def check_pattern(chk: harness.Check, lab: xschema.PatternLab, source: str, pattern: str,
                  rng: Any, n_strings: int, shrinks_left: List[int]) -> None:
    case = lab.open(pattern, seconds=20.0)
    chk.hist("pattern_case_state", f"{source}:{case.state}")
    base = {"pattern": pattern, "source": source, "text": case.text}
    try:
        if case.run is None:
            return
        chk.count("patterns_accepted_by_front_end")
        if not xsd_outcome(chk, case.run, base, "patterns", [pattern]):
            chk.case()
            return
        assert case.validators is not None
        base["emitted_xs_pattern"] = case.emitted
        if not schema_validity(chk, case.validators, base, [pattern]):
            chk.case()
            return
        if case.emitted is None:
            chk.count("pattern_models_without_xs_pattern")
            chk.case()
            return
        if xschema.has_escaped_range_start(case.emitted):
            chk.count("patterns_not_judged_for_a_limitation_of_the_validator")
            chk.hist("validator_limitations", "validator-limitation/range-starts-with-an-escape")
            chk.case()
            return
        try:
            with rg.time_limit(3.0):
                strings = rg.sample_strings(pattern, rng, n_strings, allow_surrogates=False)
        except rg.MatchTimeout:
            chk.count("pattern_sampling_timed_out")
            return
        members = 0
        failing: Optional[Tuple[str, Dict[str, bool]]] = None
        try:
            with rg.time_limit(10.0):
                for s in strings:
                    if not xschema.judgeable_string(s):
                        continue
                    if case.py.match(s) is None:
                        continue
                    members += 1
                    verdicts = lab.accepts(case, s)
                    if not all(verdicts.values()) and failing is None:
                        failing = (s, verdicts)
        except rg.MatchTimeout:
            chk.count("pattern_matching_timed_out")
        chk.count("pattern_member_strings_validated", members)
        if members:
            chk.count("patterns_with_members_validated")
            chk.add_distinct([("pattern", rg.skeleton(pattern))])
        for flag in rg.pattern_flags(pattern):
            chk.hist("pattern_constructs", flag)
        chk.case(sample={"pattern": pattern, "xs:pattern": case.emitted, "members_validated": members}
                 if members and source != "targeted" else None)
        if failing is not None:
            s, verdicts = failing
            lint = xschema.xmllint_verdict(
                case.validators.xsd_text, ET.tostring(lab.document(s), encoding="unicode")
            )
            if lint is True:
                chk.count("rejections_not_confirmed_by_xmllint")
                chk.hist("validator_disagreements", "member: xmlschema rejects / xmllint accepts: " + rg.skeleton(pattern))
                return
            may_shrink = shrinks_left[0] > 0
            mechanism, minimal = xschema.explain_disagreement(pattern, "rejects-member", rng, may_shrink)
            if minimal is not None:
                shrinks_left[0] -= 1
            key = "pattern-rejects-member/" + mechanism
            chk.violation(
                key,
                dict(base, string=s, python_re_match=True, xsd_accepts=verdicts,
                     xmllint_accepts=lint, minimal_pattern=minimal,
                     minimal_translation=xschema.real_translate(minimal) if minimal else None),
            )
    finally:
        if case.run is not None:
            case.run.cleanup()


# --------------------------------------------------------------------------- driver
def fixture_cases() -> List[Tuple[str, str, Dict[str, str]]]:
    """The repository's own xsd fixtures with their snippets (schema validity only)."""
    cases = []
    root = env.REPO / "dev" / "test_data" / "main" / "xsd" / "expected"
    for case_dir in sorted(root.glob("*")):
        snippets_dir = case_dir / "input" / "snippets"
        model = case_dir / "meta_model.py"
        if not model.exists():
            model = env.REPO / "dev" / "test_data" / "common_meta_models" / f"{case_dir.name}.py"
        if not (model.exists() and snippets_dir.is_dir()):
            continue
        snippets = {
            p.relative_to(snippets_dir).as_posix(): p.read_text(encoding="utf-8")
            for p in snippets_dir.rglob("*") if p.is_file()
        }
        cases.append((f"fixture/{case_dir.name}", model.read_text(encoding="utf-8"), snippets))
    return cases


MINIMA = {
    "schemas_loaded_in_xsd10_and_xsd11": (60, 250),
    "documents_validated": (150, 1500),
    "constrained_values_in_validated_documents": (150, 1500),
    "pattern_member_strings_validated": (200, 1200),
}


def worker(args) -> Dict[str, Any]:
    argv, shard, n_shards, n_models, n_instances, n_patterns, n_strings, t0 = args
    chk = harness.Check("C13", "exploration", RULE, argv)
    chk.t0 = t0  # budgets count from the start of the parent, warm-up included
    budget = chk.wall_budget(150, 780)
    mine = {name: xschema.share(chk.pick(*pair), n_shards) for name, pair in MINIMA.items()}
    # one pace for everything: stop at the budget if this worker has contributed its share
    # of every minimum, else go on (up to three budgets) -- patterns and models alternate,
    # so that a slow machine still sees both
    pace = xschema.Pace(chk, budget, budget * 3.0, mine)

    try:
        # ---- hand-written models first: they are few and name known mechanisms
        first: List[Tuple[str, str, Optional[Dict[str, str]]]] = []
        targeted = targeted_models()
        first += [(n, t, None) for k, (n, t) in enumerate(targeted) if k % n_shards == shard]
        # the repository's own xsd fixtures (the v3 one takes minutes: never near the deadline)
        fixtures = [(n, t, s) for n, t, s in fixture_cases() if chk.tier == "thorough" or "v3" not in n]
        first += [f for k, f in enumerate(fixtures) if (k + 1) % n_shards == shard]
        # ---- (c) one-pattern models
        lab = xschema.PatternLab()
        patterns = pattern_workload(chk, n_patterns)
        shrinks_left = [chk.pick(6, 20)]
        my_patterns = patterns[shard::n_shards]
        # ---- (a) + (b) generated models and the repository's own small models
        extra: List[Tuple[str, str, Optional[Dict[str, str]]]] = []
        extra += [(n, t, None) for n, t in corpus.small_common()]
        extra = [e for k, e in enumerate(extra) if k % n_shards == shard]
        mmg: List[Tuple[str, str, Optional[Dict[str, str]]]] = []
        for i in range(shard, n_models, n_shards):
            m = xschema.generate_schema_model(chk.rng("model", i), mmg_profile(i))
            mmg.append((f"mmg/{chk.seed}/{i}", m.text, None))
            for k, v in m.features.items():
                chk.hist("mmg_features", k, v)
        models: List[Tuple[str, str, Optional[Dict[str, str]]]] = list(first)
        while mmg or extra:
            if mmg:
                models.append(mmg.pop(0))
            if mmg:
                models.append(mmg.pop(0))
            if extra:
                models.append(extra.pop(0))
        per_model = max(1, round(len(my_patterns) / max(1, len(models))))
        pi = mi = 0
        while pi < len(my_patterns) or mi < len(models):
            if pace.over():
                chk.count("patterns_skipped_for_budget", len(my_patterns) - pi)
                chk.count("models_skipped_for_budget", len(models) - mi)
                break
            if mi < len(models):
                name, text, snippets = models[mi]
                mi += 1
                check_model(chk, name, text, chk.rng("inst", name), n_instances,
                            n_xmllint=chk.pick(6, 12), fixture_snippets=snippets, pace=pace)
            for _ in range(per_model if mi < len(models) else len(my_patterns)):
                if pi >= len(my_patterns) or pace.over():
                    break
                source, pattern = my_patterns[pi]
                pi += 1
                check_pattern(chk, lab, source, pattern, chk.rng("strings", source, pattern), n_strings, shrinks_left)
    except Exception:  # noqa
        chk.harness_error("worker failed: " + traceback.format_exc()[-1500:])
    return chk.export()


def main(argv) -> int:
    chk = harness.Check("C13", "exploration", RULE, argv)
    n_models = chk.pick(72, 1200)
    n_instances = chk.pick(30, 60)
    n_patterns = chk.pick(240, 4000)
    n_strings = chk.pick(30, 60)
    n_shards = max(1, WORKERS)
    xschema.warm_up()
    with concurrent.futures.ProcessPoolExecutor(max_workers=n_shards) as pool:
        jobs = [
            pool.submit(worker, (list(argv), s, n_shards, n_models, n_instances, n_patterns, n_strings, chk.t0))
            for s in range(n_shards)
        ]
        for job in jobs:
            try:
                chk.merge(job.result())
            except Exception as err:
                chk.harness_error(f"worker failed: {err!r}")
    for name, pair in MINIMA.items():
        chk.require_min(name, chk.pick(*pair))
    chk.assume("a document is judged only if Python evaluates every invariant of the instance to True and all its strings are XML 1.0 characters (no line breaks when the model declares a pattern)")
    chk.assume("an escape inside xs:pattern that the XSD regex grammar (XSD 1.0 app. F / 1.1 app. G) does not define makes the schema invalid even where xmlschema and libxml2 tolerate it")
    chk.assume("xmllint is reported as a second opinion only")
    return chk.finish()
