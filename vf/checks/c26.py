"""C26 — yield-flow linearization preserves behaviour."""
import array
import concurrent.futures
import json
import multiprocessing
import os
import pathlib
import shutil
import signal
import subprocess
import time
from typing import Any, Dict, List, Optional, Sequence, Tuple

from vf import c26_model as M
from vf import env, harness

RULE = (
    "flows over Command/IfTrue/IfFalse(with, without and with empty else)/For(with and "
    "without init, also empty body)/While/Yield enumerated exhaustively up to the bound "
    "in 'bounds' plus seeded random larger flows; every flow is run under every sequence "
    "of condition outcomes up to the stated length (prefix tree of feasible sequences; "
    "afterwards loops end, ifs take a default) and under random longer sequences. "
    "Leg 1: a structured interpreter (recursive Python generator over the real flow "
    "nodes, suspended at each Yield) against a resumable state machine over the real "
    "linearize_to_subroutines output (state = one label).  Leg 2: the C++ emitted by "
    "cpp.yielding.generate_execute_body compiled with ASan+UBSan and driven call by "
    "call.  evaluations = (flow, outcome sequence) pairs whose traces were compared in "
    "leg 1; a flow is non-trivial when it has at least one Yield and one conditional or "
    "loop; distinct = distinct non-trivial flows by canonical structural form"
)

NATIVE = env.VERIF / "native" / "c26"

# Shape of the flow pinned in dev/tests/cpp/test_yielding.py (verificator-like).
PINNED_SHAPE = (
    ("iff", (("cmd",), ("yield",)), None),
    ("iff", (("cmd",), ("yield",)), None),
    ("ift", (("cmd",), ("for", False, (("cmd",), ("yield",))), ("cmd",)), None),
    ("ift", (("cmd",), ("for", False, (("cmd",), ("yield",))), ("cmd",)), None),
    ("cmd",),
)  # type: M.ShapeSeq

# (shape, tape, if_default, expected trace text) — written by hand from the meaning of
# the structured constructs; protects against slips in the reference itself.
SELF_TESTS = [
    ((("for", True, (("cmd",), ("yield",))),), (1, 0), False, "T0 C1=1 T3 Y T2 C1=0"),
    ((("for", False, ()), ("cmd",)), (1, 1), False, "C0=1 T1 C0=1 T1 C0=0 T2"),
    ((("ift", (("cmd",),), (("yield",),)), ("cmd",)), (0,), False, "C0=0 Y T2"),
    ((("ift", (("cmd",),), None), ("cmd",)), (1,), False, "C0=1 T1 T2"),
    ((("iff", (("cmd",),), (("yield",),)), ("cmd",)), (0,), False, "C0=0 T1 T2"),
    ((("iff", (("cmd",),), None),), (), True, "C0=1"),
    ((("iff", (("cmd",),), ()),), (), False, "C0=0 T1"),
    ((("while", (("yield",), ("ift", (("cmd",),), None))),), (1, 1, 1, 0), False,
     "C0=1 Y C1=1 T2 C0=1 Y C1=0 C0=0"),
]


def _shape_to_json(flow: Optional[M.ShapeSeq]) -> Any:
    if flow is None:
        return None
    return [
        [_shape_to_json(p) if isinstance(p, tuple) else p for p in node] for node in flow
    ]


def _shape_from_json(data: Any) -> Optional[M.ShapeSeq]:
    if data is None:
        return None
    return tuple(
        tuple(_shape_from_json(p) if isinstance(p, list) else p for p in node)
        for node in data
    )


def _bucket(n: int) -> str:
    if n <= 12:
        return f"{n:03d}"
    for hi in (16, 24, 32, 48, 64, 96, 128, 256, 512):
        if n <= hi:
            return f"<={hi:03d}"
    return ">512"


class Acc:
    """Cheap local accumulation, flushed into a Check at the end of a task."""

    def __init__(self) -> None:
        self.kinds = {}  # type: Dict[str, int]
        self.hists = {}  # type: Dict[str, Dict[str, int]]
        self.counts = {}  # type: Dict[str, int]
        self.keys = array.array("q")
        self.evaluations = 0

    def hist(self, name: str, key: Any, n: int = 1) -> None:
        h = self.hists.setdefault(name, {})
        h[key] = h.get(key, 0) + n

    def count(self, name: str, n: int = 1) -> None:
        self.counts[name] = self.counts.get(name, 0) + n

    def flush(self, chk: harness.Check) -> None:
        for k, v in self.kinds.items():
            chk.hist("node_kinds", k, v)
        for name, h in self.hists.items():
            for k, v in h.items():
                chk.hist(name, k, v)
        for k, v in self.counts.items():
            chk.count(k, v)
        chk.evaluations += self.evaluations


def _witness_size(witness: Dict[str, Any]) -> Tuple[int, int]:
    return len(str(witness.get("flow", ""))), len(witness.get("tape", ()) or ())


def report(chk: harness.Check, key: str, witness: Dict[str, Any]) -> None:
    """Record a violation; keep the smallest witness seen for the mechanism."""
    have = chk.violations.get(key)
    if chk.violation(key, witness) and have is not None:
        if _witness_size(witness) < _witness_size(have):
            chk.violations[key] = harness.jsonable(witness)


class Prepared:
    """A flow built, linearized and decoded; None fields when a stage failed."""

    def __init__(self, shape: M.ShapeSeq) -> None:
        self.shape = shape
        self.flow = None  # type: Optional[List[Any]]
        self.program = None  # type: Optional[M.Program]
        self.dump = ""
        self.body = ""  # emitted C++ (leg 2 only)


def _modules() -> Tuple[Any, Any]:
    from aas_core_codegen.yielding import flow as fm, linear as lm

    return fm, lm


def prepare(
    chk: harness.Check, shape: M.ShapeSeq, acc: Acc, origin: str
) -> Optional[Prepared]:
    """Build and linearize with the real code; record crashes and static findings."""
    fm, lm = _modules()
    prep = Prepared(shape)
    prep.flow = M.build(shape, fm)
    try:
        subroutines = lm.linearize_to_subroutines(prep.flow)
    except Exception as exc:  # pylint: disable=broad-except
        chk.violation(
            "linear/crash/" + harness.crash_signature(exc),
            {
                "leg": "linear",
                "flow": M.text(shape),
                "shape": _shape_to_json(shape),
                "origin": origin,
                "exception": harness.format_exc(exc),
            },
        )
        acc.count("linearize_crashes")
        return None
    acc.count("flows_linearized")
    prep.program = M.Program(subroutines, lm)
    try:
        prep.dump = "\n--\n".join(lm.dump(sub) for sub in subroutines)
    except Exception:  # pylint: disable=broad-except
        prep.dump = "<dump failed>"
    acc.count("static_label_and_target_checks")
    acc.hist("subroutines_per_flow", _bucket(len(prep.program.subs)))
    for what, detail in prep.program.static_errors:
        chk.violation(
            f"linear/static/{what}",
            {
                "leg": "linear",
                "flow": M.text(shape),
                "shape": _shape_to_json(shape),
                "origin": origin,
                "detail": detail,
                "subroutines": prep.dump,
            },
        )
    return prep


def compare_leg1(
    chk: harness.Check,
    prep: Prepared,
    tape: Sequence[int],
    if_default: bool,
    acc: Acc,
    origin: str,
) -> Tuple[List[int], int]:
    """Run both interpreters on one outcome script; return (expected trace, #evals)."""
    fm, _ = _modules()
    assert prep.flow is not None and prep.program is not None
    probe = M.Probe(tape, if_default, 0)
    expected = M.run_structured(prep.flow, probe, fm)
    limit = 20 * (len(expected) + prep.program.statement_count + 10)
    got, err = M.run_machine(prep.program, M.Probe(tape, if_default, limit))
    acc.evaluations += 1
    acc.count("leg1_traces_compared")
    if err is None and got == expected:
        return expected, probe.pos
    if err is not None and (len(got) > len(expected) or got == expected[: len(got)]):
        # the machine got stuck on the right path: name the way it got stuck
        if err.startswith("jump to missing"):
            key = "linear/run/jump-target-missing"
        elif err.startswith("resumed in state"):
            key = "linear/run/resume-state-is-no-label"
        else:
            key = "linear/run/no-termination"
    else:
        key = "linear/trace-differs"
    i = 0
    while i < len(got) and i < len(expected) and got[i] == expected[i]:
        i += 1
    acc.hist(
        "leg1_first_difference",
        f"expected={M.event_kind(expected, i)}/machine={M.event_kind(got, i)}",
    )
    report(
        chk,
        key,
        {
            "leg": "linear",
            "flow": M.text(prep.shape),
            "shape": _shape_to_json(prep.shape),
            "origin": origin,
            "tape": list(tape),
            "if_default": if_default,
            "expected_trace": M.decode(expected),
            "machine_trace": M.decode(got[:400]),
            "machine_error": err,
            "first_difference_at_event": i,
            "subroutines": prep.dump,
        },
    )
    return expected, probe.pos


def examine(
    chk: harness.Check,
    shape: M.ShapeSeq,
    acc: Acc,
    origin: str,
    exhaustive_len: int,
    random_tapes: int,
    rng: Any,
    want_sample: bool,
) -> None:
    """Leg 1 for one flow: all feasible outcome prefixes up to a length, then random."""
    n, depth, has_yield, has_branch = M.stats(shape, acc.kinds)
    acc.hist("flow_size", _bucket(n))
    acc.hist("flow_depth", depth)
    prep = prepare(chk, shape, acc, origin)
    if prep is None:
        return
    nontrivial = has_yield and has_branch
    runs = 0
    sample_trace = None  # type: Optional[Tuple[Tuple[int, ...], bool, List[int]]]
    stack = [()]  # type: List[Tuple[int, ...]]
    while stack:
        tape = stack.pop()
        expected, evals = compare_leg1(chk, prep, tape, False, acc, origin)
        runs += 1
        acc.hist("trace_length", _bucket(len(expected)))
        if evals > len(tape) and len(tape) < exhaustive_len:
            stack.append(tape + (0,))
            stack.append(tape + (1,))
        elif evals <= len(tape):
            acc.count("outcome_sequences_fully_scripted")
        if want_sample and len(expected) >= 3 and rng.random() < 1.0 / runs:
            sample_trace = (tape, False, expected)
    for _ in range(random_tapes):
        length = rng.choice((3, 6, 10, 16, 24, 40))
        p_true = rng.choice((0.3, 0.5, 0.7, 0.9))
        tape = tuple(1 if rng.random() < p_true else 0 for _ in range(length))
        if_default = rng.random() < 0.5
        expected, _ = compare_leg1(chk, prep, tape, if_default, acc, origin)
        runs += 1
        acc.count("leg1_random_outcome_sequences")
        acc.hist("trace_length", _bucket(len(expected)))
        if want_sample and len(expected) >= 3 and rng.random() < 1.0 / runs:
            sample_trace = (tape, if_default, expected)
    acc.hist("outcome_sequences_per_flow", _bucket(runs))
    acc.count(f"flows_{origin}")
    if nontrivial:
        acc.count("flows_nontrivial")
        acc.keys.append(hash(shape))
    if want_sample and sample_trace is not None:
        chk.sample(
            {
                "flow": M.text(shape),
                "origin": origin,
                "outcome_tape": list(sample_trace[0]),
                "if_default_after_tape": sample_trace[1],
                "trace": M.decode(sample_trace[2]),
                "subroutines": prep.dump,
                "outcome_sequences_run": runs,
            }
        )


# ---------------------------------------------------------------------------
# worker tasks (leg 1)
# ---------------------------------------------------------------------------


def _debug(chk: harness.Check, text: str) -> None:
    if os.environ.get("C26_DEBUG"):
        print(f"[c26 +{time.time() - chk.t0:6.1f}s pid={os.getpid()}] {text}", flush=True)


def _result(chk: harness.Check, acc: Acc, **more: Any) -> Dict[str, Any]:
    _debug(chk, f"task done {more.get('task')}")
    acc.flush(chk)
    out = chk.export()
    out["distinct"] = []
    out["keys"] = acc.keys.tobytes()
    out.update(more)
    return out


def task_level(
    argv: Sequence[str],
    n: int,
    d: int,
    shard: int,
    nshards: int,
    exhaustive_len: int,
    min_depth: int,
    deadline: float,
) -> Dict[str, Any]:
    """One stride of the level (n nodes, nesting <= d); only nesting >= min_depth."""
    chk = harness.Check("C26", "exploration", RULE, argv)
    chk.max_samples = 1
    acc = Acc()
    level = M.Level(n, d)
    rng = chk.rng("level", n, d, shard)
    sample_at = rng.randrange(0, max(1, level.total // nshards))
    done = 0
    completed = True
    for k, index in enumerate(range(shard, level.total, nshards)):
        if k % 64 == 0 and time.time() > deadline:
            completed = False
            break
        want_sample = k >= sample_at and not chk.samples and n >= 3
        shape = level.get(index)
        if min_depth > 0 and M.depth_of(shape) < min_depth:
            continue
        examine(chk, shape, acc, "enumerated", exhaustive_len, 0, rng, want_sample)
        done += 1
    acc.hist("enumerated_flows_by_size", n, done)
    return _result(
        chk, acc, task=("level", n, d, min_depth), completed=completed, done=done
    )


def task_random(
    argv: Sequence[str], shard: int, count: int, max_size: int, deadline: float
) -> Dict[str, Any]:
    chk = harness.Check("C26", "exploration", RULE, argv)
    chk.max_samples = 1
    acc = Acc()
    rng = chk.rng("random", shard)
    done = 0
    for k in range(count):
        if k % 16 == 0 and time.time() > deadline:
            break
        size = rng.randint(6, max_size)
        depth = rng.randint(1, 5)
        shape = M.random_flow(rng, size, depth)
        examine(chk, shape, acc, "random", 4, 6, rng, k == 3)
        done += 1
    return _result(chk, acc, task=("random", shard), completed=True, done=done)


# ---------------------------------------------------------------------------
# leg 2: emitted C++ under sanitizers
# ---------------------------------------------------------------------------

GXX_FLAGS = [
    "-std=c++17",
    "-O1",
    "-g",
    "-fsanitize=address,undefined",
    "-fno-sanitize-recover=all",
]


class RunResult:
    def __init__(self, returncode: Optional[int], stdout: str, stderr: str) -> None:
        self.returncode = returncode  # None: timed out (whole process group killed)
        self.stdout = stdout
        self.stderr = stderr


def run_group(
    cmd: Sequence[str],
    timeout: float,
    stdin_text: Optional[str] = None,
    run_env: Optional[Dict[str, str]] = None,
) -> RunResult:
    """Run in an own process group; on timeout kill the group (g++ forks cc1plus)."""
    proc = subprocess.Popen(  # pylint: disable=consider-using-with
        list(cmd),
        stdin=subprocess.PIPE if stdin_text is not None else subprocess.DEVNULL,
        stdout=subprocess.PIPE,
        stderr=subprocess.PIPE,
        text=True,
        env=run_env,
        start_new_session=True,
    )
    try:
        out, err = proc.communicate(stdin_text, timeout=timeout)
        return RunResult(proc.returncode, out, err)
    except subprocess.TimeoutExpired:
        try:
            os.killpg(proc.pid, signal.SIGKILL)
        except ProcessLookupError:
            pass
        out, err = proc.communicate()
        return RunResult(None, out or "", err or "")


def _tokens(expected: Sequence[int]) -> List[str]:
    out = []
    for ev in expected:
        if ev == M.YIELD_EVENT:
            out.append("R")
        elif ev % 4 == 0:
            out.append(f"T{ev // 4}")
        else:
            out.append(f"C{ev // 4}={ev % 4 - 1}")
    return out


def _token_kind(tokens: Sequence[str], i: int) -> str:
    if i >= len(tokens):
        return "end"
    t = tokens[i]
    return {
        "T": "command",
        "C": "condition",
        "R": "return",
        "X": "throw",
        "O": "overflow",
    }.get(t[:1], "garbage")


def _leg2_cases(
    prep: Prepared, rng: Any, exhaustive_len: int, max_cases: int
) -> List[Tuple[Tuple[int, ...], bool, List[int]]]:
    """Outcome scripts for the C++ leg together with the structured trace."""
    fm, _ = _modules()
    assert prep.flow is not None
    cases = []  # type: List[Tuple[Tuple[int, ...], bool, List[int]]]
    frontier = [()]  # type: List[Tuple[int, ...]]
    # breadth first so that a cap keeps the short scripts
    while frontier and len(cases) < max_cases:
        tape = frontier.pop(0)
        probe = M.Probe(tape, False, 0)
        expected = M.run_structured(prep.flow, probe, fm)
        cases.append((tape, False, expected))
        if probe.pos > len(tape) and len(tape) < exhaustive_len:
            frontier.append(tape + (0,))
            frontier.append(tape + (1,))
    for _ in range(2):
        length = rng.choice((4, 8, 16, 30))
        p_true = rng.choice((0.4, 0.6, 0.85))
        tape = tuple(1 if rng.random() < p_true else 0 for _ in range(length))
        if_default = rng.random() < 0.5
        probe = M.Probe(tape, if_default, 0)
        cases.append((tape, if_default, M.run_structured(prep.flow, probe, fm)))
    return cases


def task_cpp_batch(
    argv: Sequence[str],
    batch_id: int,
    shapes: Sequence[M.ShapeSeq],
    gxx: str,
    deadline: float,
) -> Dict[str, Any]:
    from aas_core_codegen.common import Identifier
    from aas_core_codegen.cpp import yielding as cpp_yielding

    chk = harness.Check("C26", "exploration", RULE, argv)
    chk.max_samples = 1
    acc = Acc()
    rng = chk.rng("cpp", batch_id)
    work = env.new_dir(f"c26-cpp-{batch_id}")
    template = (NATIVE / "driver.cpp.in").read_text()

    flows = []  # type: List[Prepared]
    structs = []  # type: List[str]
    dispatch = []  # type: List[str]
    for shape in shapes:
        side = Acc()  # leg 1 counts these flows itself when it meets them
        prep = prepare(chk, shape, side, "cpp-batch")
        if prep is None:
            continue
        try:
            body = cpp_yielding.generate_execute_body(prep.flow, Identifier("state_"))
        except Exception as exc:  # pylint: disable=broad-except
            chk.violation(
                "cpp/crash/" + harness.crash_signature(exc),
                {
                    "leg": "cpp",
                    "flow": M.text(shape),
                    "shape": _shape_to_json(shape),
                    "exception": harness.format_exc(exc),
                },
            )
            continue
        i = len(flows)
        flows.append(prep)
        prep.body = str(body)
        structs.append(
            f"// flow {i}: {M.text(shape)}\n"
            f"struct Flow{i} {{\n  std::uint32_t state_ = 0;\n"
            f"  void Execute() {{\n{body}\n  }}\n}};\n"
        )
        dispatch.append(f"    case {i}: Drive<Flow{i}>(calls); break;")
    source = template.replace("@FLOWS@", "\n".join(structs)).replace(
        "@DISPATCH@", "\n".join(dispatch)
    )
    src = work / "batch.cpp"
    exe = work / "batch"
    src.write_text(source)

    def done(**more: Any) -> Dict[str, Any]:
        shutil.rmtree(work, ignore_errors=True)
        return _result(chk, acc, task=("cpp", batch_id), completed=True, **more)

    _debug(chk, f"cpp batch {batch_id}: source written")
    remaining = deadline - time.time()
    if remaining < 20:
        acc.count("cpp_batches_skipped_for_budget")
        return done()
    t0 = time.time()
    proc = run_group([gxx] + GXX_FLAGS + ["-o", str(exe), str(src)], remaining + 5.0)
    if proc.returncode is None:
        acc.count("cpp_batches_compile_timeout")
        return done()
    acc.hist("cpp_compile_seconds", _bucket(int(time.time() - t0)))
    if proc.returncode != 0:
        chk.violation(
            "cpp/compile-error",
            {
                "leg": "cpp",
                "stderr": proc.stderr[:3000],
                "flows": [M.text(p.shape) for p in flows[:20]],
            },
        )
        return done()
    acc.count("cpp_batches_compiled")
    _debug(chk, f"cpp batch {batch_id}: compiled")

    cases = []  # type: List[Tuple[int, Tuple[int, ...], bool, List[int]]]
    for i, prep in enumerate(flows):
        for tape, if_default, expected in _leg2_cases(prep, rng, 4, 14):
            cases.append((i, tape, if_default, expected))
    lines = []
    for cid, (i, tape, if_default, expected) in enumerate(cases):
        calls = sum(1 for ev in expected if ev == M.YIELD_EVENT) + 1
        lines.append(
            f"{cid} {i} {calls} {1 if if_default else 0} {len(tape)} "
            + " ".join(str(b) for b in tape)
        )

    _debug(chk, f"cpp batch {batch_id}: {len(cases)} cases prepared")
    outputs = {}  # type: Dict[int, List[str]]
    start = 0
    restarts = 0
    run_env = dict(os.environ)
    run_env["ASAN_OPTIONS"] = "detect_leaks=0:abort_on_error=0:color=never"
    run_env["UBSAN_OPTIONS"] = "print_stacktrace=1:color=never"
    hangs = 0
    while start < len(lines) and restarts <= 8:
        run = run_group(
            [str(exe)],
            max(15.0, min(60.0, deadline - time.time())),
            "\n".join(lines[start:]) + "\n",
            run_env,
        )
        _debug(chk, f"cpp batch {batch_id}: run from case {start} -> rc {run.returncode}")
        last = start - 1
        for ln in run.stdout.splitlines():
            # a line is complete only when it ends in the token of the last call
            if ln.startswith("#") and ln.endswith(("R", "X", "O", "?")):
                parts = ln[1:].split()
                outputs[int(parts[0])] = parts[1:]
                last = max(last, int(parts[0]))
        if run.returncode is None:
            # A watchdog is never a verdict: skip the case that did not come back
            # (an event-less endless loop is leg 1's business) and go on.
            acc.count("cpp_runs_timeout")
            hangs += 1
            if hangs > 2 or time.time() > deadline:
                break
            start = last + 2
            continue
        if run.returncode == 0:
            break
        # died in the case after the last one printed
        dying = last + 1
        restarts += 1
        err = run.stderr
        if "AddressSanitizer" in err:
            kind = "address"
        elif "runtime error:" in err:
            kind = "undefined-behaviour"
        else:
            kind = "abnormal-exit"
        acc.count("cpp_sanitizer_or_crash_reports")
        witness = {"leg": "cpp", "returncode": run.returncode, "stderr": err[:3000]}
        if dying < len(cases):
            i, tape, if_default, expected = cases[dying]
            witness.update(
                {
                    "flow": M.text(flows[i].shape),
                    "shape": _shape_to_json(flows[i].shape),
                    "tape": list(tape),
                    "if_default": if_default,
                    "expected_trace": M.decode(expected),
                    "emitted": flows[i].body,
                }
            )
        chk.violation(f"cpp/sanitizer/{kind}", witness)
        start = dying + 1

    for cid, (i, tape, if_default, expected) in enumerate(cases):
        if cid not in outputs:
            acc.count("cpp_cases_without_output")
            continue
        prep = flows[i]
        got = outputs[cid]
        want = _tokens(expected)
        acc.count("cpp_traces_compared")
        acc.hist("cpp_trace_length", _bucket(len(want)))
        final_segment_empty = len(want) == 0 or want[-1] == "R"
        if got == want + ["R"]:
            acc.hist("cpp_end_of_flow", "last call returns")
            continue
        if got == want + ["X"] and final_segment_empty:
            # Nothing is left to do after the last yield; the emitted code documents
            # "Invalidate state" for that, so a resumption may refuse by throwing.
            acc.hist("cpp_end_of_flow", "resumption after last yield throws (nothing left to do)")
            continue
        assert prep.program is not None
        if got == want + ["X"]:
            acc.hist("cpp_end_of_flow", "last call throws after doing its work")
            key = (
                "cpp/end-of-flow-throws-logic_error/last-statement="
                + prep.program.last_statement
            )
        else:
            j = 0
            full = want + ["R"]
            while j < len(got) and j < len(full) and got[j] == full[j]:
                j += 1
            acc.hist(
                "cpp_first_difference",
                f"expected={_token_kind(full, j)}/cpp={_token_kind(got, j)}",
            )
            key = "cpp/trace-differs"
        report(
            chk,
            key,
            {
                "leg": "cpp",
                "flow": M.text(prep.shape),
                "shape": _shape_to_json(prep.shape),
                "tape": list(tape),
                "if_default": if_default,
                "expected_tokens": " ".join(want + ["R"]),
                "cpp_tokens": " ".join(got[:400]),
                "subroutines": prep.dump,
                "emitted": prep.body,
            },
        )
    acc.count("cpp_flows_executed", len(flows))
    if flows and not chk.samples:
        pick = max(range(len(cases)), key=lambda c: len(cases[c][3]) if c in outputs else -1)
        if pick in outputs:
            i, tape, if_default, expected = cases[pick]
            chk.sample(
                {
                    "leg": "cpp",
                    "flow": M.text(flows[i].shape),
                    "outcome_tape": list(tape),
                    "if_default_after_tape": if_default,
                    "cpp_tokens": " ".join(outputs[pick]),
                    "emitted": flows[i].body,
                }
            )
    return done()


def cpp_batches(chk: harness.Check, nbatches: int, per_batch: int) -> List[List[M.ShapeSeq]]:
    """Pick the flows for the C++ leg: all tiny flows, the pinned one, samples."""
    rng = chk.rng("cpp-selection")
    batches = []  # type: List[List[M.ShapeSeq]]
    small = []  # type: List[M.ShapeSeq]
    for n in (0, 1, 2):
        level = M.Level(n, 2)
        small.extend(level.get(i) for i in range(level.total))
    small.append(PINNED_SHAPE)
    levels = [M.Level(n, 3) for n in (3, 4, 5)]
    for b in range(nbatches):
        batch = []  # type: List[M.ShapeSeq]
        if b == 0:
            batch.extend(small)
        while len(batch) < per_batch:
            r = rng.random()
            if r < 0.6:
                level = rng.choice(levels)
                batch.append(level.get(rng.randrange(level.total)))
            else:
                batch.append(M.random_flow(rng, rng.randint(4, 16), rng.randint(1, 4)))
        batches.append(batch)
    return batches


# ---------------------------------------------------------------------------
# replay and self-test
# ---------------------------------------------------------------------------


def self_test(chk: harness.Check) -> None:
    fm, _ = _modules()
    for shape, tape, if_default, want in SELF_TESTS:
        flow = M.build(shape, fm)
        got = M.decode(M.run_structured(flow, M.Probe(tape, if_default, 0), fm))
        if got != want:
            chk.harness_error(
                f"structured interpreter self-test: {M.text(shape)} tape={tape}: "
                f"{got!r} != {want!r}"
            )
    # the enumerator agrees with the closed-form count
    for n, d in ((3, 1), (3, 2), (4, 2), (4, 3)):
        if M.Level(n, d).total != M.count_seqs(n, d):
            chk.harness_error(f"enumerator count mismatch at n={n} d={d}")
        level = M.Level(n, d)
        if len({level.get(i) for i in range(level.total)}) != level.total:
            chk.harness_error(f"enumerator yields duplicates at n={n} d={d}")


def replay(chk: harness.Check, path: str, argv: Sequence[str]) -> int:
    data = json.loads(pathlib.Path(path).read_text())
    witness = data.get("witness", data)
    shape = _shape_from_json(witness.get("shape"))
    if shape is None:
        chk.mark_inconclusive("replay file holds no flow shape")
        return chk.finish()
    acc = Acc()
    tape = tuple(witness.get("tape", ()))
    if_default = bool(witness.get("if_default", False))
    prep = prepare(chk, shape, acc, "replay")
    if prep is not None:
        compare_leg1(chk, prep, tape, if_default, acc, "replay")
        examine(chk, shape, acc, "replay", 6, 4, chk.rng("replay"), True)
    acc.flush(chk)
    chk.add_distinct([hash(shape), 0])
    gxx = shutil.which("g++")
    if witness.get("leg") == "cpp" and gxx is not None:
        res = task_cpp_batch(argv, 0, [shape], gxx, time.time() + 300)
        res.pop("keys", None)
        chk.merge(res)
    return chk.finish()


# ---------------------------------------------------------------------------
# main
# ---------------------------------------------------------------------------


def main(argv) -> int:
    chk = harness.Check("C26", "exploration", RULE, argv)
    chk.max_samples = 10
    if chk.replay:
        return replay(chk, chk.replay, argv)

    self_test(chk)
    if chk.harness_errors:
        return chk.finish()

    budget = chk.wall_budget(70, 640)
    deadline = chk.t0 + budget
    # the target bound may use a little more than the optional work
    target_deadline = deadline + chk.pick(15, 60)
    if chk.budget is None:
        # the target bound is what the verdict rests on: on a crowded machine it may take
        # up to six budgets (an idle machine needs a third of one)
        target_deadline = chk.t0 + 6 * budget
    workers = min(8, os.cpu_count() or 1)
    depth = chk.pick(2, 3)
    target_size = 5
    # (nodes, nesting <=, only nesting >=, exhaustive outcome length, shards, in target)
    plan = [
        (n, depth, 0, 5 if (n == 5 and chk.tier == "quick") else 6, shards, True)
        for n, shards in ((0, 1), (1, 1), (2, 1), (3, 1), (4, 4), (5, 32))
    ]
    if chk.tier == "thorough":
        # beyond the target bound, as far as the budget allows
        plan.append((6, 2, 0, 5, 96, False))
        plan.append((6, 3, 3, 5, 160, False))
    random_tasks = chk.pick(8, 32)
    random_per_task = chk.pick(250, 2500)
    random_max_size = chk.pick(18, 30)
    cpp_nbatches = chk.pick(5, 14)
    cpp_per_batch = chk.pick(150, 200)

    gxx = shutil.which("g++")
    if gxx is None:
        chk.unavailable_leg("leg 2 (sanitised C++): g++ not found on PATH")

    # warm the enumeration tables before forking so that workers share them
    for n, d, _, _, _, _ in plan:
        M.Level(n, d)

    ctx = multiprocessing.get_context("fork")
    sample_room = {"cpp": 3, "random": 3, "enumerated": 4}
    level_state = {
        (n, d, min_d): {"shards": shards, "completed": 0, "done": 0, "len": ex_len}
        for n, d, min_d, ex_len, shards, _ in plan
    }
    with concurrent.futures.ProcessPoolExecutor(max_workers=workers, mp_context=ctx) as pool:
        futures = []
        if gxx is not None:
            for b, shapes in enumerate(cpp_batches(chk, cpp_nbatches, cpp_per_batch)):
                futures.append(pool.submit(task_cpp_batch, argv, b, shapes, gxx, deadline))

        def submit_levels(in_target: bool) -> None:
            for n, d, min_d, ex_len, shards, target in plan:
                if target != in_target:
                    continue
                for shard in range(shards):
                    futures.append(
                        pool.submit(
                            task_level, argv, n, d, shard, shards, ex_len, min_d,
                            target_deadline if target else deadline,
                        )
                    )

        submit_levels(True)
        for shard in range(random_tasks):
            futures.append(
                pool.submit(
                    task_random, argv, shard, random_per_task, random_max_size, deadline
                )
            )
        submit_levels(False)
        for fut in concurrent.futures.as_completed(futures):
            try:
                res = fut.result()
            except Exception as exc:  # pylint: disable=broad-except
                chk.harness_error(f"worker failed: {type(exc).__name__}: {exc}")
                continue
            keys = array.array("q")
            keys.frombytes(res.pop("keys"))
            chk.add_distinct(keys.tolist())
            task = res.pop("task")
            completed = res.pop("completed")
            done = res.pop("done", 0)
            if task[0] == "level":
                st = level_state[task[1:]]
                st["done"] += done
                if completed:
                    st["completed"] += 1
            kind = task[0] if task[0] in ("cpp", "random") else "enumerated"
            for smp in res.pop("samples"):
                if sample_room[kind] > 0:
                    sample_room[kind] -= 1
                    chk.samples.append(smp)
            res["samples"] = []
            # keep the smallest witness per mechanism
            for key, witness in res["violations"].items():
                have = chk.violations.get(key)
                if have is not None and _witness_size(witness) < _witness_size(have):
                    chk.violations[key] = witness
            chk.merge(res)

    # which bound was completed?
    def complete(n: int, d: int, min_d: int) -> bool:
        st = level_state[(n, d, min_d)]
        return st["completed"] == st["shards"]

    target_complete = all(complete(n, d, m) for n, d, m, _, _, t in plan if t)
    chk.exhaustive = target_complete
    completed_bounds = []
    if target_complete:
        completed_bounds.append(
            {
                "max_nodes": target_size,
                "max_nesting_depth": depth,
                "flows": sum(M.count_seqs(n, depth) for n in range(0, target_size + 1)),
            }
        )
        if chk.tier == "thorough" and complete(6, 2, 0):
            completed_bounds.append(
                {
                    "max_nodes": 6,
                    "max_nesting_depth": 2,
                    "flows": sum(M.count_seqs(n, 2) for n in range(0, 7)),
                }
            )
            if complete(6, 3, 3):
                completed_bounds.append(
                    {
                        "max_nodes": 6,
                        "max_nesting_depth": 3,
                        "flows": sum(M.count_seqs(n, 3) for n in range(0, 7)),
                    }
                )
    chk.extra["bounds"] = {
        "exhaustive_within_target_bound": target_complete,
        "target_bound": {"max_nodes": target_size, "max_nesting_depth": depth},
        "completed_bounds": completed_bounds,
        "levels": [
            {
                "nodes": n,
                "nesting_depth": f"{max(m, 0)}..{d}",
                "flows_in_level": M.count_seqs(n, d)
                - (M.count_seqs(n, m - 1) if m > 0 else 0),
                "flows_examined": level_state[(n, d, m)]["done"],
                "complete": complete(n, d, m),
                "outcome_sequences": f"all feasible sequences of length <= {ex_len} "
                "(afterwards loops end and ifs see false)",
            }
            for n, d, m, ex_len, _, _ in plan
        ],
        "not_enumerated": "larger flows are only sampled (seeded random flows of "
        f"6..{random_max_size} nodes, nesting <= 5, random outcome tapes up to 40 long)",
    }
    if not target_complete:
        chk.mark_inconclusive(
            f"enumeration bound (<= {target_size} nodes, nesting <= {depth}) was not "
            "completed within the budget"
        )
    chk.require_min("leg1_traces_compared", chk.pick(200000, 1000000))
    chk.require_min("static_label_and_target_checks", chk.pick(20000, 100000))
    chk.require_min("flows_nontrivial", chk.pick(5000, 50000))
    if gxx is not None and chk.counters.get("cpp_traces_compared", 0) < chk.pick(300, 3000):
        # Leg 1 decides the property as stated; leg 2 is an additional witness.
        chk.unavailable_leg(
            "leg 2 (sanitised C++): only "
            f"{chk.counters.get('cpp_traces_compared', 0)} traces compared within the "
            "budget (compile/run watchdogs: "
            f"{chk.counters.get('cpp_batches_compile_timeout', 0)} compile, "
            f"{chk.counters.get('cpp_runs_timeout', 0)} run, "
            f"{chk.counters.get('cpp_batches_skipped_for_budget', 0)} skipped)"
        )
    chk.assume(
        "condition outcomes are scripted by one tape consumed in evaluation order; after "
        "the tape loop conditions are false (termination) and if-conditions take a "
        "default, so every (flow, outcome sequence) pair is a finite run"
    )
    chk.assume(
        "C++ leg: when nothing is left to do after the last yield, a further Execute() "
        "may throw std::logic_error (the emitted code documents 'Invalidate state'); "
        "a call that still had work to do must return normally"
    )
    return chk.finish()
