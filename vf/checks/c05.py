"""C05 — intermediate model faithfully resolves inheritance."""
import collections
import concurrent.futures
from typing import Any, Dict, List, Tuple

from vf import corpus, driver, harness, mmgen, pyexec

RULE = (
    "accepted meta-models with random class DAGs (forced diamonds, multiple inheritance, "
    "chains, constrained-primitive chains, model type set at various heights; corpus "
    "models too); the symbol table produced by the real front end is walked and compared "
    "with an independent ast-only reference (transitive closure of declared bases etc.); "
    "distinct_nontrivial = distinct canonical DAG shapes with >= 1 class having >= 2 bases "
    "or inheritance depth >= 2"
)


def dag_shape(pm: pyexec.PyModel) -> Tuple:
    names = [n for n in pm.order if not pm.is_enum(n)]
    index = {n: i for i, n in enumerate(names)}
    return tuple(
        (pm.classes[n].abstract, tuple(sorted(index[b] for b in pm.classes[n].bases if b in index)))
        for n in names
    )


def dups(seq: List[str]) -> List[str]:
    return sorted(k for k, v in collections.Counter(seq).items() if v > 1)


def check_model(chk: harness.Check, name: str, text: str) -> None:
    loaded, error, exc = driver.load_inprocess(text)
    if loaded is None:
        chk.count("models_rejected_or_crashed")
        return
    try:
        pm = pyexec.PyModel(text, execute=False)
    except Exception:
        chk.count("reference_failed")
        return
    from aas_core_codegen import intermediate

    symbol_table, _ = loaded
    chk.count("models_checked")

    def violation(key: str, cls: str, **detail: Any) -> None:
        chk.violation(key, dict(model=name, cls=cls, text=text, **detail))

    nontrivial_box = [False]

    def inspect(symbol_table: Any, tag: str) -> None:
        """All hierarchy facts of one symbol table (``tag``: fresh or after a pickle round trip)."""

        def violation(key: str, cls: str, **detail: Any) -> None:  # noqa: F811
            chk.violation(key + tag, dict(model=name, cls=cls, text=text, **detail))

        nontrivial = False
        order = [t.name for t in symbol_table.our_types_topologically_sorted]
        position = {n: i for i, n in enumerate(order)}
        if sorted(order) != sorted(
            t.name for t in symbol_table.our_types
            if not isinstance(t, intermediate.Enumeration)
        ):
            violation("topological-order/not-a-permutation-of-our-types", "", order=order)

        for our_type in symbol_table.our_types:
            cname = str(our_type.name)
            ref = pm.classes.get(cname)
            if ref is None:
                violation("our-type-unknown-to-reference", cname)
                continue
            if isinstance(our_type, intermediate.Enumeration):
                continue
            chk.count("types_checked")
            # topological order
            for base in ref.bases:
                if base in position and position[base] > position[cname]:
                    violation("topological-order/child-before-parent", cname, base=base, order=order)

            if isinstance(our_type, intermediate.ConstrainedPrimitive):
                got = [str(a.name) for a in our_type.ancestors]
                if dups(got):
                    violation("constrained-primitive/ancestors/duplicates", cname, got=got)
                if set(got) != set(pm.ancestors(cname)):
                    violation("constrained-primitive/ancestors/wrong-set", cname, got=got,
                              expected=pm.ancestors(cname))
                got = [str(a.name) for a in our_type.descendants]
                if dups(got):
                    violation("constrained-primitive/descendants/duplicates", cname, got=got)
                if set(got) != set(pm.descendants(cname)):
                    violation("constrained-primitive/descendants/wrong-set", cname, got=got,
                              expected=pm.descendants(cname))
                if our_type.constrainee.value != pm.primitive_of(cname):
                    violation("constrained-primitive/constrainee", cname,
                              got=our_type.constrainee.value, expected=pm.primitive_of(cname))
                got_inv = [(str(i.specified_for.name), i.description) for i in our_type.invariants]
                exp_inv = [(a, i.description) for a, i in pm.all_invariants(cname)]
                if collections.Counter(got_inv) != collections.Counter(exp_inv):
                    violation("constrained-primitive/invariants/wrong-multiset", cname,
                              got=got_inv, expected=exp_inv)
                continue

            assert isinstance(our_type, (intermediate.AbstractClass, intermediate.ConcreteClass))
            exp_anc = pm.ancestors(cname)
            if len(ref.bases) >= 2 or any(pm.classes[b].bases for b in ref.bases if b in pm.classes):
                nontrivial = True
            # abstract/concrete
            if isinstance(our_type, intermediate.AbstractClass) != ref.abstract:
                violation("abstractness", cname)
            # ancestors
            got = [str(a.name) for a in our_type.ancestors]
            if dups(got):
                violation("ancestors/duplicates", cname, got=got, duplicated=dups(got))
            if set(got) != set(exp_anc):
                violation("ancestors/wrong-set", cname, got=got, expected=exp_anc)
            got = [str(a.name) for a in our_type.inheritances]
            if got != ref.bases:
                violation("inheritances/differ-from-declared-bases", cname, got=got, expected=ref.bases)
            # descendants
            got = [str(a.name) for a in our_type.descendants]
            if dups(got):
                violation("descendants/duplicates", cname, got=got, duplicated=dups(got))
            if set(got) != set(pm.descendants(cname)):
                violation("descendants/wrong-set", cname, got=got, expected=pm.descendants(cname))
            got = [str(a.name) for a in our_type.concrete_descendants]
            if dups(got):
                violation("concrete-descendants/duplicates", cname, got=got, duplicated=dups(got))
            if set(got) != set(pm.concrete_descendants(cname)):
                violation("concrete-descendants/wrong-set", cname, got=got,
                          expected=pm.concrete_descendants(cname))

            # the id-based sets behind is_subclass_of() agree with the lists
            for attr, members in (
                ("ancestor_id_set", our_type.ancestors),
                ("inheritance_id_set", our_type.inheritances),
                ("descendant_id_set", our_type.descendants),
            ):
                ids = getattr(our_type, attr, None)
                if ids is not None and set(ids) != {id(m) for m in members}:
                    violation(f"{attr}/differs-from-the-list", cname,
                              listed=[str(m.name) for m in members], n_ids=len(ids))
            for ancestor in our_type.ancestors:
                if not our_type.is_subclass_of(ancestor):
                    violation("is_subclass_of/false-for-an-ancestor", cname, ancestor=str(ancestor.name))
            chk.count("id_sets_checked")

            # members: properties, invariants, methods
            def check_members(kind: str, got_members: List[Tuple[str, str]], expected: List[Tuple[str, str]]):
                # entries are (declaring class, member key)
                if collections.Counter(got_members) != collections.Counter(expected):
                    if dups([f"{a}:{b}" for a, b in got_members]):
                        violation(f"{kind}/duplicates", cname, got=got_members, expected=expected)
                    else:
                        violation(f"{kind}/wrong-set", cname, got=got_members, expected=expected)
                    return
                seen_own = False
                for i, (decl, key) in enumerate(got_members):
                    if decl == cname:
                        seen_own = True
                    elif seen_own:
                        violation(f"{kind}/inherited-after-own", cname, got=got_members)
                        break
                # an ancestor's members come before its descendant's members
                first_index: Dict[str, int] = {}
                last_index: Dict[str, int] = {}
                for i, (decl, _) in enumerate(got_members):
                    first_index.setdefault(decl, i)
                    last_index[decl] = i
                for a in first_index:
                    for b in first_index:
                        if a != b and a in pm.ancestors(b) and last_index[a] > first_index[b]:
                            violation(f"{kind}/descendant-members-before-ancestor-members", cname,
                                      got=got_members, ancestor=a, descendant=b)
                            return

            check_members(
                "properties",
                [(str(p.specified_for.name), str(p.name)) for p in our_type.properties],
                [(a, p.name) for a, p in pm.all_props(cname)],
            )
            check_members(
                "invariants",
                [(str(i.specified_for.name), i.description) for i in our_type.invariants],
                [(a, i.description) for a, i in pm.all_invariants(cname)],
            )
            exp_methods = []
            seen = set()
            for anc in exp_anc + [cname]:
                for m in pm.classes[anc].own_methods:
                    if m.name not in seen:
                        seen.add(m.name)
                        exp_methods.append((anc, m.name))
            check_members(
                "methods",
                [(str(m.specified_for.name), str(m.name)) for m in our_type.methods],
                exp_methods,
            )

            # constructor
            from aas_core_codegen.intermediate import construction

            inlined = our_type.constructor.inlined_statements
            not_assign = [type(s).__name__ for s in inlined if not isinstance(s, construction.AssignArgument)]
            if not_assign:
                violation("constructor/inlined-statement-is-not-an-assignment", cname, kinds=not_assign)
            else:
                assigned = [str(s.name) for s in inlined]
                prop_names = [p.name for _, p in pm.all_props(cname)]
                # only judge when the reference sees that every constructor in the chain
                # assigns its own properties (true for generated and corpus models)
                counter = collections.Counter(assigned)
                if any(v > 1 for v in counter.values()):
                    violation("constructor/property-assigned-more-than-once", cname,
                              assigned=assigned, properties=prop_names)
                elif set(assigned) != set(prop_names):
                    violation("constructor/assigned-properties-differ", cname,
                              assigned=assigned, properties=prop_names)
            chk.count("constructors_checked")

            # interface
            has_interface = our_type.interface is not None
            expected_interface = ref.abstract or len(pm.descendants(cname)) > 0
            if has_interface != expected_interface:
                violation("interface/existence", cname, got=has_interface, expected=expected_interface)

            # model type
            got_mt = bool(our_type.serialization.with_model_type)
            exp_mt = pm.with_model_type(cname)
            if got_mt != exp_mt:
                violation("with-model-type/propagation", cname, got=got_mt, expected=exp_mt)
        nontrivial_box[0] = nontrivial_box[0] or nontrivial

    inspect(symbol_table, "")
    # what a cached run works with: the same table after a pickle round trip
    import pickle

    try:
        revived = pickle.loads(pickle.dumps(symbol_table))
    except Exception as err:  # noqa
        chk.violation("pickle/symbol-table-does-not-round-trip", dict(model=name, text=text, error=repr(err)[:300]))
    else:
        chk.count("models_checked_after_pickle_round_trip")
        inspect(revived, "/after-pickle")
    nontrivial = nontrivial_box[0]

    shape = dag_shape(pm)
    chk.case(
        distinct_key=shape if nontrivial else None,
        sample={
            "model": name,
            "classes": {
                n: {"bases": pm.classes[n].bases, "abstract": pm.classes[n].abstract}
                for n in pm.order if not pm.is_enum(n)
            },
        } if nontrivial and len(chk.samples) < 4 else None,
    )


TARGETED = [
    (
        "targeted/bare-serialization-decorator",
        mmgen.IMPORTS + '''
@abstract
@serialization(with_model_type=True)
class Shape(DBC):
    name: str

    def __init__(self, name: str) -> None:
        self.name = name


@serialization()
class Polygon(Shape):
    corners: int

    def __init__(self, name: str, corners: int) -> None:
        Shape.__init__(self, name=name)
        self.corners = corners


class Triangle(Polygon):
    def __init__(self, name: str, corners: int) -> None:
        Polygon.__init__(self, name=name, corners=corners)


@serialization()
class Circle(Shape):
    radius: int

    def __init__(self, name: str, radius: int) -> None:
        Shape.__init__(self, name=name)
        self.radius = radius


class Holder(DBC):
    some_number: int

    def __init__(self, some_number: int) -> None:
        self.some_number = some_number


__version__ = "dummy"
__xml_namespace__ = "https://dummy.com"
''',
    ),
    (
        "targeted/bare-serialization-decorator-under-a-used-class",
        mmgen.IMPORTS + '''
@abstract
@serialization(with_model_type=True)
class Shape(DBC):
    name: str

    def __init__(self, name: str) -> None:
        self.name = name


@serialization()
class Polygon(Shape):
    corners: int

    def __init__(self, name: str, corners: int) -> None:
        Shape.__init__(self, name=name)
        self.corners = corners


@serialization()
class Triangle(Polygon):
    def __init__(self, name: str, corners: int) -> None:
        Polygon.__init__(self, name=name, corners=corners)


class Holder(DBC):
    shapes: List[Shape]
    main_polygon: Optional[Polygon]

    def __init__(self, shapes: List[Shape], main_polygon: Optional[Polygon] = None) -> None:
        self.shapes = shapes
        self.main_polygon = main_polygon


__version__ = "dummy"
__xml_namespace__ = "https://dummy.com"
''',
    ),
]


def lattice_model(rng) -> str:
    """
    A layered hierarchy in which classes of one layer inherit random subsets of the layer
    above, so that an ancestor is reached over many, unevenly shared paths (overlapping
    diamonds); every class declares one property and one invariant and calls all its
    super constructors.
    """
    layers = []
    names = iter(f"Node_{chr(ord('a') + i)}{j}" for i in range(26) for j in range(1))
    n_layers = rng.choice([3, 3, 4])
    all_classes = []  # (name, bases, abstract)
    for depth in range(n_layers):
        width = rng.choice([1, 2, 3]) if depth == 0 else rng.choice([2, 3, 4])
        layer = []
        for _ in range(width):
            name = next(names)
            bases = []
            if depth > 0:
                pool = layers[depth - 1] + (layers[depth - 2] if depth > 1 and rng.random() < 0.3 else [])
                k = rng.randint(1, min(3, len(pool)))
                bases = rng.sample(pool, k)
            layer.append(name)
            all_classes.append((name, bases, depth < n_layers - 1 and rng.random() < 0.6))
        layers.append(layer)

    by_name = {name: bases for name, bases, _ in all_classes}

    def ancestors(name, seen=None):
        result = []
        for base in by_name[name]:
            for anc in ancestors(base) + [base]:
                if anc not in result:
                    result.append(anc)
        return result

    def mro_ok(bases):
        made = {}

        def make(n):
            if n not in made:
                made[n] = type(n, tuple(make(b) for b in by_name[n]) or (object,), {})
            return made[n]

        try:
            type("Probe", tuple(make(b) for b in bases), {})
            return True
        except TypeError:
            return False

    out = []
    for name, bases, abstract in all_classes:
        # drop bases that are ancestors of other bases (Python MRO) and check linearisation
        bases = [b for b in bases if not any(b in ancestors(o) for o in bases if o != b)]
        while not mro_ok(bases) and len(bases) > 1:
            bases = bases[:-1]
        by_name[name] = bases
        prop = f"prop_{name.lower()}"
        props = [f"prop_{a.lower()}" for a in ancestors(name)] + [prop]
        if abstract:
            out.append("@abstract")
        if not bases and rng.random() < 0.5:
            out.append("@serialization(with_model_type=True)")
        out.append(f'@invariant(lambda self: len(self.{prop}) > 0, "The {prop} must not be empty.")')
        out.append(f"class {name}({', '.join(bases + ['DBC'])}):")
        out.append(f"    {prop}: str")
        out.append("")
        out.append("    def __init__(self, " + ", ".join(f"{p}: str" for p in props) + ") -> None:")
        for base in bases:
            bprops = [f"prop_{a.lower()}" for a in ancestors(base)] + [f"prop_{base.lower()}"]
            out.append(f"        {base}.__init__(self, " + ", ".join(f"{p}={p}" for p in bprops) + ")")
        out.append(f"        self.{prop} = {prop}")
        out.append("")
        out.append("")
    out.append('__version__ = "V0.1"')
    out.append('__xml_namespace__ = "https://dummy.com/lattice"')
    return "\n".join(out) + "\n"


def hierarchy_profile(i: int) -> mmgen.Profile:
    return mmgen.Profile(
        n_classes=(3, 12),
        max_bases=3,
        p_diamond=0.6,
        p_abstract=0.4,
        max_props=3,
        p_invariant=0.8,
        expr_depth=1,
        n_cprims=(0, 5),
        p_impl_method=0.3,
        p_model_type=0.5,
    )


def worker(args) -> Dict[str, Any]:
    argv, shard, n_shards, n_models = args[:-1]
    mins = args[-1]
    chk = harness.Check("C05", "exploration", RULE, argv)
    chk.set_worker_minimums(mins, n_shards)
    budget = chk.wall_budget(120, 900)
    models: List[Tuple[str, str]] = []
    if shard == 0:
        models += TARGETED
        models += [m for m in corpus.models() if "unexpected" not in m[0]]
    for i in range(shard, n_models, n_shards):
        m = mmgen.generate(chk.rng("model", i), hierarchy_profile(i))
        for k, v in m.features.items():
            if k in ("diamond", "multiple-inheritance", "cprim-chain", "model-type-forced"):
                chk.hist("mmg_features", k, v)
        models.append((f"mmg/{chk.seed}/{i}", m.text))
        if i % 2 == 0:
            models.append((f"lattice/{chk.seed}/{i}", lattice_model(chk.rng("lattice", i))))
    for idx, (name, text) in enumerate(models):
        if chk.should_stop(budget):
            chk.count("models_skipped_for_budget", len(models) - idx)
            break
        check_model(chk, name, text)
    return chk.export()


def main(argv) -> int:
    chk = harness.Check("C05", "exploration", RULE, argv)
    n_models = chk.pick(300, 8000)
    n_shards = 12
    mins = {
        "models_checked": chk.pick(100, 800),
        "constructors_checked": chk.pick(300, 2500),
    }
    with concurrent.futures.ProcessPoolExecutor(max_workers=n_shards) as pool:
        jobs = [pool.submit(worker, (list(argv), s, n_shards, n_models, mins)) for s in range(n_shards)]
        for job in jobs:
            try:
                chk.merge(job.result())
            except Exception as err:
                chk.harness_error(f"worker failed: {err!r}")
    if chk.tier == "thorough":
        check_model(chk, "corpus/v3", corpus.v3())
    for counter_name, minimum in mins.items():
        chk.require_min(counter_name, minimum)
    return chk.finish()
