"""C25 — the snippet directory is loaded exactly."""
import hashlib
import io
import json
import os
import pathlib
import random
import shutil
import string
from typing import Any, Dict, List, Optional, Tuple

from vf import corpus, driver, env, harness, hooks

RULE = (
    "generated directory trees (nesting 0-4; valid / invalid / hidden names for files "
    "and directories; empty, blank, CRLF, BOM, non-ASCII, NUL, large and invalid-UTF-8 "
    "contents; symlinks to regular files) read by the real "
    "specific_implementations.read_from_directory, directly and through main.execute; "
    "a tree is non-trivial when the independent os.walk finds >= 1 non-hidden regular "
    "file outside hidden directories; distinct = distinct multiset of "
    "(name-category path, entry kind, content category)"
)

# ---------------------------------------------------------------------------
# Oracle: an independent walk over the directory as it is on disk.
# ---------------------------------------------------------------------------

_FIRST = set(string.ascii_letters + "_")
_REST = set(string.ascii_letters + string.digits + "_.")


def segment_ok(segment: str) -> bool:
    """A key segment is an identifier-like name that may contain dots after the start."""
    return (
        len(segment) > 0
        and segment[0] in _FIRST
        and all(c in _REST for c in segment[1:])
    )


def key_ok(key: str) -> bool:
    return all(segment_ok(s) for s in key.split("/"))


class Expectation:
    def __init__(self) -> None:
        self.files: Dict[str, bytes] = {}  # relative posix path -> raw content
        self.ignored_hidden_file: List[str] = []
        self.ignored_below_hidden_dir: List[str] = []
        self.invalid_key: List[str] = []
        self.invalid_utf8: List[str] = []
        self.accept: Dict[str, Tuple[str, str]] = {}  # key -> (raw, newline-translated)
        self.symlinks = 0
        self.nested = 0

    @property
    def offending(self) -> List[str]:
        return self.invalid_key + [p for p in self.invalid_utf8 if p not in self.invalid_key]


def walk_expectation(root: str) -> Expectation:
    exp = Expectation()
    for dirpath, dirnames, filenames in os.walk(root):
        hidden_dirs = [d for d in dirnames if d.startswith(".")]
        dirnames[:] = [d for d in dirnames if not d.startswith(".")]
        for hd in hidden_dirs:
            for sub, _, subfiles in os.walk(os.path.join(dirpath, hd)):
                for fn in subfiles:
                    rel = os.path.relpath(os.path.join(sub, fn), root)
                    exp.ignored_below_hidden_dir.append(rel.replace(os.sep, "/"))
        for fn in filenames:
            full = os.path.join(dirpath, fn)
            rel = os.path.relpath(full, root).replace(os.sep, "/")
            if fn.startswith("."):
                exp.ignored_hidden_file.append(rel)
                continue
            if not os.path.isfile(full):
                continue
            if os.path.islink(full):
                exp.symlinks += 1
            if "/" in rel:
                exp.nested += 1
            with open(full, "rb") as fid:
                exp.files[rel] = fid.read()
    for rel, raw in exp.files.items():
        if not key_ok(rel):
            exp.invalid_key.append(rel)
        try:
            text = raw.decode("utf-8")
        except UnicodeDecodeError:
            exp.invalid_utf8.append(rel)
            continue
        translated = text.replace("\r\n", "\n").replace("\r", "\n")
        exp.accept[rel] = (text.strip(), translated.strip())
    return exp


def _splits_lines(text: str) -> bool:
    parts = text.splitlines()
    return len(parts) != 1 or parts[0] != text


def _names(haystack: str, root: str, rel: str) -> bool:
    """Does ``haystack`` contain the relative or full path, verbatim or escaped?"""
    for text in (rel, os.path.join(root, rel)):
        if text in haystack or repr(text)[1:-1] in haystack or ascii(text)[1:-1] in haystack:
            return True
    return False


def judge(
    chk: harness.Check,
    origin: str,
    root: str,
    exp: Expectation,
    result: Any,
    err: Optional[BaseException],
    witness: Dict[str, Any],
) -> List[str]:
    """Compare one observed call with the expectation; return the mechanisms flagged."""
    flagged: List[str] = []
    _judge(chk, origin, root, exp, result, err, witness, flagged)
    return flagged


def _judge(
    chk: harness.Check,
    origin: str,
    root: str,
    exp: Expectation,
    result: Any,
    err: Optional[BaseException],
    witness: Dict[str, Any],
    flagged: List[str],
) -> bool:

    def bad(mechanism: str, /, **more: Any) -> bool:
        w = dict(witness)
        w.update(more)
        w["origin"] = origin
        chk.violation(mechanism, w)
        flagged.append(mechanism)
        return False

    if err is not None:
        return bad(
            f"raised/{harness.crash_signature(err)}",
            exception=repr(err)[:1000],
            trace=harness.format_exc(err),
        )
    if (
        not isinstance(result, tuple)
        or len(result) != 2
        or (result[0] is None) == (result[1] is None)
    ):
        return bad("result-shape", result=repr(result)[:600])
    mapping, errors = result
    ignored_below = exp.ignored_below_hidden_dir

    if errors is not None:
        if not isinstance(errors, list) or not all(isinstance(e, str) for e in errors):
            return bad("result-shape", result=repr(result)[:600])
        ok = True
        offending = exp.offending
        if not offending:
            explained = len(errors) > 0 and all(
                any(_names(e, root, p) for p in ignored_below) for e in errors
            )
            if explained:
                return bad(
                    "hidden-dir-not-ignored/error-returned",
                    errors=errors[:5],
                    files_below_hidden_dirs=ignored_below[:10],
                )
            return bad("errors/unexpected", errors=errors[:5])
        for p in exp.invalid_key:
            if not any(_names(e, root, p) for e in errors):
                ok = bad("errors/file-not-named/invalid-key", file=p, errors=errors[:8])
        for p in exp.invalid_utf8:
            if p in exp.invalid_key:
                continue  # one reason suffices to name the file
            if not any(_names(e, root, p) for e in errors):
                ok = bad("errors/file-not-named/invalid-utf8", file=p, errors=errors[:8])
        for e in errors:
            if any(_names(e, root, p) for p in offending):
                continue
            if any(_names(e, root, p) for p in ignored_below):
                ok = bad(
                    "hidden-dir-not-ignored/error-returned",
                    errors=[e],
                    files_below_hidden_dirs=ignored_below[:10],
                )
            elif any(_names(e, root, p) for p in exp.ignored_hidden_file):
                ok = bad("hidden-file-not-ignored/error-returned", errors=[e])
        return ok

    # a mapping was returned
    if not isinstance(mapping, dict) and not hasattr(mapping, "items"):
        return bad("result-shape", result=repr(result)[:600])
    if exp.invalid_key:
        return bad(
            "errors/missing/invalid-key-accepted",
            invalid_keys=exp.invalid_key[:8],
            returned_keys=sorted(map(str, mapping.keys()))[:20],
        )
    if exp.invalid_utf8:
        return bad(
            "errors/missing/invalid-utf8-accepted",
            files=exp.invalid_utf8[:8],
            returned_keys=sorted(map(str, mapping.keys()))[:20],
        )
    ok = True
    got = {str(k): v for k, v in mapping.items()}
    for key in exp.accept:
        if key not in got:
            kind = "nested" if "/" in key else "top-level"
            if os.path.islink(os.path.join(root, key)):
                kind = "symlink"
            ok = bad(f"mapping/missing-key/{kind}", key=key, returned_keys=sorted(got)[:20])
    for key in got:
        if key in exp.accept:
            continue
        full = os.path.join(root, key)
        if key in ignored_below:
            kind = "below-hidden-dir"
        elif key in exp.ignored_hidden_file:
            kind = "hidden-file"
        elif os.path.isdir(full):
            kind = "directory"
        elif not os.path.lexists(full):
            kind = "not-a-relative-path"
        else:
            kind = "other"
        ok = bad(f"mapping/extra-key/{kind}", key=key, expected_keys=sorted(exp.accept)[:20])
    for key, (raw, translated) in exp.accept.items():
        if key not in got:
            continue
        value = got[key]
        if not isinstance(value, str):
            ok = bad("mapping/content/not-str", key=key, value=repr(value)[:200])
            continue
        if value == translated:
            chk.hist("newline_handling", "same" if raw == translated else "universal")
        elif value == raw:
            chk.hist("newline_handling", "verbatim")
        else:
            if value.strip() in (raw, translated):
                kind = "not-stripped"
            else:
                kind = "differs"
            ok = bad(
                f"mapping/content/{kind}",
                key=key,
                got=value[:300],
                expected=raw[:300],
                file_bytes=exp.files[key][:300],
            )
    return ok


# ---------------------------------------------------------------------------
# Workload: tree specifications.
# ---------------------------------------------------------------------------

VALID = [
    "a", "Types", "snippet.txt", "_x", "A1.b.c", "x..y", "a.", "Z_9", "body.cpp",
    "Verification", "is_ok.py", "__init__", "a.b", "q", "B_2.cs", "noext",
]
INVALID = [
    "1abc", "a b", "a-b", " lead", "trail ", "ünï.txt", "名前", "a\nb",
    "a\n", "-", "a+b", "a$", "9", "a:b", "a\\b", "a\tb", "é", "á", "0.txt",
    "my-file.cs", "with space.txt", "\U0001f600.ts", "a~", "#a", "a,b", "a\r",
    " x", "x y",
]
HIDDEN = [
    ".hidden", ".git", ".gitignore", ".a b", ".1", "..x", ".ü", ".DS_Store",
    ".a", ".Types", ".snippet.txt", ".-", ".idea",
]
UNDECODABLE_NAMES = [b"\xff\xfe.txt", b"a\xe9b", b"\xc3"]

BAD_UTF8 = [
    b"\xff", b"\xfe", b"\xc3", b"\xe2\x82", b"\xed\xa0\x80", b"\xc0\xaf",
    b"\xf8\x88\x80\x80\x80", b"\x80", b"\xf4\x90\x80\x80", b"\xe9",
]
PAD = [b"", b" ", b"\n", b"\t", b"\r\n", b"  \n\n", b"\r", b"\x0b", b"\x0c", b" \t\r\n ", b"\n\n\n"]
CORES = [
    "x", "dummy", "// body", "def f(self):\n    return None", "a b  c", "line1\nline2\n\nline4",
    "ünïcödé", "astral \U0001f600 end", "nul\x00inside", "tab\tinside",
    "{\n  \"a\": 1\n}", "x y", "x y", "#include <x>\n#define A \\\n  1",
    "q" * 300,
]

Chunk = Tuple[bytes, int]


def content_bytes(chunks: List[Chunk]) -> bytes:
    return b"".join(piece * n for piece, n in chunks)


def gen_content(rng: random.Random) -> Tuple[str, List[Chunk]]:
    """Return (category, chunks)."""
    r = rng.random()
    if r < 0.06:
        return "empty", []
    if r < 0.13:
        return "blank", [(rng.choice(PAD[1:]), rng.choice([1, 2, 5]))]
    if r < 0.22:
        lines = [rng.choice(["a", "bb", "", "c d", "ä"]) for _ in range(rng.randint(2, 5))]
        if not lines[0]:
            lines[0] = "s"
        if not lines[-1]:
            lines[-1] = "e"
        body = "\r\n".join(lines).encode("utf-8")
        return "crlf", [(rng.choice(PAD), 1), (body, 1), (rng.choice([b"\r\n", b"", b"\r\n\r\n"]), 1)]
    if r < 0.26:
        return "lone-cr", [(b"first\rsecond\r\rthird", 1), (rng.choice(PAD), 1)]
    if r < 0.33:
        core = rng.choice(CORES).encode("utf-8")
        return "bom", [(b"\xef\xbb\xbf", 1), (rng.choice([b"", b" ", b"\n"]), 1), (core, 1), (rng.choice(PAD), 1)]
    if r < 0.35:
        return "bom-only", [(b"\xef\xbb\xbf", 1)]
    if r < 0.53:
        bad = rng.choice(BAD_UTF8)
        where = rng.choice(["start", "middle", "end", "only", "far", "boundary"])
        if where == "start":
            return "bad-utf8/start", [(bad, 1), (b"tail text", 1)]
        if where == "middle":
            return "bad-utf8/middle", [(b"head ", 1), (bad, 1), (b" tail", 1)]
        if where == "end":
            return "bad-utf8/end", [(b"head text", 1), (bad, 1)]
        if where == "only":
            return "bad-utf8/only", [(bad, 1)]
        if where == "far":
            return "bad-utf8/far", [(b"0123456789abcdef", rng.choice([600, 5000])), (bad, 1), (b"\n", 1)]
        offset = rng.choice([4095, 4096, 8191, 8192, 8193, 65535, 65536])
        return "bad-utf8/boundary", [(b"y", offset), (bad, 1), (b"z", rng.choice([0, 1, 10]))]
    if r < 0.57:
        return "large", [(rng.choice(PAD), 1), (b"0123456789abcde\n", rng.choice([700, 9000])), (b"end", 1), (rng.choice(PAD), 1)]
    if r < 0.60:
        # a multi-byte character straddling a typical buffer boundary
        offset = rng.choice([4095, 8191, 8190, 65535])
        return "multibyte-at-boundary", [(b"y", offset), ("\U0001f600".encode("utf-8"), 2), (b" ", 3)]
    core = rng.choice(CORES).encode("utf-8")
    return "padded-text", [(rng.choice(PAD), rng.choice([1, 1, 3])), (core, 1), (rng.choice(PAD), rng.choice([1, 1, 3]))]


def gen_name(rng: random.Random, weights: Tuple[float, float, float]) -> Tuple[str, bytes]:
    """Return (category, encoded name)."""
    valid_w, invalid_w, hidden_w = weights
    r = rng.random() * (valid_w + invalid_w + hidden_w)
    if r < valid_w:
        name = rng.choice(VALID)
        if rng.random() < 0.3:
            name = name + rng.choice(["_1", ".x", "9", "Z"])
        return "valid", name.encode("utf-8")
    if r < valid_w + invalid_w:
        if rng.random() < 0.04:
            return "invalid/undecodable", rng.choice(UNDECODABLE_NAMES)
        return "invalid", rng.choice(INVALID).encode("utf-8")
    return "hidden", rng.choice(HIDDEN).encode("utf-8")


class Entry:
    def __init__(
        self,
        path: List[bytes],
        kind: str,
        chunks: Optional[List[Chunk]] = None,
        target: Optional[List[bytes]] = None,
        outside: bool = False,
        shape: Tuple = (),
    ) -> None:
        self.path = path
        self.kind = kind  # "dir" | "file" | "symlink"
        self.chunks = chunks or []
        self.target = target
        self.outside = outside
        self.shape = shape

    def to_json(self) -> Dict[str, Any]:
        d: Dict[str, Any] = {
            "path": [p.hex() for p in self.path],
            "shown": "/".join(os.fsdecode(p) for p in self.path),
            "kind": self.kind,
        }
        if self.kind == "file":
            d["chunks"] = [[piece.hex(), n] for piece, n in self.chunks]
        if self.kind == "symlink":
            d["target"] = [p.hex() for p in (self.target or [])]
            d["outside"] = self.outside
        return d

    @staticmethod
    def from_json(d: Dict[str, Any]) -> "Entry":
        return Entry(
            [bytes.fromhex(p) for p in d["path"]],
            d["kind"],
            [(bytes.fromhex(h), int(n)) for h, n in d.get("chunks", [])],
            [bytes.fromhex(p) for p in d.get("target", [])] or None,
            bool(d.get("outside", False)),
        )


def gen_tree(rng: random.Random, profile: str) -> List[Entry]:
    """
    Generate the entries of one tree.

    Profiles: "clean" (valid and hidden *files* only), "hidden" (valid names plus hidden
    files and hidden directories), "dirty" (everything), "flat".
    """
    if profile == "clean":
        file_w, dir_w = (0.8, 0.0, 0.2), (1.0, 0.0, 0.0)
    elif profile == "hidden":
        file_w, dir_w = (0.7, 0.0, 0.3), (0.6, 0.0, 0.4)
    elif profile == "invalid":
        file_w, dir_w = (0.6, 0.25, 0.15), (0.7, 0.3, 0.0)
    else:
        file_w, dir_w = (0.55, 0.25, 0.2), (0.55, 0.2, 0.25)
    allow_bad_content = profile in ("dirty", "invalid")
    entries: List[Entry] = []
    taken = set()
    outside_targets: List[Tuple[List[bytes], str]] = []
    regular_files: List[Tuple[List[bytes], str]] = []

    def content(cat_ok_bad: bool) -> Tuple[str, List[Chunk]]:
        for _ in range(20):
            cat, chunks = gen_content(rng)
            if cat.startswith("bad-utf8") and not cat_ok_bad:
                continue
            return cat, chunks
        return "empty", []

    def fill(prefix: List[bytes], cats: Tuple[str, ...], depth: int, max_depth: int) -> None:
        n_files = rng.choice([0, 1, 1, 2, 3, 5]) if depth > 0 else rng.choice([0, 1, 2, 3, 4])
        for _ in range(n_files):
            cat, name = gen_name(rng, file_w)
            path = prefix + [name]
            if tuple(path) in taken:
                continue
            taken.add(tuple(path))
            if rng.random() < 0.12:
                # a symlink to a regular file, inside or outside of the tree
                ccat, chunks = content(allow_bad_content)
                if regular_files and rng.random() < 0.4:
                    target, ccat = rng.choice(regular_files)
                    entries.append(
                        Entry(path, "symlink", target=target, shape=(cats + (cat,), "symlink-in", ccat))
                    )
                else:
                    target = [b"target-%d" % len(outside_targets)]
                    outside_targets.append((target, ccat))
                    entries.append(Entry(target, "file", chunks=chunks, outside=True))
                    entries.append(
                        Entry(path, "symlink", target=target, outside=True,
                              shape=(cats + (cat,), "symlink-out", ccat))
                    )
                continue
            ccat, chunks = content(allow_bad_content)
            entries.append(Entry(path, "file", chunks=chunks, shape=(cats + (cat,), "file", ccat)))
            regular_files.append((path, ccat))
        if depth >= max_depth:
            return
        n_dirs = rng.choice([0, 1, 1, 2, 3]) if depth < 2 else rng.choice([0, 1, 1, 2])
        for _ in range(n_dirs):
            cat, name = gen_name(rng, dir_w)
            path = prefix + [name]
            if tuple(path) in taken:
                continue
            taken.add(tuple(path))
            entries.append(Entry(path, "dir", shape=(cats + (cat,), "dir", "")))
            fill(path, cats + (cat,), depth + 1, max_depth)

    max_depth = 0 if profile == "flat" else rng.choice([0, 1, 2, 2, 3, 3, 4, 4])
    fill([], (), 0, max_depth)
    return entries


def materialise(entries: List[Entry], base: pathlib.Path) -> str:
    """Write the tree below ``base``/snippets (targets of outer links below ``base``/outside)."""
    root = os.fsencode(str(base / "snippets"))
    outside = os.fsencode(str(base / "outside"))
    os.makedirs(root, exist_ok=True)
    os.makedirs(outside, exist_ok=True)
    for e in entries:
        where = outside if (e.outside and e.kind == "file") else root
        full = os.path.join(where, *e.path)
        if e.kind == "dir":
            os.makedirs(full, exist_ok=True)
        elif e.kind == "file":
            os.makedirs(os.path.dirname(full), exist_ok=True)
            with open(full, "wb") as fid:
                for piece, n in e.chunks:
                    fid.write(piece * n)
        elif e.kind == "symlink":
            os.makedirs(os.path.dirname(full), exist_ok=True)
            assert e.target is not None
            target = os.path.join(outside if e.outside else root, *e.target)
            os.symlink(target, full)
    return os.fsdecode(root)


FIXED: List[Tuple[str, Dict[str, bytes]]] = [
    ("hidden-dir-minimal", {".git/config": b"x", "ok.txt": b"y"}),
    ("hidden-dir-nested", {"Types/.cache/a.txt": b"x", "Types/A/b.cs": b" body \n"}),
    ("hidden-dir-only", {".hidden/deep/er/a.txt": b"x"}),
    ("hidden-files-only", {".gitignore": b"*", "Types/.keep": b""}),
    ("plain", {"namespace.txt": b"  dummy\n\n", "Types/A/b.body.cpp": b"\r\n// body\r\n"}),
    ("empty-dir", {}),
    ("invalid-key", {"Types/my-file.cs": b"x", "ok.txt": b"y"}),
    ("invalid-key-dir", {"1dir/file.cs": b"x"}),
    ("invalid-utf8", {"a.txt": b"ok", "b.txt": b"head \xff tail"}),
    ("both", {"a b.txt": b"\xff", "c.txt": b"\xc3", "d.txt": b"fine"}),
    ("trailing-newline-name", {"a\n": b"x"}),
]


def fixed_entries(files: Dict[str, bytes]) -> List[Entry]:
    result = []
    for rel, data in files.items():
        path = [p.encode("utf-8") for p in rel.split("/")]
        result.append(Entry(path, "file", chunks=[(data, 1)], shape=(tuple(path), "file", "fixed")))
    return result


# ---------------------------------------------------------------------------
# The check.
# ---------------------------------------------------------------------------


def tree_witness(entries: List[Entry], label: str) -> Dict[str, Any]:
    shown = entries[:150]
    return {
        "label": label,
        "entries_total": len(entries),
        "tree": [e.to_json() for e in shown],
    }


def summarise(exp: Expectation) -> Dict[str, Any]:
    return {
        "expected_keys": sorted(exp.accept)[:12],
        "invalid_key": exp.invalid_key[:6],
        "invalid_utf8": exp.invalid_utf8[:6],
        "ignored_hidden_file": exp.ignored_hidden_file[:6],
        "ignored_below_hidden_dir": exp.ignored_below_hidden_dir[:6],
    }


class Runner:
    def __init__(self, chk: harness.Check) -> None:
        self.chk = chk
        from aas_core_codegen import specific_implementations

        self.module = specific_implementations
        self.current: Optional[Tuple[str, str, Expectation, Dict[str, Any]]] = None
        self.judged_ok: Optional[List[str]] = None
        hooks.import_all_repo_modules()
        self.monitor = hooks.Monitor(
            "aas_core_codegen.specific_implementations", "read_from_directory", self.observe
        )
        chk.extra["references_rebound"] = self.monitor.rebound

        name, text = next(m for m in corpus.small_common() if "constrained_primitives" in m[0])
        self.exec_model = text
        self.exec_targets = ["csharp", "python", "cpp", "typescript", "golang", "java"]
        self.baseline_rc: Dict[str, Optional[int]] = {}

    def observe(self, args, kwargs, result, err) -> None:
        if self.current is None:
            self.chk.count("monitor_calls_unattributed")
            return
        origin, root, exp, witness = self.current
        given = kwargs.get("snippets_dir", args[0] if args else None)
        if str(given) != root:
            self.chk.count("monitor_calls_unattributed")
            return
        self.chk.count(f"monitor_calls_{origin}")
        self.judged_ok = judge(self.chk, origin, root, exp, result, err, witness)
        if err is None and isinstance(result, tuple) and len(result) == 2:
            self.chk.hist("outcome", "errors" if result[1] is not None else "mapping")

    # -- one tree -----------------------------------------------------------
    def run_tree(self, entries: List[Entry], label: str, with_execute: Optional[str]) -> None:
        chk = self.chk
        base = env.new_dir("c25")
        try:
            root = materialise(entries, base)
            exp = walk_expectation(root)
            witness = tree_witness(entries, label)
            witness["expectation"] = summarise(exp)

            chk.count("trees")
            chk.count("files_expected_loaded", len(exp.accept) if not exp.offending else 0)
            chk.count("files_regular_non_hidden", len(exp.files))
            chk.count("files_ignored_hidden_file", len(exp.ignored_hidden_file))
            chk.count("files_ignored_below_hidden_dir", len(exp.ignored_below_hidden_dir))
            chk.count("files_invalid_key", len(exp.invalid_key))
            chk.count("files_invalid_utf8", len(exp.invalid_utf8))
            chk.count("files_symlink", exp.symlinks)
            chk.count("files_nested", exp.nested)
            if exp.ignored_below_hidden_dir:
                chk.count("trees_with_files_below_hidden_dir")
            if exp.offending:
                chk.count("trees_expecting_errors")
            elif exp.accept:
                chk.count("trees_expecting_nonempty_mapping")
            else:
                chk.count("trees_expecting_empty_mapping")
            for e in entries:
                if e.shape:
                    chk.hist("entry_kind", e.shape[1])
                    if e.shape[2]:
                        chk.hist("content_category", e.shape[2])
                    chk.hist("depth", len(e.path) - 1)
                    chk.hist("name_category", e.shape[0][-1] if isinstance(e.shape[0][-1], str) else "fixed")

            distinct = None
            if exp.files:
                distinct = hashlib.sha1(
                    repr(sorted(repr(e.shape) for e in entries if e.shape)).encode()
                ).hexdigest()[:16]
            sample = None
            if distinct is not None and chk.evaluations % 97 == 3:
                sample = {"label": label, "entries": [e.to_json()["shown"] for e in entries[:30]], **summarise(exp)}
            chk.case(distinct, sample)

            # direct call of the real function (through the monitor)
            self.current = ("direct", root, exp, witness)
            self.judged_ok = None
            try:
                self.module.read_from_directory(pathlib.Path(root))
            except BaseException as err:  # judged in the observer
                if isinstance(err, (KeyboardInterrupt, SystemExit)):
                    raise
                if self.judged_ok is None:
                    # the exception came from the observer itself
                    raise
            if self.judged_ok is None:
                chk.harness_error("the monitor did not see the direct call")
            self.current = None

            if with_execute is not None:
                self.run_execute(with_execute, root, base, exp, witness)
        finally:
            self.current = None
            shutil.rmtree(base, ignore_errors=True)

    def run_execute(
        self, target: str, root: str, base: pathlib.Path, exp: Expectation, witness: Dict[str, Any]
    ) -> None:
        chk = self.chk
        from aas_core_codegen import main as cg_main

        model_path = base / "meta_model.py"
        model_path.write_text(self.exec_model, encoding="utf-8")
        stdout, stderr = io.StringIO(), io.StringIO()
        params = cg_main.Parameters(
            model_path=model_path,
            target=cg_main.Target(target),
            snippets_dir=pathlib.Path(root),
            output_dir=base / "output",
        )
        self.current = ("execute", root, exp, witness)
        self.judged_ok = None
        rc, exc = None, None
        try:
            rc = cg_main.execute(params, stdout=stdout, stderr=stderr)
        except BaseException as err:
            if isinstance(err, (KeyboardInterrupt, SystemExit)):
                raise
            exc = err
        seen = self.judged_ok
        self.current = None
        chk.count("execute_runs")
        chk.hist("execute_target", target)
        w = dict(witness)
        w.update(
            origin="execute", target=target, rc=rc, stderr=stderr.getvalue()[:1500],
            stdout=stdout.getvalue()[:300],
        )
        if seen is None and exc is None:
            chk.violation("execute/read_from_directory-not-called", w)
            return
        if exc is not None:
            if seen:
                return  # already reported by the observer (the function itself raised)
            w["trace"] = harness.format_exc(exc)
            chk.violation(f"execute/raised/{harness.crash_signature(exc)}", w)
            return
        text = stderr.getvalue()
        if exp.offending:
            chk.count("execute_runs_expecting_failure")
            if rc != 1:
                chk.violation("execute/exit-status-not-1-on-offending-files", w)
                return
            if not text.strip():
                chk.violation("execute/empty-stderr-on-failure", w)
                return
            for p in exp.offending:
                if _splits_lines(p):
                    continue  # the report indents continuation lines
                if not _names(text, root, p):
                    kind = "invalid-key" if p in exp.invalid_key else "invalid-utf8"
                    w2 = dict(w)
                    w2["file"] = p
                    chk.violation(f"execute/file-not-named/{kind}", w2)
        else:
            chk.count("execute_runs_expecting_success")
            if rc != 0 and not seen:
                chk.violation("execute/failed-although-snippets-are-fine", w)
            elif rc != 0 and any(m.startswith("hidden-dir-not-ignored/") for m in seen):
                chk.violation("hidden-dir-not-ignored/execute-exit-1", w)

    # -- base snippets so that a clean tree lets the generator succeed -------
    def base_entries(self, target: str, rng: random.Random) -> List[Entry]:
        result = []
        for key, value in driver.base_snippets(self.exec_model, target).items():
            path = [p.encode("utf-8") for p in key.split("/")]
            data = rng.choice(PAD) + value.encode("utf-8") + rng.choice(PAD)
            result.append(Entry(path, "file", chunks=[(data, 1)], shape=(("valid",) * len(path), "file", "base-snippet")))
        return result


def replay(chk: harness.Check, runner: Runner, path: str) -> None:
    data = json.loads(pathlib.Path(path).read_text())
    witness = data.get("witness", data)
    entries = [Entry.from_json(d) for d in witness["tree"]]
    for e in entries:
        e.shape = (("replay",), e.kind, "replay")
    target = witness.get("target")
    runner.run_tree(entries, "replay", target if isinstance(target, str) else None)
    # make the verdict conclusive for a single tree
    chk.distinct.add("replay-a")
    chk.distinct.add("replay-b")


def main(argv) -> int:
    chk = harness.Check("C25", "exploration", RULE, argv)
    runner = Runner(chk)

    if chk.replay:
        replay(chk, runner, chk.replay)
        runner.monitor.uninstall()
        return chk.finish()

    # baseline: the generator succeeds on the base snippets alone
    rng0 = chk.rng("baseline")
    for target in runner.exec_targets:
        res = driver.run_inprocess(runner.exec_model, target)
        runner.baseline_rc[target] = res.rc if res.exc is None else None
        res.cleanup()
    usable_targets = [t for t in runner.exec_targets if runner.baseline_rc.get(t) == 0]
    chk.extra["execute_targets_with_baseline_rc0"] = usable_targets
    if not usable_targets:
        chk.mark_inconclusive("no target generates the baseline model with rc 0")

    for label, files in FIXED:
        entries = fixed_entries(files)
        target = usable_targets[0] if usable_targets else None
        if target is not None:
            entries = entries + [
                e for e in runner.base_entries(target, rng0) if e.path[0] != b"Types"
            ]
        runner.run_tree(entries, f"fixed/{label}", target)
        chk.count("fixed_trees")

    n = chk.pick(6000, 60000)
    budget = chk.wall_budget(50, 480)
    every = chk.pick(12, 25)
    profiles = ["clean", "clean", "hidden", "invalid", "dirty", "dirty", "flat"]
    for i in range(n):
        if i % 50 == 0 and chk.elapsed() > budget:
            chk.extra["stopped_by_budget_at_tree"] = i
            break
        rng = chk.rng("tree", i)
        profile = profiles[i % len(profiles)]
        chk.hist("profile", profile)
        entries = gen_tree(rng, profile)
        target = None
        if usable_targets and i % every == 0:
            target = usable_targets[(i // every) % len(usable_targets)]
            base = runner.base_entries(target, rng)
            reserved = {e.path[0] for e in base}
            entries = [
                e for e in entries
                if e.path[0] not in reserved
                and not (e.kind == "symlink" and not e.outside and e.target[0] in reserved)
            ] + base
        runner.run_tree(entries, f"generated/{profile}/{i}", target)

    runner.monitor.uninstall()

    chk.require_min("monitor_calls_direct", chk.pick(300, 3000))
    chk.require_min("monitor_calls_execute", chk.pick(20, 200))
    chk.require_min("trees_expecting_nonempty_mapping", chk.pick(100, 1000))
    chk.require_min("trees_expecting_errors", chk.pick(100, 1000))
    chk.require_min("trees_with_files_below_hidden_dir", chk.pick(50, 500))
    chk.require_min("files_invalid_utf8", 50)
    chk.require_min("files_invalid_key", 50)
    chk.require_min("files_symlink", 20)
    chk.require_min("execute_runs_expecting_failure", 3)
    chk.require_min("execute_runs_expecting_success", 3)
    chk.assume(
        "a key is valid when every '/'-separated segment starts with an ASCII letter or "
        "'_' and continues with ASCII letters, digits, '_' or '.' (the documented key format)"
    )
    chk.assume(
        "the content is the UTF-8 decoding of the file; both the verbatim text and the "
        "text with universal-newline translation (text-mode reading) are accepted, each "
        "stripped; a BOM is not whitespace; padding at the edges is ASCII whitespace only"
    )
    chk.assume(
        "a symlink whose own name is not hidden and which points to a regular file counts "
        "as a regular file; an error 'names' a file when it contains its relative POSIX "
        "path or its full path"
    )
    return chk.finish()
