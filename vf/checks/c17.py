"""C17 -- the UTF-16 rewriting of a pattern preserves its language."""
import concurrent.futures
import json
import multiprocessing
import os
import shutil
import subprocess
import time
from typing import Any, Dict, List, Optional, Sequence, Set, Tuple

from vf import env, harness
from vf import regexgen as rg

RULE = (
    "patterns accepted by the real retree.parse (grammar walk rich in astral literals, "
    "astral ranges inside one high surrogate / across several / touching U+10000 and "
    "U+10FFFF / starting in the BMP, quantified astral terms, mixed sets, plus every "
    "lo<=hi pair of 17 edge code points in three shapes) given to the real "
    "jsonschema.main.fix_pattern_for_utf16; original on the string vs rewriting on the "
    "string's UTF-16 code units (Python re: fullmatch, match, search; node RegExp without "
    "the u flag for a sample) over strings sampled around every range and surrogate-block "
    "boundary; a case is non-trivial when the pattern holds an astral construct or the "
    "rewriting changed the text; distinct = distinct pattern texts"
)

PINNED = [
    "^\\U0001F600$", "^\\U0001F600+$", "^\\U0001F600{2,3}x$", "^[\\U0001F600]$",
    "^[\\U0001F600-\\U0001F64F]$", "^[\\U00010000-\\U0010FFFF]*$", "^[\\U000103FF-\\U00010400]$",
    "^[\\U00010000-\\U000107FF]$", "^[\\U00010000-\\U00010BFF]$", "^[\\U00010000-\\U00010C00]$",
    "^[a-z\\U0001F600-\\U0001F64F0-9]+$", "^[a\\U00010000\\U0010FFFF]{2}$",
    "^[\\x09\\x0A\\x0D\\x20-\\uD7FF\\uE000-\\uFFFD\\U00010000-\\U0010FFFF]*$",
    "^(a|\\U00010000)*b$", "^x[\\U0010FC00-\\U0010FFFF]?y$", "\\U00010000|[\\U00010001-\\U00010002]",
    "[\\U00010000\\^-c]", "^[\\U0001F600-\\U0001F64F\\^-~]+$", "^[a-\\U00010000]$", "^[\\uffff-\\U00010000]$", "^[\\ue000-\\U0010FFFF]+$", "[^\\U00010000]",
    "^.$", "^[^a]$", "^a.b$", "^[^a-z]+$", "^\\ud83d$", "^[\\ud800-\\udbff]$", "^[\\u0000-\\uffff]+$",
    "^\\ud83d\\ude00$", "^[a-z]+$", "", "^$", "a|b",
]

NODE_CANDIDATES = [
    "/root/.nvm/versions/node/v22.22.2/bin/node",
    shutil.which("node") or "",
    "/usr/bin/node",
    "/usr/local/bin/node",
]

NODE_SCRIPT = r"""
const fs = require('fs');
const cases = JSON.parse(fs.readFileSync(process.argv[2], 'utf8'));
const out = [];
for (const c of cases) {
  let re;
  try { re = new RegExp(c.p); } catch (e) { out.push({err: String(e.message)}); continue; }
  out.push({r: c.s.map(u => re.test(String.fromCharCode.apply(null, u)))});
}
fs.writeFileSync(process.argv[3], JSON.stringify(out));
"""

LINE_TERMINATORS = ("\n", "\r", "\u2028", "\u2029")


def find_node() -> Optional[str]:
    for cand in NODE_CANDIDATES:
        if cand and os.path.isfile(cand) and os.access(cand, os.X_OK):
            return cand
    return None


def consumers_of(ir: list, cp: int) -> Set[str]:
    """
    Which constructs of the original could take the astral code point ``cp`` -- as one
    character (Python on the string) or one of its two code units (a UTF-16 engine)?
    """
    high = 0xD800 + ((cp - 0x10000) >> 10)
    low = 0xDC00 + ((cp - 0x10000) & 0x3FF)
    found: Set[str] = set()

    def walk(seq: list, quantified: bool) -> None:
        for node in seq:
            tag = node[0]
            if tag == "lit":
                if node[1] == cp:
                    found.add("quantified-astral-literal" if quantified and len(seq) == 1 else "astral-literal")
                elif node[1] in (high, low):
                    found.add("surrogate-in-pattern")
            elif tag == "any":
                found.add("dot")
            elif tag == "set":
                _, negate, ranges, _cats = node
                if negate:
                    if not any(lo <= cp <= hi for lo, hi in ranges):
                        found.add("negated-set")
                    continue
                for lo, hi in ranges:
                    if lo <= cp <= hi:
                        if lo <= 0xFFFF:
                            found.add("bmp-to-astral-range")
                        elif lo == hi:
                            found.add("astral-char-in-set")
                        else:
                            span = (hi - 0x10000) // 0x400 - (lo - 0x10000) // 0x400
                            found.add(
                                "astral-range-%s"
                                % {0: "one-high-surrogate", 1: "two-high-surrogates",
                                   2: "three-high-surrogates"}.get(span, "many-high-surrogates")
                            )
                    if (lo <= high <= hi or lo <= low <= hi) and not (lo < 0xD800 and hi > 0xFFFF):
                        # a range from below the surrogate block up into a supplementary
                        # plane covers the surrogates only incidentally: a faithful
                        # rewriting leaves them out, so it is not the documented limitation
                        found.add("surrogate-in-pattern")
            elif tag == "alt":
                for alt in node[1]:
                    walk(alt, quantified and len(node[1]) == 1)
            elif tag == "rep":
                walk(node[3], True)

    walk(ir, False)
    return found


def verdicts(compiled: Any, s: str) -> Tuple[bool, bool, bool]:
    return (
        compiled.fullmatch(s) is not None,
        compiled.match(s) is not None,
        compiled.search(s) is not None,
    )


class Monitor:
    def __init__(self, chk: harness.Check, n_strings: int) -> None:
        from aas_core_codegen.parse import retree
        from aas_core_codegen.jsonschema import main as jsonschema_main

        self.retree = retree
        self.fix = jsonschema_main.fix_pattern_for_utf16
        self.chk = chk
        self.n_strings = n_strings
        self.repo_root = str(env.REPO)
        self.node_cases: List[Dict[str, Any]] = []
        self.node_cap = 400
        self.shrinks_left = 4
        # Monitor on the real retree.parse (the attribute fix_pattern_for_utf16 looks
        # up at call time): records what the front end said about the pattern and the
        # plain rendering of the tree *before* the rewriting mutates it in place.
        self.seen: Optional[Dict[str, Any]] = None
        self.real_parse = retree.parse
        monitor = self

        def recording_parse(*args: Any, **kwargs: Any) -> Any:
            monitor.seen = {"state": "raised"}
            result = monitor.real_parse(*args, **kwargs)
            tree, error = result
            if error is not None or tree is None:
                monitor.seen = {"state": "rejected"}
            else:
                monitor.seen = {"state": "accepted", "plain": None}
                try:
                    monitor.seen["plain"] = rg.join_pieces(retree.render(tree))
                except Exception:  # noqa -- rendering is judged by C16
                    pass
            return result

        retree.parse = recording_parse

    def uninstall(self) -> None:
        self.retree.parse = self.real_parse

    def run(self, pattern: str, origin: str, rng: Any) -> None:
        chk = self.chk
        witness: Dict[str, Any] = {"pattern": pattern, "origin": origin}
        chk.hist("origin", origin)
        chk.count("patterns_tried")
        py_orig, _ = rg.py_compile(pattern)
        if py_orig is None:
            chk.count("skipped_python_rejects_original")
            return
        self.seen = None
        fixed, raised = None, None
        try:
            fixed = self.fix(pattern)
        except BaseException as exc:  # noqa
            if isinstance(exc, (KeyboardInterrupt, SystemExit, MemoryError)):
                raise
            raised = exc
        seen = self.seen
        if seen is None:
            chk.count("monitor_on_parse_not_reached")
            if raised is not None:
                chk.violation(
                    "crash/fix-before-parse/" + rg.crash_key(raised, self.repo_root),
                    dict(witness, exception=harness.format_exc(raised, 6)),
                )
            return
        chk.count("monitor_parse_calls")
        if seen["state"] == "raised":
            # totality of the parser is C16's subject
            chk.count("front_end_raised_not_judged_here")
            return
        if seen["state"] == "rejected":
            chk.count("front_end_rejected")
            return
        chk.count("front_end_accepted")
        # Patterns on which the front end itself is not faithful (C16) are not judged:
        # the reference here is the original *as Python reads it*, and the rewriting
        # can only be blamed when plain parse+render keeps that reading.
        if seen["plain"] is None or rg.sre_tree(seen["plain"]) != rg.sre_tree(pattern):
            chk.count("skipped_front_end_not_faithful_see_C16")
            return
        chk.count("monitor_fix_calls")
        if raised is not None:  # "a raise is a violation"
            key = "crash/fix/" + (
                "RecursionError"
                if isinstance(raised, RecursionError)
                else rg.crash_key(raised, self.repo_root)
            )
            chk.hist("crash_sites", key)
            chk.case((pattern,))
            chk.violation(key, dict(witness, exception=harness.format_exc(raised, 6)))
            return
        if not isinstance(fixed, str):
            chk.violation("fix/result-not-a-string", witness)
            return
        witness["fixed"] = fixed
        flags = rg.pattern_flags(pattern)
        astral_flags = sorted(flags.intersection(rg.ASTRAL_FLAGS))
        limits = sorted(flags.intersection(rg.LIMITATION_FLAGS))
        for flag in flags:
            chk.hist("constructs_in_patterns", flag)
        chk.hist("stratum", "limitation:" + "+".join(limits) if limits else "no-limitation-construct")
        if astral_flags:
            chk.count("patterns_with_astral_construct")
        changed = fixed != pattern
        if changed:
            chk.count("patterns_rewritten")
        chk.case((pattern,) if (astral_flags or changed) else None)

        py_fixed, reason = rg.py_compile(fixed)
        if py_fixed is None:
            chk.violation(f"fixed-not-compilable/{reason}", dict(witness, python_says=reason))
            return

        ir = rg.to_ir(pattern) or []
        found = None
        n_done = n_astral = n_member = n_astral_member = 0
        node_strings: List[str] = []
        try:
            with rg.time_limit(4.0):
                strings = rg.sample_strings(pattern, rng, self.n_strings, allow_surrogates=False)
                for s in strings:
                    units = rg.to_utf16_units(s)
                    a = verdicts(py_orig, s)
                    b = verdicts(py_fixed, units)
                    n_done += 1
                    astral = len(units) != len(s)
                    n_astral += astral
                    n_member += a[0]
                    n_astral_member += a[0] and astral
                    if a != b:
                        if found is None:
                            found = (s, a, b)
                    elif len(node_strings) < 6 and not any(t in s for t in LINE_TERMINATORS):
                        node_strings.append(s)
        except rg.MatchTimeout:
            chk.count("match_time_limit_hit")
        chk.count("strings_compared", n_done)
        chk.count("astral_strings_compared", n_astral)
        chk.count("strings_in_language", n_member)
        chk.count("astral_strings_in_language", n_astral_member)
        if n_done:
            chk.count("patterns_compared")

        if found is not None:
            s, a, b = self.minimise(py_orig, py_fixed, found[0])
            kind, detail = self.classify(ir, s)
            if kind == "limitation":
                key = "disagree/astral-string/limitation:" + detail
            else:
                # not one of the documented limitations.  First see whether the renderer
                # is to blame (parse(render(rewritten tree)) != rewritten tree, judged by
                # the repository's own parser/dump as in C16); otherwise name the finding
                # after a delta-minimised pattern.
                minimal = None
                cause = self.rewritten_tree_roundtrip(pattern)
                if cause is not None:
                    key = "disagree/rewritten-tree-not-rendered-faithfully|" + cause
                    chk.violation(
                        key,
                        dict(
                            witness, string=s,
                            original_fullmatch_match_search=a,
                            fixed_on_units_fullmatch_match_search=b,
                        ),
                    )
                    return
                if self.shrinks_left > 0:
                    self.shrinks_left -= 1
                    chk.count("violating_patterns_minimised")
                    minimal = self.shrink(pattern, s, rng)
                if minimal is not None:
                    m_pattern, m_fixed, m_s = minimal
                    kind = "astral-string" if rg.has_astral(m_s) else "bmp-string"
                    key = f"disagree/{kind}/minimal:{rg.skeleton(m_pattern)}"
                    witness = dict(
                        witness, minimal_pattern=m_pattern, minimal_fixed=m_fixed,
                        minimal_string=m_s,
                    )
                else:
                    key = f"disagree/{kind}/not-minimised:{detail}"
            chk.violation(
                key,
                dict(
                    witness,
                    string=s,
                    utf16_units=[hex(ord(c)) for c in rg.to_utf16_units(s)],
                    original_fullmatch_match_search=a,
                    fixed_on_units_fullmatch_match_search=b,
                ),
            )
        elif (
            node_strings
            and len(self.node_cases) < self.node_cap
            and rg.backtracking_risk(ir) == 0
            and (astral_flags or changed or rng.random() < 0.3)
        ):
            self.node_cases.append(
                {
                    "pattern": pattern,
                    "p": fixed,
                    "strings": node_strings,
                    "s": [[ord(c) for c in rg.to_utf16_units(s)] for s in node_strings],
                    "expected": [py_orig.search(s) is not None for s in node_strings],
                    "limits": limits,
                }
            )

    def rewritten_tree_roundtrip(self, pattern: str) -> Optional[str]:
        """First dump difference between the rewritten tree and parse(render(it))."""
        from vf.checks.c16 import _first_dump_difference

        retree = self.retree
        try:
            tree, error = self.real_parse([pattern])
            if tree is None:
                return None
            retree.fix_for_utf16_regex_in_place(tree)
            before = retree.dump(tree)
            again, error = self.real_parse(retree.render(tree))
            if again is None:
                return "rendering-rejected"
            after = retree.dump(again)
        except Exception:  # noqa
            return None
        return None if before == after else _first_dump_difference(before, after)

    @staticmethod
    def classify(ir: list, s: str) -> Tuple[str, str]:
        """('limitation' | 'astral-string' | 'bmp-string', detail) of a minimal witness."""
        cps = [ord(c) for c in s if ord(c) > 0xFFFF]
        if not cps:
            return "bmp-string", "none"
        who: Set[str] = set()
        for cp in cps:
            who |= consumers_of(ir, cp)
        limiting = sorted(who.intersection(rg.LIMITATION_FLAGS))
        if limiting:
            return "limitation", "+".join(limiting)
        return "astral-string", "+".join(sorted(who)) or "no-consumer"

    def disagreement(self, pattern: str, strings: Sequence[str]) -> Optional[Tuple[str, str]]:
        """(fixed, minimal string) if ``pattern`` still shows a non-limitation disagreement."""
        py_orig, _ = rg.py_compile(pattern)
        if py_orig is None:
            return None
        self.seen = None
        try:
            fixed = self.fix(pattern)
        except Exception:  # noqa
            return None
        seen = self.seen
        if (
            not isinstance(fixed, str)
            or seen is None
            or seen["state"] != "accepted"
            or seen["plain"] is None
            or rg.sre_tree(seen["plain"]) != rg.sre_tree(pattern)
        ):
            return None
        py_fixed, _ = rg.py_compile(fixed)
        if py_fixed is None:
            return None
        ir = rg.to_ir(pattern) or []
        for s in strings:
            if verdicts(py_orig, s) != verdicts(py_fixed, rg.to_utf16_units(s)):
                s_min, _, _ = self.minimise(py_orig, py_fixed, s)
                if self.classify(ir, s_min)[0] != "limitation":
                    return fixed, s_min
        return None

    def shrink(self, pattern: str, s: str, rng: Any) -> Optional[Tuple[str, str, str]]:
        def still_fails(candidate: str) -> bool:
            try:
                with rg.time_limit(2.0):
                    extra = rg.sample_strings(candidate, rng, 24, allow_surrogates=False)
                    return self.disagreement(candidate, [s] + extra) is not None
            except rg.MatchTimeout:
                return False

        minimal = rg.shrink_pattern(pattern, still_fails, seconds=20.0)
        try:
            with rg.time_limit(2.0):
                extra = rg.sample_strings(minimal, rng, 40, allow_surrogates=False)
                got = self.disagreement(minimal, [s] + extra)
        except rg.MatchTimeout:
            got = None
        if got is None:
            return None
        return minimal, got[0], got[1]

    @staticmethod
    def minimise(py_orig: Any, py_fixed: Any, s: str) -> Tuple[str, Any, Any]:
        """Drop characters of the witness while the two sides still disagree."""

        def differ(t: str) -> bool:
            return verdicts(py_orig, t) != verdicts(py_fixed, rg.to_utf16_units(t))

        try:
            with rg.time_limit(2.0):
                changed = True
                while changed and len(s) > 1:
                    changed = False
                    for i in range(len(s)):
                        t = s[:i] + s[i + 1:]
                        if differ(t):
                            s, changed = t, True
                            break
        except rg.MatchTimeout:
            pass
        return s, verdicts(py_orig, s), verdicts(py_fixed, rg.to_utf16_units(s))


def gen_for_c17(rng: Any, seeds: Sequence[str]) -> Tuple[str, str]:
    r = rng.random()
    if r < 0.62:
        return "astral-clean", rg.gen_pattern(
            rng, "astral", dot=False, negated=False, surrogate_cp=0.0, inner_anchors=0.0
        )
    if r < 0.72:
        return "astral-dot", rg.gen_pattern(rng, "astral", negated=False, surrogate_cp=0.0)
    if r < 0.82:
        return "astral-negated", rg.gen_pattern(rng, "astral", dot=False, surrogate_cp=0.0)
    if r < 0.88:
        return "astral-surrogate-cp", rg.gen_pattern(
            rng, "astral", dot=False, negated=False, surrogate_cp=0.1
        )
    if r < 0.91:
        return "bmp-to-astral", rg.gen_pattern(
            rng, "astral", dot=False, negated=False, surrogate_cp=0.0, bmp_to_astral=0.5
        )
    if r < 0.97:
        return "subset", rg.gen_pattern(rng, "subset")
    return "realworld", rg.gen_pattern(rng, "realworld", seeds=seeds)


def _worker(
    job: Tuple[int, int, List[str], float, int, int, float]
) -> Tuple[Dict[str, Any], List[Dict[str, Any]]]:
    shard, count, argv, deadline, n_strings, at_least, hard_deadline = job
    chk = harness.Check("C17", "exploration", RULE, argv)
    chk.max_samples = 1
    mon = Monitor(chk, n_strings)
    mon.node_cap = 150
    rng = chk.rng("shard", shard)
    for i in range(count):
        # the wall budget ends the shard; on an overloaded machine it may run on (up to
        # twice the budget) until the share needed for a conclusive run is done
        if i % 10 == 0:
            now = time.time()
            if now > hard_deadline or (now > deadline and i >= at_least):
                chk.count("stopped_by_wall_budget")
                break
        origin, pattern = gen_for_c17(rng, ())
        if i < 1:
            chk.sample({"origin": origin, "pattern": pattern})
        mon.run(pattern, origin, rng)
    mon.uninstall()
    return chk.export(), mon.node_cases


def node_leg(chk: harness.Check, cases: List[Dict[str, Any]]) -> None:
    node = find_node()
    if node is None:
        chk.unavailable_leg("node (RegExp without the u flag): no node binary found")
        return
    if not cases:
        chk.unavailable_leg("node leg: no agreeing case was collected to cross-check")
        return
    work = env.new_dir("c17-node")
    (work / "run.js").write_text(NODE_SCRIPT)
    (work / "cases.json").write_text(
        json.dumps([{"p": c["p"], "s": c["s"]} for c in cases], ensure_ascii=True)
    )
    try:
        proc = subprocess.run(
            [node, str(work / "run.js"), str(work / "cases.json"), str(work / "out.json")],
            capture_output=True, text=True, timeout=180,
        )
    except (subprocess.TimeoutExpired, OSError) as err:
        chk.unavailable_leg(f"node leg did not finish: {type(err).__name__}")
        return
    if proc.returncode != 0 or not (work / "out.json").exists():
        chk.unavailable_leg(f"node leg failed: rc={proc.returncode} {proc.stderr[-300:]}")
        return
    results = json.loads((work / "out.json").read_text())
    if len(results) != len(cases):
        chk.harness_error("node leg returned a different number of results")
        return
    chk.extra["node_binary"] = node
    for case, res in zip(cases, results):
        chk.count("node_patterns")
        tag = "limitation:" + "+".join(case["limits"]) if case["limits"] else "none"
        if "err" in res:
            chk.violation(
                f"node-rejects-fixed-pattern/{rg.norm_text(res['err'].split(':')[-1], 5)}",
                {"pattern": case["pattern"], "fixed": case["p"], "node_says": res["err"]},
            )
            continue
        for s, want, got in zip(case["strings"], case["expected"], res["r"]):
            chk.count("node_strings_compared")
            if rg.has_astral(s):
                chk.count("node_astral_strings_compared")
            if bool(got) != bool(want):
                chk.violation(
                    f"node-disagree/python-on-units-agreed/{tag}",
                    {
                        "pattern": case["pattern"], "fixed": case["p"], "string": s,
                        "original_search": want, "node_test_on_units": got,
                    },
                )


def main(argv: Sequence[str]) -> int:
    chk = harness.Check("C17", "exploration", RULE, argv)
    argv = list(argv)
    n_strings = chk.pick(60, 120)
    total = chk.pick(3000, 100000)
    budget = chk.wall_budget(45, 540)
    deadline = chk.t0 + budget

    mon = Monitor(chk, n_strings)
    rng = chk.rng("pinned")
    if chk.replay:
        data = json.loads(open(chk.replay, encoding="utf-8").read())
        pattern = data.get("witness", {}).get("pattern", "")
        if isinstance(pattern, str) and pattern.startswith("repr:"):
            import ast

            pattern = ast.literal_eval(pattern[5:])
        mon.run(pattern, "replay", rng)
        mon.uninstall()
        node_leg(chk, mon.node_cases)
        chk.case(("replay", 1))
        chk.case(("replay", 2))
        return chk.finish()

    for pattern in PINNED:
        mon.run(pattern, "pinned", rng)
    systematic = rg.astral_range_patterns()
    if chk.tier == "quick":
        systematic = systematic[chk.seed % 3::3]
    for pattern in systematic:
        mon.run(pattern, "systematic-astral-range", rng)
    for pattern in rg.bmp_to_astral_range_patterns():
        mon.run(pattern, "systematic-bmp-to-astral-range", rng)
    from vf.checks import c16  # corpus patterns shipped with the repository

    for pieces in c16.corpus_pieces():
        if len(pieces) == 1 and isinstance(pieces[0], str):
            mon.run(pieces[0], "corpus", rng)
    node_cases = list(mon.node_cases)
    mon.uninstall()

    workers = max(1, min(8, (os.cpu_count() or 2) // 2))
    shards = workers  # all shards run side by side until the wall budget ends them
    per = (total + shards - 1) // shards
    need = chk.pick(600, 6000)
    at_least = (need + shards - 1) // shards
    hard_deadline = chk.t0 + 2 * budget
    jobs = [(k, per, argv, deadline, n_strings, at_least, hard_deadline) for k in range(shards)]
    ctx = multiprocessing.get_context("fork")
    try:
        with concurrent.futures.ProcessPoolExecutor(max_workers=workers, mp_context=ctx) as pool:
            for exported, cases in pool.map(_worker, jobs):
                chk.merge(exported)
                node_cases.extend(cases)
    except concurrent.futures.process.BrokenProcessPool as err:
        chk.harness_error(f"a worker process died: {err!r}")

    node_leg(chk, node_cases[: chk.pick(1500, 6000)])

    chk.require_min("monitor_parse_calls", 300)
    chk.require_min("monitor_fix_calls", chk.pick(300, 4000))
    chk.require_min("patterns_with_astral_construct", 200)
    chk.require_min("patterns_rewritten", 200)
    chk.require_min("patterns_compared", 300)
    chk.require_min("strings_compared", 10000)
    chk.require_min("astral_strings_compared", 3000)
    chk.require_min("astral_strings_in_language", 500)
    if not any(u.startswith("node") for u in chk.unavailable):
        chk.require_min("node_strings_compared", 300)
    chk.assume(
        "Python's re run over a string whose characters are the UTF-16 code units stands "
        "for a UTF-16-only engine; node's RegExp (no u flag) cross-checks a sample on "
        "strings without line terminators (., $ differ there between the two engines)"
    )
    chk.assume(
        "subject strings are well-formed (no lone surrogates); patterns the front end "
        "rejects, crashes on, or that Python itself rejects are not judged here (see C16)"
    )
    return chk.finish()
