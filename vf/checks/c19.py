"""C19 — emitted literals denote exactly the original values.

The real literal helpers of every target (``<target>/common.py``: ``string_literal``,
``wstring_literal``, ``wchar_literal``, ``bytes_literal``, ``needs_escaping``, with all
their options) are called on hostile values; the emitted text is then *read back* by
the language itself:

* Python — ``ast.literal_eval`` / ``compile`` + ``eval`` (f-string mode inside an
  f-string, composed the way ``python/transpilation.py`` composes it),
* C++ — a generated g++ program (``-std=c++17 -fsanitize=address,undefined``) that
  prints the elements of every wide / narrow string, wide char and byte initialiser,
* Java — javac + java printing UTF-16 code units,
* TypeScript — node evaluating quoted and template literals (``native/c19/driver.mjs``),
* C# and Go — no toolchain in the sandbox: decoders written from the language
  specifications (weaker leg, stated in the evidence).

The value read back must be identical to the original.  A value that breaks a
documented precondition of a helper is counted as "rejected by contract", not judged.
"""
import ast
import bisect
import concurrent.futures
import hashlib
import inspect
import json
import os
import pathlib
import re
import shutil
import subprocess
import threading
import time
import traceback
from typing import Any, Callable, Dict, Iterable, List, Optional, Sequence, Tuple

from vf import env, harness

NATIVE = env.VERIF / "native" / "c19"
NODE22 = "/root/.nvm/versions/node/v22.22.2/bin/node"

RULE = (
    "hostile values (every code point 0..0x17f alone, every special character followed "
    "by hex/octal-looking and other neighbours, escape look-alikes, random strings of "
    "length 0-40 over C0/DEL/C1/quotes/backslash/{}$`/U+2028/U+2029/BOM/BMP/astral/"
    "lone surrogates, bytes of length 0-40) given to the real literal helpers of the six "
    "targets; one evaluation = one (language, function, mode, value) whose emitted text "
    "was read back by the language (or its spec decoder) and compared; a case is "
    "non-trivial when the value contains a character outside [A-Za-z0-9 ] (strings) or "
    "is a non-empty byte string; distinct = distinct (language, value)"
)

X_MARK = "\u241fX\u241f"  # what the interpolated expression evaluates to in f-string/template modes

NOT_UTF8 = (
    "the emitted text contains a lone surrogate and can not be written as UTF-8 "
    "(the generators write all files with encoding='utf-8')"
)

# --------------------------------------------------------------------------
# classification of characters (for mechanism keys)
# --------------------------------------------------------------------------


def charclass(c: str) -> str:
    cp = ord(c)
    if cp == 0:
        return "nul"
    if c == "\n":
        return "lf"
    if c == "\r":
        return "cr"
    if c == "\t":
        return "tab"
    if cp < 32:
        return "c0-control"
    if cp == 0x7F:
        return "del"
    if c == '"':
        return "double-quote"
    if c == "'":
        return "single-quote"
    if c == "`":
        return "backtick"
    if c == "\\":
        return "backslash"
    if c == "$":
        return "dollar"
    if c in "{}":
        return "curly-bracket"
    if c in "0123456789abcdefABCDEF":
        return "hex-digit"
    if c == " ":
        return "space"
    if cp < 0x7F:
        return "ascii"
    if cp == 0x85:
        return "nel-U+0085"
    if cp < 0xA0:
        return "c1-control"
    if cp < 0x100:
        return "latin1"
    if cp == 0x2028:
        return "ls-U+2028"
    if cp == 0x2029:
        return "ps-U+2029"
    if cp == 0xFEFF:
        return "bom-U+FEFF"
    if 0xD800 <= cp <= 0xDFFF:
        return "lone-surrogate"
    if cp < 0x10000:
        return "bmp"
    return "astral"


def is_nontrivial(value: Any) -> bool:
    if isinstance(value, (bytes, bytearray)):
        return len(value) > 0
    if isinstance(value, tuple):
        return any(is_nontrivial(v) for v in value)
    return re.fullmatch(r"[A-Za-z0-9 ]*", value) is None


def has_surrogate(text: str) -> bool:
    return any(0xD800 <= ord(c) <= 0xDFFF for c in text)


def utf8_encodable(text: str) -> bool:
    try:
        text.encode("utf-8")
        return True
    except UnicodeEncodeError:
        return False


def utf16_units(text: str) -> List[int]:
    raw = text.encode("utf-16-le", "surrogatepass")
    return [raw[i] | (raw[i + 1] << 8) for i in range(0, len(raw), 2)]


def digest(*parts: Any) -> int:
    h = hashlib.blake2b(digest_size=8)
    for p in parts:
        if isinstance(p, str):
            h.update(p.encode("utf-8", "surrogatepass"))
        elif isinstance(p, (bytes, bytearray)):
            h.update(bytes(p))
        else:
            h.update(repr(p).encode("utf-8", "surrogatepass"))
        h.update(b"\x00|")
    return int.from_bytes(h.digest(), "big")


# --------------------------------------------------------------------------
# workload
# --------------------------------------------------------------------------

C0 = [chr(c) for c in range(32)]
QUOTES = ['"', "'", "`"]
PUNCT = ["\\", "{", "}", "$", "%", "/", "*", "?", "#", "@", "<", ">", "&", ";", " "]
C1 = ["\x7f", "\x80", "\x85", "\x9f", "\xa0", "\xad", "\xe9", "\xfe", "\xff", "\u0100"]
SEPARATORS = ["\u2028", "\u2029", "\ufeff", "\u200b", "\u200d", "\u061c"]
BMP = ["\u0131", "\u03a9", "\u0e9a", "\u17f0", "\u65e5", "\ud7ff", "\ue000", "\ufffd",
       "\ufffe", "\uffff", "\u01f0", "\u1f60"]
ASTRAL = ["\U00010000", "\U0001f600", "\U000e0001", "\U0010fffd", "\U0010ffff"]
SURROGATES = ["\ud800", "\udbff", "\udc00", "\udfff", "\ud83d"]
HEXLIKE = list("0123456789abcdefABCDEF")
LETTERS = list("ghnrtuvxUNXzZ_ ")

SPECIAL = C0 + QUOTES + PUNCT[:4] + C1 + SEPARATORS[:3]

ESCAPE_TEXTS = [
    "\\n", "\\t", "\\0", "\\00", "\\07", "\\101", "\\x41", "\\x4", "\\u0041", "\\u004",
    "\\U00000041", "\\U0001f600", "\\u000a", "\\u0022", "\\uuuu0041", "\\N{DASH}", "\\\\",
    "\\'", '\\"', "\\`", "\\$", "\\{", "${", "$", "$$", "${x}", "$${", "{", "}", "{{", "}}",
    "{0}", "{x}", "{x!r}", "{{x}}", "%s", "%d", "%%", "*/", "/*", "//", "??/", "??'",
    "'''", '"""', "```", "\\\n", "\\\r\n", "<!--", "-->", "\\a", "\\e", "\\v", "\\8", "\\9",
    "\\xg", "\\u{41}", "\\u{1f600}", "@\"", "$\"", "R\"(", ")\"", "L\"", "u8\"", "b'", "f'",
    "r'", "\\ ", "\\\t",
]

FIXED_STRINGS = [
    "", " ", "a", "\x01f", "\x00" + "7", "\x001", "\x1ff", "\x0ff", "\x7f0", "\xe9a", "\xffa",
    "\x80" + "0", "\x85" + "5", "\x01" + "F" * 9, "\xe9" + "abcdef01", "it's", 'say "hi"',
    "it's \"both\"", "''\"", "'\"\"", "a`b", "a${b}c", "$", "${", "a$", "$a{", "$" * 3 + "{",
    "`${`}", "{", "}", "{}", "{{}}", "{a}", "a{b}c{{d}}", "\\", "\\\\", "a\\", "\\a",
    "tab\there", "line\nbreak", "cr\rlf\r\n", "\u2028", "\u2029", "a\u2028b", "\x85",
    "\x00", "\x00\x00", "a\x00b", "\x1a", "\x1b[0m", "\x7f", "\ufeff", "\ufeffa",
    "\U0001f600", "a\U0001f600b", "\U0010ffff", "\uffff", "\ud7ff\ue000", "\u00ff", "\u0100",
    "é", "日本語", "\u65e5本\U00008a9e", "Ω≈ç√∫", "%s %d %%", "/* c */", "// c", "*/", "??/",
    "<xml attr=\"v\">&amp;</xml>", "C:\\path\\new\\table", "\\x41\\u0041\\101",
    "^[\\x09\\x0A\\x0D\\x20-\\uD7FF\\uE000-\\uFFFD\\U00010000-\\U0010FFFF]*$",
    "\ud800", "a\udfffb", "\ud83d\ude00", "\udc00\ud800",
]

FIXED_PAIRS = [
    ("", ""), ("$", ""), ("$", "{"), ("{", "}"), ("a{", "}b"), ("\\", ""), ("", "\\"), ("`", "`"),
    ("'", '"'), ('"', '"'), ("''", '"'), ("cost: $", " USD"), ("\x00", "\x00"), ("{{", "}}"),
    ("\\", "{"), ("$$", "{"), ("a\n", "\tb"), ("\u2028", "\u2029"), ("a", "b"), ("x=", ";"),
    ("\x01", "f"), ("${", "}"), ("`", "${"), ("\\`", "\\$"),
]

PAIR_NEIGHBOURS = list("0123456789abcdefABCDEF") + ["g", "x", "u", "{", '"', "\\", "$", "'", " "]


def systematic_strings() -> List[str]:
    out: List[str] = list(FIXED_STRINGS)
    for cp in range(0, 0x180):
        out.append(chr(cp))
    for group in (SEPARATORS, BMP, ASTRAL, SURROGATES):
        out.extend(group)
    firsts = C0 + QUOTES + ["\\", "{", "}", "$"] + C1 + ["\u2028", "\ufeff", "\uffff",
                                                          "\U0001f600", "\U0010ffff"]
    for c in firsts:
        for n in PAIR_NEIGHBOURS:
            out.append(c + n)
    out.extend(ESCAPE_TEXTS)
    seen = set()
    unique = []
    for s in out:
        if s not in seen:
            seen.add(s)
            unique.append(s)
    return unique


LENGTHS = list(range(0, 41)) + [1, 1, 2, 2, 2, 3, 3, 4, 5, 6, 8, 8, 9, 16, 17, 39, 40]


def gen_string(rng) -> str:
    n = rng.choice(LENGTHS)
    mode = rng.random()
    parts: List[str] = []
    if mode < 0.22:
        # weighted hostile alphabet
        while len(parts) < n:
            r = rng.random()
            if r < 0.35:
                parts.append(rng.choice(SPECIAL))
            elif r < 0.6:
                parts.append(rng.choice(HEXLIKE))
            elif r < 0.75:
                parts.append(rng.choice(LETTERS))
            elif r < 0.9:
                parts.append(rng.choice(BMP + SEPARATORS + C1))
            else:
                parts.append(rng.choice(ASTRAL))
    elif mode < 0.45:
        # an escape-worthy character followed by hex/octal-looking neighbours
        while len(parts) < n:
            parts.append(rng.choice(SPECIAL + BMP[:4] + ASTRAL[:2]))
            for _ in range(rng.choice([0, 1, 1, 2, 3, 8])):
                parts.append(rng.choice(HEXLIKE))
        parts = parts[:n]
    elif mode < 0.6:
        # mostly harmless text with a few hostile characters
        text = [rng.choice("abcdefghij klmnopqrstuvwxyz0123456789ABCDEF") for _ in range(n)]
        for _ in range(rng.choice([1, 1, 2, 3])):
            if text:
                text[rng.randrange(len(text))] = rng.choice(SPECIAL + SEPARATORS + BMP + ASTRAL)
        parts = text
    elif mode < 0.75:
        # look-alikes of escapes and interpolations
        while sum(len(p) for p in parts) < n:
            r = rng.random()
            if r < 0.6:
                parts.append(rng.choice(ESCAPE_TEXTS))
            elif r < 0.8:
                parts.append(rng.choice(HEXLIKE + LETTERS))
            else:
                parts.append(rng.choice(SPECIAL))
        text = "".join(parts)[:n]
        parts = [text]
    elif mode < 0.85:
        # quote-heavy (flips the default quoting of the Python helper)
        while len(parts) < n:
            parts.append(rng.choice(QUOTES * 3 + ["\\", "a", "{", "}", "$", "\n", "0"]))
    elif mode < 0.95:
        # non-ASCII heavy
        while len(parts) < n:
            r = rng.random()
            if r < 0.3:
                parts.append(chr(rng.randrange(0x80, 0x250)))
            elif r < 0.6:
                cp = rng.randrange(0x250, 0xFFFF)
                if 0xD800 <= cp <= 0xDFFF:
                    cp = 0xFFFD
                parts.append(chr(cp))
            elif r < 0.8:
                parts.append(chr(rng.randrange(0x10000, 0x110000)))
            else:
                parts.append(rng.choice(HEXLIKE))
    else:
        # lone surrogates among other things
        while len(parts) < max(n, 1):
            r = rng.random()
            if r < 0.3:
                parts.append(rng.choice(SURROGATES))
            elif r < 0.6:
                parts.append(rng.choice(HEXLIKE + LETTERS))
            else:
                parts.append(rng.choice(SPECIAL + ASTRAL))
        parts = parts[: max(n, 1)]
    return "".join(parts)


def systematic_bytes() -> List[bytes]:
    out = [b""]
    for n in range(1, 41):
        out.append(bytes((i * 37 + n) % 256 for i in range(n)))
    for start in range(0, 256, 8):
        out.append(bytes(range(start, start + 8)))
    out.append(bytes(range(0, 40)))
    out.append(bytes(range(216, 256)))
    out.extend([b"\x00", b"\xff", b'"', b"\\", b"\n", b"'" * 9, b'"\\\n' * 3, b"\x00" * 40,
                b"\xff" * 40, b"0x", b"\x08\x09\x10\x11\x12\x13\x14\x15\x16"])
    return out


def gen_bytes(rng) -> bytes:
    n = rng.choice(list(range(0, 41)) + [0, 1, 7, 8, 9, 15, 16, 17, 24, 25, 40])
    r = rng.random()
    if r < 0.5:
        return bytes(rng.randrange(256) for _ in range(n))
    if r < 0.75:
        return bytes(rng.choice(b"\x00\x01\x0a\x0d\"'\\\x7f\x80\xff0aF{}$`") for _ in range(n))
    return bytes(rng.choice([0, 255, 10, 34, 92]) for _ in range(n))


# --------------------------------------------------------------------------
# items
# --------------------------------------------------------------------------


class Item:
    """One (function, mode, value) together with the emitted text and what it must denote."""

    __slots__ = ("idx", "func", "mode", "keymode", "value", "source", "expected", "kind",
                 "status", "got", "note")

    def __init__(self, func: str, mode: str, keymode: str, value: Any, kind: str) -> None:
        self.idx = -1
        self.func = func
        self.mode = mode
        self.keymode = keymode  # the part of the mode that goes into mechanism keys
        self.value = value
        self.kind = kind
        self.source: Optional[str] = None
        self.expected: Any = None
        # status: None (not decided) | "ok" | "rejected" | "raised" | "skipped"
        self.status: Optional[str] = None
        self.got: Any = None
        self.note = ""

    def ident(self) -> Tuple[str, str, Any]:
        return (self.func, self.mode, self.value)


class ContractRejection(Exception):
    """The value violates a documented precondition of the helper."""


def broken_precondition(fn: Any, *args: Any, **kwargs: Any) -> Optional[str]:
    """
    Evaluate the documented (icontract ``@require``) preconditions of ``fn`` ourselves.

    Return the description of the first one the arguments break, else None.  A value that
    breaks a documented precondition is *our* mistake, not a violation of C19.
    """
    groups = getattr(fn, "__preconditions__", None)
    if not groups:
        return None
    try:
        bound = inspect.signature(fn).bind(*args, **kwargs)
        bound.apply_defaults()
    except TypeError:
        return None
    for group in groups:
        for contract in group:
            try:
                ok = contract.condition(
                    **{name: bound.arguments[name] for name in contract.condition_args}
                )
            except Exception:  # noqa
                continue
            if not ok:
                text = contract.description or "precondition"
                return " ".join(str(text).split())[:80]
    return None


def guarded(fn: Any, *args: Any, **kwargs: Any) -> Any:
    """Call the real helper unless the arguments break one of its documented preconditions."""
    why = broken_precondition(fn, *args, **kwargs)
    if why is not None:
        try:
            fn(*args, **kwargs)
        except Exception as err:  # noqa
            raise ContractRejection(f"{type(err).__name__}: {why}")
        raise ContractRejection(f"returned-despite-precondition: {why}")
    return fn(*args, **kwargs)


class Variant:
    """One way of using a helper: how to emit and what the emitted text must denote."""

    def __init__(
        self,
        func: str,
        mode: str,
        keymode: str,
        kind: str,
        domain: str,
        emit: Callable[[Any], Optional[str]],
        expected: Callable[[Any], Any],
        accepts: Optional[Callable[[Any], bool]] = None,
    ) -> None:
        self.func = func
        self.mode = mode
        self.keymode = keymode
        self.kind = kind
        self.domain = domain  # "str" | "pair" | "bytes" | "char"
        self.emit = emit
        self.expected = expected
        self.accepts = accepts


def pieces_of(value: Any) -> List[Any]:
    """Single characters and adjacent pairs of a failing value (for localisation)."""
    if isinstance(value, (bytes, bytearray)):
        return []
    if isinstance(value, tuple):
        a, b = value
        out: List[Any] = []
        for p in pieces_of(a):
            out.append((p, ""))
        for p in pieces_of(b):
            out.append(("", p))
        if a and b:
            out.append((a[-1], b[0]))
        return out
    out = []
    for i, c in enumerate(value):
        out.append(c)
    for i in range(len(value) - 1):
        out.append(value[i:i + 2])
    return out


# --------------------------------------------------------------------------
# spec decoders (C#, Go) — written from the language specifications
# --------------------------------------------------------------------------


class LiteralError(Exception):
    pass


HEXDIGITS = "0123456789abcdefABCDEF"

# C# 6 standard (ECMA-334) §7.4.5.6 String literals, §7.3.2 Line terminators
CS_NEWLINES = "\r\n\x85\u2028\u2029"
CS_SIMPLE = {"'": 0x27, '"': 0x22, "\\": 0x5C, "0": 0, "a": 7, "b": 8, "f": 12, "n": 10,
             "r": 13, "t": 9, "v": 11}


def decode_csharp_regular_string(src: str) -> List[int]:
    """Decode a C# *regular* string literal into UTF-16 code units (or raise)."""
    if not utf8_encodable(src):
        raise LiteralError(NOT_UTF8)
    if len(src) < 2 or src[0] != '"':
        raise LiteralError("does not start with a double quote")
    out: List[int] = []
    i = 1
    n = len(src)
    while True:
        if i >= n:
            raise LiteralError("unterminated string literal")
        c = src[i]
        if c == '"':
            i += 1
            break
        if c in CS_NEWLINES:
            raise LiteralError(
                f"new_line_character U+{ord(c):04X} inside a regular string literal "
                f"(CS1010 newline in constant)"
            )
        if c != "\\":
            out.extend(utf16_units(c))
            i += 1
            continue
        i += 1
        if i >= n:
            raise LiteralError("backslash at the end")
        e = src[i]
        if e in CS_SIMPLE:
            out.append(CS_SIMPLE[e])
            i += 1
        elif e == "x":
            j = i + 1
            while j < n and j < i + 5 and src[j] in HEXDIGITS:
                j += 1
            if j == i + 1:
                raise LiteralError("\\x without hexadecimal digits (CS1009)")
            out.append(int(src[i + 1:j], 16))
            i = j
        elif e == "u":
            digits = src[i + 1:i + 5]
            if len(digits) != 4 or any(d not in HEXDIGITS for d in digits):
                raise LiteralError("\\u needs exactly four hexadecimal digits (CS1009)")
            out.append(int(digits, 16))
            i += 5
        elif e == "U":
            digits = src[i + 1:i + 9]
            if len(digits) != 8 or any(d not in HEXDIGITS for d in digits):
                raise LiteralError("\\U needs exactly eight hexadecimal digits (CS1009)")
            cp = int(digits, 16)
            if cp > 0x10FFFF:
                raise LiteralError("\\U escape above U+10FFFF (CS1009)")
            if cp >= 0x10000:
                out.extend(utf16_units(chr(cp)))
            else:
                out.append(cp)
            i += 9
        else:
            raise LiteralError(f"unrecognized escape sequence \\{e} (CS1009)")
    if i != n:
        raise LiteralError("text after the closing double quote")
    return out


# The Go Programming Language Specification: String literals, Rune literals,
# Source code representation, Semicolons, Composite literals, Integer literals.
GO_SIMPLE = {"a": 7, "b": 8, "f": 12, "n": 10, "r": 13, "t": 9, "v": 11, "\\": 0x5C, '"': 0x22}


def decode_go_interpreted_string(src: str) -> bytes:
    """Decode a Go interpreted string literal into its bytes (or raise)."""
    if not utf8_encodable(src):
        raise LiteralError(NOT_UTF8)
    if len(src) < 2 or src[0] != '"':
        raise LiteralError("does not start with a double quote")
    out = bytearray()
    i = 1
    n = len(src)
    while True:
        if i >= n:
            raise LiteralError("string literal not terminated")
        c = src[i]
        if c == '"':
            i += 1
            break
        if c == "\n":
            raise LiteralError("newline in string")
        if c == "\x00":
            raise LiteralError("NUL character in source text (gc: illegal character NUL)")
        if c == "\ufeff":
            raise LiteralError("byte order mark in the middle of the source text")
        if c != "\\":
            out.extend(c.encode("utf-8"))
            i += 1
            continue
        i += 1
        if i >= n:
            raise LiteralError("backslash at the end")
        e = src[i]
        if e in GO_SIMPLE:
            out.append(GO_SIMPLE[e])
            i += 1
        elif e == "x":
            digits = src[i + 1:i + 3]
            if len(digits) != 2 or any(d not in HEXDIGITS for d in digits):
                raise LiteralError(
                    "\\x must be followed by exactly two hexadecimal digits "
                    "(invalid character in hexadecimal escape)"
                )
            out.append(int(digits, 16))
            i += 3
        elif e in "01234567":
            digits = src[i:i + 3]
            if len(digits) != 3 or any(d not in "01234567" for d in digits):
                raise LiteralError("octal escape needs exactly three octal digits")
            value = int(digits, 8)
            if value > 255:
                raise LiteralError("octal escape value > 255")
            out.append(value)
            i += 3
        elif e in "uU":
            width = 4 if e == "u" else 8
            digits = src[i + 1:i + 1 + width]
            if len(digits) != width or any(d not in HEXDIGITS for d in digits):
                raise LiteralError(f"\\{e} needs exactly {width} hexadecimal digits")
            cp = int(digits, 16)
            if cp > 0x10FFFF or 0xD800 <= cp <= 0xDFFF:
                raise LiteralError(
                    f"escape \\{e}{digits} is an invalid Unicode code point "
                    f"(surrogate half or above U+10FFFF)"
                )
            out.extend(chr(cp).encode("utf-8"))
            i += 1 + width
        else:
            raise LiteralError(f"unknown escape sequence \\{e}")
    if i != n:
        raise LiteralError("text after the closing double quote")
    return bytes(out)


GO_TOKEN = re.compile(
    r"(?P<ws>[ \t\r]+)|(?P<nl>\n)|(?P<ellipsis>\.\.\.)|(?P<punct>[\[\]{},])"
    r"|(?P<int>0[xX]_?[0-9a-fA-F]+(?:_[0-9a-fA-F]+)*|0[bB]_?[01]+|0[oO]?_?[0-7]+|0|[1-9][0-9]*)"
    r"|(?P<ident>[A-Za-z_][A-Za-z_0-9]*)"
)


def decode_go_byte_array(src: str) -> bytes:
    """Decode a Go composite literal ``[...]byte{...}`` (or raise), with semicolon insertion."""
    tokens: List[Tuple[str, str]] = []
    pos = 0
    last_significant: Optional[Tuple[str, str]] = None
    while pos < len(src):
        m = GO_TOKEN.match(src, pos)
        if m is None:
            raise LiteralError(f"unexpected character {src[pos]!r} in the byte-array expression")
        pos = m.end()
        kind = m.lastgroup
        assert kind is not None
        if kind == "ws":
            continue
        if kind == "nl":
            # "Semicolons", rule 1: after a line's final token if it is an identifier, a
            # literal, or one of ) ] } (among others)
            if last_significant is not None and (
                last_significant[0] in ("int", "ident") or last_significant[1] in ("]", "}")
            ):
                tokens.append(("semicolon", ";"))
                last_significant = None
            continue
        tok = (kind, m.group())
        tokens.append(tok)
        last_significant = tok

    def expect(k: int, text: str) -> None:
        if k >= len(tokens) or tokens[k][1] != text:
            got = tokens[k][1] if k < len(tokens) else "<end>"
            if k < len(tokens) and tokens[k][0] == "semicolon":
                got = "newline (automatic semicolon)"
            raise LiteralError(f"syntax error: unexpected {got}, expected {text}")

    for k, text in enumerate(["[", "...", "]", "byte", "{"]):
        expect(k, text)
    k = 5
    out = bytearray()
    while True:
        if k >= len(tokens):
            raise LiteralError("syntax error: unexpected end, expected }")
        if tokens[k][1] == "}":
            k += 1
            break
        if tokens[k][0] != "int":
            if tokens[k][0] == "semicolon":
                raise LiteralError(
                    "syntax error: unexpected newline in composite literal; "
                    "possibly missing comma or }"
                )
            raise LiteralError(f"syntax error: unexpected {tokens[k][1]} in composite literal")
        text = tokens[k][1].replace("_", "")
        if text[:2] in ("0x", "0X"):
            value = int(text[2:], 16)
        elif text[:2] in ("0b", "0B"):
            value = int(text[2:], 2)
        elif text[:2] in ("0o", "0O"):
            value = int(text[2:], 8)
        elif len(text) > 1 and text[0] == "0":
            value = int(text[1:], 8)
        else:
            value = int(text)
        if value > 255:
            raise LiteralError(f"constant {value} overflows byte")
        out.append(value)
        k += 1
        if k < len(tokens) and tokens[k][1] == ",":
            k += 1
            continue
        if k < len(tokens) and tokens[k][1] == "}":
            k += 1
            break
        if k < len(tokens) and tokens[k][0] == "semicolon":
            raise LiteralError(
                "syntax error: unexpected newline in composite literal; "
                "possibly missing comma or }"
            )
        got = tokens[k][1] if k < len(tokens) else "<end>"
        raise LiteralError(f"syntax error: unexpected {got} in composite literal")
    if k != len(tokens):
        raise LiteralError("text after the closing brace")
    return bytes(out)


SELFTEST_CASES = [0]


def selftest_decoders() -> List[str]:
    """Check the spec decoders on the examples of the specifications; return problems."""
    problems: List[str] = []
    SELFTEST_CASES[0] = 0

    def expect_go(src: str, want: Optional[bytes]) -> None:
        SELFTEST_CASES[0] += 1
        try:
            got: Optional[bytes] = decode_go_interpreted_string(src)
        except LiteralError:
            got = None
        if got != want:
            problems.append(f"go decoder: {src!r} -> {got!r}, specification says {want!r}")

    expect_go('"\\n"', b"\n")
    expect_go('"\\""', b'"')
    expect_go('"Hello, world!\\n"', b"Hello, world!\n")
    expect_go('"\u65e5\u672c\u8a9e"', "\u65e5\u672c\u8a9e".encode())
    expect_go('"\\u65e5\u672c\\U00008a9e"', "\u65e5\u672c\u8a9e".encode())
    expect_go('"\\xff\\u00FF"', b"\xff\xc3\xbf")
    expect_go('"\\uD800"', None)
    expect_go('"\\U00110000"', None)
    expect_go('"\\xe6\\x97\\xa5\\xe6\\x9c\\xac\\xe8\\xaa\\x9e"', "\u65e5\u672c\u8a9e".encode())
    expect_go('"\\000\\007\\377"', b"\x00\x07\xff")
    expect_go('"\\400"', None)
    expect_go('"\\0"', None)
    expect_go('"\\xa"', None)
    expect_go('"\\\'"', None)
    expect_go('"\\k"', None)
    expect_go('"a\nb"', None)
    expect_go('"a', None)
    expect_go('"a"b"', None)

    def expect_cs(src: str, want: Optional[str]) -> None:
        SELFTEST_CASES[0] += 1
        try:
            got: Optional[List[int]] = decode_csharp_regular_string(src)
        except LiteralError:
            got = None
        want_units = None if want is None else utf16_units(want)
        if got != want_units:
            problems.append(f"C# decoder: {src!r} -> {got!r}, specification says {want_units!r}")

    expect_cs('"hello, world"', "hello, world")
    expect_cs('"hello \\t world"', "hello \t world")
    expect_cs('"Joe said \\"Hello\\" to me"', 'Joe said "Hello" to me')
    expect_cs('"\\\\\\\\server\\\\share\\\\file.txt"', "\\\\server\\share\\file.txt")
    expect_cs('"one\\r\\ntwo\\r\\nthree"', "one\r\ntwo\r\nthree")
    expect_cs('"\\x9Good text"', "\x09Good text")  # the specification's example of greedy \x
    expect_cs('"\\x123"', "\u0123")
    expect_cs('"\\u0041\\U0001F600\\0\\\'"', "A\U0001f600\0'")
    expect_cs('"a\u2028b"', None)
    expect_cs('"a\x85b"', None)
    expect_cs('"a\nb"', None)
    expect_cs('"\\q"', None)
    expect_cs('"\\u12"', None)
    expect_cs('"abc', None)
    expect_cs('"a"b"', None)
    expect_cs('"\U0001f600\x00\x7f"', "\U0001f600\x00\x7f")

    def expect_gb(src: str, want: Optional[bytes]) -> None:
        SELFTEST_CASES[0] += 1
        try:
            got: Optional[bytes] = decode_go_byte_array(src)
        except LiteralError:
            got = None
        if got != want:
            problems.append(f"go byte-array decoder: {src!r} -> {got!r}, expected {want!r}")

    expect_gb("[...]byte{}", b"")
    expect_gb("[...]byte{0x00, 0xff}", b"\x00\xff")
    expect_gb("[...]byte {\n\t0x01,\n\t0x02,\n}", b"\x01\x02")
    expect_gb("[...]byte {\n\t0x01,\n\t0x02\n}", None)  # semicolon inserted after 0x02
    expect_gb("[...]byte{0x100}", None)
    expect_gb("[...]byte{1 2}", None)

    # cross-check with Python on the escapes both languages share
    shared = ['"\\a\\b\\f\\n\\r\\t\\v\\\\\\""', '"\\x41\\x7f\\u00e9\\U0001f600 plain"',
              '"\\101\\060"']
    for src in shared:
        py = ast.literal_eval(src)
        try:
            go = decode_go_interpreted_string(src)
            if go != py.encode("utf-8"):
                problems.append(f"go decoder disagrees with Python on {src!r}")
        except LiteralError as err:
            problems.append(f"go decoder rejects {src!r}: {err}")
        if "\\1" not in src:
            try:
                cs = decode_csharp_regular_string(src)
                if cs != utf16_units(py):
                    problems.append(f"C# decoder disagrees with Python on {src!r}")
            except LiteralError as err:
                problems.append(f"C# decoder rejects {src!r}: {err}")
    return problems


# --------------------------------------------------------------------------
# legs
# --------------------------------------------------------------------------


class Leg:
    lang = "?"
    batch_items = 2000
    parallel = 1  # batches evaluated concurrently (threads that wait for a compiler)
    localisation_budget = 20000

    def __init__(self, chk: harness.Check) -> None:
        self.chk = chk
        self.variants: List[Variant] = []
        self.lock = threading.Lock()

    def count(self, name: str, n: int = 1) -> None:
        with self.lock:
            self.chk.count(name, n)

    def add_seconds(self, name: str, seconds: float) -> None:
        with self.lock:
            self.chk.extra[name] = round(self.chk.extra.get(name, 0.0) + seconds, 1)

    def available(self) -> Optional[str]:
        """Return None if usable, else the reason."""
        return None

    def evaluate(self, items: List[Item]) -> None:
        raise NotImplementedError


_REAL_TRANSPILERS: Dict[str, Any] = {}


def real_joined_str(target: str, pair: Tuple[str, str]) -> Optional[str]:
    """``f"<a>{X}<b>"`` through the real transpiler of the target (None: refused)."""
    import ast as _ast
    import importlib

    from aas_core_codegen.common import Identifier
    from aas_core_codegen.intermediate import type_inference
    from aas_core_codegen.parse import tree as parse_tree

    if target not in _REAL_TRANSPILERS:
        module = importlib.import_module(f"aas_core_codegen.{target}.transpilation")

        class OnlyNames(module.Transpiler):  # type: ignore
            def transform_name(self, node):  # type: ignore
                return str(node.identifier), None

        environment = type_inference.MutableEnvironment(parent=None)
        environment.set(
            Identifier("X"),
            type_inference.PrimitiveTypeAnnotation(type_inference.PrimitiveType.STR),
        )
        _REAL_TRANSPILERS[target] = (OnlyNames, environment)
    cls, environment = _REAL_TRANSPILERS[target]
    origin = _ast.parse("X", mode="eval").body
    name = parse_tree.Name(identifier=Identifier("X"), original_node=origin)
    node = parse_tree.JoinedStr(
        values=[pair[0], parse_tree.FormattedValue(value=name, original_node=origin), pair[1]],
        original_node=origin,
    )
    str_type = type_inference.PrimitiveTypeAnnotation(type_inference.PrimitiveType.STR)
    transpiler = cls(type_map={name: str_type, node: str_type}, environment=environment)
    code, error = transpiler.transform_joined_str(node)
    if error is not None:
        return None
    return str(code)


def _safe_py_eval(src: str, fstring: bool) -> Any:
    """Evaluate a Python literal; for f-strings allow only ``{X}`` as expression."""
    if not fstring:
        return ast.literal_eval(src)
    tree = ast.parse(src, mode="eval")
    body = tree.body
    nodes = [body]
    if isinstance(body, ast.JoinedStr):
        nodes = list(body.values)
    elif not isinstance(body, ast.Constant):
        raise LiteralError(f"not an f-string but {type(body).__name__}")
    for node in nodes:
        if isinstance(node, ast.Constant) and isinstance(node.value, str):
            continue
        if (
            isinstance(node, ast.FormattedValue)
            and isinstance(node.value, ast.Name)
            and node.value.id == "X"
            and node.conversion == -1
            and node.format_spec is None
        ):
            continue
        raise LiteralError(
            "the f-string interpolates something else than the expected {X}: "
            + ast.dump(node)[:160]
        )
    return eval(compile(tree, "<c19>", "eval"), {"__builtins__": {}}, {"X": X_MARK})


class PythonLeg(Leg):
    lang = "python"
    batch_items = 20000

    def __init__(self, chk: harness.Check) -> None:
        super().__init__(chk)
        from aas_core_codegen.python import common as m

        Q = m.StringQuoting
        quotings = [("single", Q.SINGLE_QUOTES, "'"), ("double", Q.DOUBLE_QUOTES, '"')]

        def ident(v: Any) -> Any:
            return v

        V = self.variants
        V.append(Variant("string_literal", "default", "", "py", "str",
                         lambda v: guarded(m.string_literal, v), ident))
        for name, q, enc in quotings:
            V.append(Variant("string_literal", name, "", "py", "str",
                             lambda v, q=q: guarded(m.string_literal, v, quoting=q), ident))
            V.append(Variant(
                "string_literal", name + "-noenc", "", "py", "str",
                lambda v, q=q, enc=enc: enc + guarded(m.string_literal, v, quoting=q, without_enclosing=True) + enc,
                ident))
            V.append(Variant(
                "string_literal", "f-" + name, "[f-string]", "pyf", "str",
                lambda v, q=q: "f" + guarded(m.string_literal, v, quoting=q, duplicate_curly_brackets=True),
                ident))
        V.append(Variant(
            "string_literal", "f-default", "[f-string]", "pyf", "str",
            lambda v: "f" + guarded(m.string_literal, v, duplicate_curly_brackets=True), ident))

        def fgen(v: Tuple[str, str]) -> str:
            # exactly as python/transpilation.py:transform_joined_str composes it
            a, b = v
            doubles = a.count('"') + b.count('"')
            singles = a.count("'") + b.count("'")
            if singles <= doubles:
                enc, q = "'", Q.SINGLE_QUOTES
            else:
                enc, q = '"', Q.DOUBLE_QUOTES
            parts = [
                guarded(m.string_literal, a, quoting=q, without_enclosing=True,
                                 duplicate_curly_brackets=True),
                "{X}",
                guarded(m.string_literal, b, quoting=q, without_enclosing=True,
                                 duplicate_curly_brackets=True),
            ]
            return "f" + enc + "".join(parts) + enc

        V.append(Variant("string_literal", "f-generator", "[f-string]", "pyf", "pair", fgen,
                         lambda v: v[0] + X_MARK + v[1]))

        def real_fgen(v: Tuple[str, str]) -> Optional[str]:
            # the transpiler itself: python/transpilation.py:Transpiler.transform_joined_str
            for part in v:  # documented preconditions of the helper it calls
                guarded(m.string_literal, part, without_enclosing=True, duplicate_curly_brackets=True)
            return real_joined_str("python", v)

        V.append(Variant("transform_joined_str", "f-transpiler", "[f-string]", "pyf", "pair",
                         real_fgen, lambda v: v[0] + X_MARK + v[1]))

        V.append(Variant("bytes_literal", "", "", "py", "bytes",
                         lambda v: "(\n" + guarded(m.bytes_literal, v)[0] + "\n)", lambda v: bytes(v)))

        def needs(v: str) -> Optional[str]:
            return None if guarded(m.needs_escaping, v) else '"' + v + '"'

        def needs_curly(v: str) -> Optional[str]:
            if guarded(m.needs_escaping, v, also_check_curly_brackets=True):
                return None
            return 'f"' + v + '"'

        V.append(Variant("needs_escaping", "", "", "py", "str", needs, ident,
                         accepts=lambda v: not has_surrogate(v)))
        V.append(Variant("needs_escaping", "curly", "[curly]", "pyf", "str", needs_curly, ident,
                         accepts=lambda v: not has_surrogate(v)))

    def evaluate(self, items: List[Item]) -> None:
        for it in items:
            assert it.source is not None
            try:
                it.got = _safe_py_eval(it.source, fstring=(it.kind == "pyf"))
                it.status = "ok"
            except (SyntaxError, ValueError, LiteralError, UnicodeError, MemoryError,
                    RecursionError, NameError, TypeError) as err:
                it.status = "rejected"
                it.note = f"{type(err).__name__}: {err}"[:300]


class CSharpLeg(Leg):
    lang = "csharp"
    batch_items = 20000

    def __init__(self, chk: harness.Check) -> None:
        super().__init__(chk)
        from aas_core_codegen.csharp import common as m

        self.variants.append(Variant("string_literal", "", "", "cs", "str",
                                     lambda v: guarded(m.string_literal, v), utf16_units))
        self.variants.append(Variant(
            "needs_escaping", "", "", "cs", "str",
            lambda v: None if guarded(m.needs_escaping, v) else '"' + v + '"', utf16_units,
            accepts=lambda v: not has_surrogate(v)))

    def evaluate(self, items: List[Item]) -> None:
        for it in items:
            assert it.source is not None
            try:
                it.got = decode_csharp_regular_string(it.source)
                it.status = "ok"
            except LiteralError as err:
                it.status = "rejected"
                it.note = str(err)


class GoLeg(Leg):
    lang = "golang"
    batch_items = 20000

    def __init__(self, chk: harness.Check) -> None:
        super().__init__(chk)
        from aas_core_codegen.golang import common as m

        def expected(v: str) -> Any:
            try:
                return v.encode("utf-8")
            except UnicodeEncodeError:
                # Go strings hold bytes; a lone surrogate has no UTF-8 form, so no
                # literal can denote the value: only an error would do.
                return None

        self.variants.append(Variant("string_literal", "", "", "go", "str",
                                     lambda v: guarded(m.string_literal, v), expected))
        self.variants.append(Variant("bytes_literal", "", "", "gob", "bytes",
                                     lambda v: guarded(m.bytes_literal, v)[0], lambda v: bytes(v)))
        # NOTE: raw NUL and a raw byte order mark "may" be disallowed by a Go compiler; too
        # weak a ground to judge ``needs_escaping`` on, so such values are left out here.
        self.variants.append(Variant(
            "needs_escaping", "", "", "go", "str",
            lambda v: None if guarded(m.needs_escaping, v) else '"' + v + '"', expected,
            accepts=lambda v: not has_surrogate(v) and "\x00" not in v and "\ufeff" not in v))

    def evaluate(self, items: List[Item]) -> None:
        for it in items:
            assert it.source is not None
            try:
                if it.kind == "gob":
                    it.got = decode_go_byte_array(it.source)
                else:
                    it.got = decode_go_interpreted_string(it.source)
                it.status = "ok"
            except LiteralError as err:
                it.status = "rejected"
                it.note = str(err)


class TypeScriptLeg(Leg):
    lang = "typescript"
    batch_items = 40000

    def __init__(self, chk: harness.Check) -> None:
        super().__init__(chk)
        from aas_core_codegen.typescript import common as m

        V = self.variants
        V.append(Variant("string_literal", "quoted", "", "js", "str",
                         lambda v: guarded(m.string_literal, v), utf16_units))
        V.append(Variant("string_literal", "quoted-noenc", "", "js", "str",
                         lambda v: '"' + guarded(m.string_literal, v, without_enclosing=True) + '"',
                         utf16_units))
        V.append(Variant("string_literal", "template", "[template]", "js", "str",
                         lambda v: guarded(m.string_literal, v, in_backticks=True), utf16_units))
        V.append(Variant(
            "string_literal", "template-noenc", "[template]", "js", "str",
            lambda v: "`" + guarded(m.string_literal, v, without_enclosing=True, in_backticks=True) + "`",
            utf16_units))

        def tgen(v: Tuple[str, str]) -> str:
            # exactly as typescript/transpilation.py:transform_joined_str composes it
            a, b = v
            parts = [
                guarded(m.string_literal, a, without_enclosing=True, in_backticks=True),
                "${X}",
                guarded(m.string_literal, b, without_enclosing=True, in_backticks=True),
            ]
            return "`" + "".join(parts) + "`"

        V.append(Variant("string_literal", "template-generator", "[template]", "js", "pair",
                         tgen, lambda v: utf16_units(v[0] + X_MARK + v[1])))

        def real_tgen(v: Tuple[str, str]) -> Optional[str]:
            # the transpiler itself: typescript/transpilation.py:Transpiler.transform_joined_str
            for part in v:  # documented preconditions of the helper it calls
                guarded(m.string_literal, part, without_enclosing=True, in_backticks=True)
            return real_joined_str("typescript", v)

        V.append(Variant("transform_joined_str", "template-transpiler", "[template]", "js", "pair",
                         real_tgen, lambda v: utf16_units(v[0] + X_MARK + v[1])))
        V.append(Variant("bytes_literal", "", "", "jsb", "bytes",
                         lambda v: guarded(m.bytes_literal, v)[0], lambda v: list(v)))
        V.append(Variant(
            "needs_escaping", "", "", "js", "str",
            lambda v: None if guarded(m.needs_escaping, v) else '"' + v + '"', utf16_units,
            accepts=lambda v: not has_surrogate(v)))
        V.append(Variant(
            "needs_escaping", "in-backticks", "[template]", "js", "str",
            lambda v: None if guarded(m.needs_escaping, v, in_backticks=True) else "`" + v + "`",
            utf16_units, accepts=lambda v: not has_surrogate(v)))
        self.node = NODE22 if os.path.exists(NODE22) else shutil.which("node")

    def available(self) -> Optional[str]:
        if self.node is None:
            return "node is not installed"
        if not (NATIVE / "driver.mjs").exists():
            return "native/c19/driver.mjs is missing"
        return None

    def evaluate(self, items: List[Item]) -> None:
        pending = []
        for it in items:
            assert it.source is not None
            if not utf8_encodable(it.source):
                it.status, it.note = "rejected", NOT_UTF8
            else:
                pending.append(it)
        if not pending:
            return
        work = env.new_dir("c19ts")
        try:
            lines = ["export default function (X) { return ["]
            for it in pending:
                lines.append(f"[{it.idx},\n{it.source}\n],")
            lines.append("]; }")
            (work / "cases.mjs").write_text("\n".join(lines) + "\n", encoding="utf-8")
            (work / "sources.json").write_text(
                json.dumps([[it.idx, it.source] for it in pending], ensure_ascii=False),
                encoding="utf-8",
            )
            assert self.node is not None
            try:
                proc = subprocess.run(
                    [self.node, str(NATIVE / "driver.mjs"), str(work)],
                    stdout=subprocess.PIPE, stderr=subprocess.PIPE, timeout=300,
                )
            except subprocess.TimeoutExpired:
                self.count("typescript_batches_timed_out")
                for it in pending:
                    it.status, it.note = "skipped", "node timed out"
                return
            if proc.returncode != 0:
                self.chk.harness_error(
                    "node driver failed: " + proc.stderr.decode("utf-8", "replace")[-400:]
                )
                for it in pending:
                    it.status, it.note = "skipped", "node driver failed"
                return
            by_idx = {it.idx: it for it in pending}
            for line in proc.stdout.decode("utf-8").splitlines():
                if line.startswith("# how="):
                    with self.lock:
                        self.chk.hist("typescript_evaluation_path", line[6:].split(" ")[0])
                    continue
                head, _, rest = line.partition(" ")
                it = by_idx[int(head)]
                state, _, payload = rest.partition(" ")
                if state == "ok":
                    kind, _, numbers = payload.partition(" ")
                    it.got = [int(x, 16) for x in numbers.split()]
                    it.status = "ok"
                    if (kind == "B") != (it.kind == "jsb"):
                        it.status, it.note = "rejected", f"unexpected type of value ({kind})"
                else:
                    it.status, it.note = "rejected", payload[:300]
            for it in pending:
                if it.status is None:
                    it.status, it.note = "skipped", "no output line from the node driver"
        finally:
            shutil.rmtree(work, ignore_errors=True)


class CompiledLeg(Leg):
    """A leg whose literals go through a real compiler in batches (one case per line)."""

    confirm_cap = 80

    def compile_and_run(self, items: List[Item], work: pathlib.Path):
        """Return ("ok", None) after filling the items, ("blamed", {idx: msg}) or ("fail", text)."""
        raise NotImplementedError

    def confirm(self, items: List[Item], work: pathlib.Path) -> Dict[int, str]:
        """Compile each item in a file of its own; return {idx: message} of those refused."""
        raise NotImplementedError

    def line_unsafe(self, source: str) -> bool:
        return False

    def evaluate(self, items: List[Item]) -> None:
        chk = self.chk
        pending: List[Item] = []
        for it in items:
            assert it.source is not None
            if not utf8_encodable(it.source):
                it.status, it.note = "rejected", NOT_UTF8
            else:
                pending.append(it)
        work = env.new_dir(f"c19{self.lang}")
        try:
            # literals with a raw line break would shift the line numbers used for blame
            unsafe = [it for it in pending if self.line_unsafe(it.source or "")]
            if unsafe:
                head, tail = unsafe[: self.confirm_cap], unsafe[self.confirm_cap:]
                refused = self.confirm(head, work)
                for it in head:
                    if it.idx in refused:
                        it.status, it.note = "rejected", refused[it.idx]
                for it in tail:
                    it.status, it.note = "skipped", "raw line break, over the confirmation cap"
                self.count(f"{self.lang}_items_with_raw_line_break", len(unsafe))
                pending = [it for it in pending if it.status is None]
            for _round in range(5):
                if not pending:
                    break
                state, payload = self.compile_and_run(pending, work)
                if state == "ok":
                    pending = [it for it in pending if it.status is None]
                    for it in pending:
                        it.status, it.note = "skipped", "no output line from the driver"
                    pending = []
                    break
                if state == "fail":
                    for it in pending:
                        it.status, it.note = "skipped", str(payload)[:300]
                    self.count(f"{self.lang}_batches_failed")
                    with self.lock:
                        chk.sample({"leg": self.lang, "batch_failure": str(payload)[:600]})
                    pending = []
                    break
                blamed: Dict[int, str] = payload
                blamed_items = [it for it in pending if it.idx in blamed]
                if not blamed_items:
                    for it in pending:
                        it.status, it.note = "skipped", "compile errors could not be attributed"
                    self.count(f"{self.lang}_batches_failed")
                    pending = []
                    break
                head, tail = blamed_items[: self.confirm_cap], blamed_items[self.confirm_cap:]
                refused = self.confirm(head, work)
                progress = False
                for it in head:
                    if it.idx in refused:
                        it.status, it.note = "rejected", refused[it.idx]
                        progress = True
                    else:
                        self.count(f"{self.lang}_blamed_but_compiles_alone")
                for it in tail:
                    it.status, it.note = "skipped", "blamed, over the confirmation cap"
                    progress = True
                pending = [it for it in pending if it.status is None]
                if not progress:
                    for it in pending:
                        it.status, it.note = "skipped", "batch fails although every blamed case compiles alone"
                    self.count(f"{self.lang}_batches_failed")
                    pending = []
                    break
            for it in pending:
                it.status, it.note = "skipped", "too many compile rounds"
        finally:
            shutil.rmtree(work, ignore_errors=True)


def _run(cmd: List[str], cwd: pathlib.Path, timeout: float, extra_env: Optional[Dict[str, str]] = None):
    environ = dict(os.environ)
    if extra_env:
        environ.update(extra_env)
    try:
        proc = subprocess.run(cmd, cwd=str(cwd), stdout=subprocess.PIPE, stderr=subprocess.PIPE,
                              timeout=timeout, env=environ)
        return proc.returncode, proc.stdout, proc.stderr
    except subprocess.TimeoutExpired:
        return None, b"", b"timeout"


class CppLeg(CompiledLeg):
    lang = "cpp"
    batch_items = 1200
    parallel = 3
    localisation_budget = 2400
    FLAGS = ["-std=c++17", "-O0", "-fsanitize=address,undefined", "-fmax-errors=0", "-w"]

    def __init__(self, chk: harness.Check) -> None:
        super().__init__(chk)
        from aas_core_codegen.cpp import common as m

        def code_points(v: str) -> List[int]:
            return [ord(c) for c in v]

        V = self.variants
        V.append(Variant("wstring_literal", "", "", "W", "str",
                         lambda v: guarded(m.wstring_literal, v), code_points))
        V.append(Variant("wchar_literal", "", "", "C", "char",
                         lambda v: guarded(m.wchar_literal, v), code_points))

        V.append(Variant("string_literal", "", "", "N", "str",
                         lambda v: guarded(m.string_literal, v), code_points))
        V.append(Variant("bytes_literal", "", "", "B", "bytes",
                         lambda v: guarded(m.bytes_literal, v)[0], lambda v: list(v)))
        V.append(Variant(
            "needs_escaping", "", "", "W", "str",
            lambda v: None if guarded(m.needs_escaping, v) else 'L"' + v + '"', code_points,
            accepts=lambda v: len(v) <= 8 and not has_surrogate(v)))
        self.template = (NATIVE / "driver.cpp.in").read_text() if (
            NATIVE / "driver.cpp.in").exists() else None
        self.gxx = shutil.which("g++")

    def available(self) -> Optional[str]:
        if self.gxx is None:
            return "g++ is not installed"
        if self.template is None:
            return "native/c19/driver.cpp.in is missing"
        return None

    def line_unsafe(self, source: str) -> bool:
        return "\r" in source or ("\n" in source and not source.lstrip().startswith(("{", "(")))

    @staticmethod
    def _case_line(it: Item) -> str:
        # NOTE: a macro (not the literal written twice) computes the size of string
        # literals, so the emitted text appears exactly once per case.
        if it.kind == "W":
            return f"static const WCase k{it.idx} = W_CASE({it.idx}, {it.source});"
        if it.kind == "N":
            return f"static const NCase k{it.idx} = N_CASE({it.idx}, {it.source});"
        if it.kind == "C":
            return f"static const CCase k{it.idx} = {{{it.idx}, {it.source}}};"
        return f"static const BCase k{it.idx} = {{{it.idx}, {it.source}}};"

    def _render(self, items: List[Item]) -> Tuple[str, List[int]]:
        assert self.template is not None
        head, _, rest = self.template.partition("//@@CASES@@")
        line_no = head.count("\n") + 1
        starts: List[int] = []
        case_lines: List[str] = []
        for it in items:
            text = self._case_line(it)
            starts.append(line_no)
            case_lines.append(text)
            line_no += text.count("\n") + 1
        for kind in "WNCB":
            refs = "\n".join(f"  &k{it.idx}," for it in items if it.kind == kind)
            rest = rest.replace(f"//@@{kind}@@", refs)
        return head + "\n".join(case_lines) + rest, starts

    def compile_and_run(self, items: List[Item], work: pathlib.Path):
        assert self.gxx is not None
        src, starts = self._render(items)
        bdir = work / f"batch{time.time_ns()}_{threading.get_ident()}"
        bdir.mkdir()
        (bdir / "batch.cpp").write_text(src, encoding="utf-8")
        t0 = time.time()
        rc, out, err = _run([self.gxx] + self.FLAGS + ["-o", "batch", "batch.cpp"], bdir, 600)
        self.count("cpp_compiles")
        self.add_seconds("cpp_compile_seconds", time.time() - t0)
        if rc is None:
            return "fail", "g++ timed out"
        if rc != 0:
            blamed: Dict[int, str] = {}
            text = err.decode("utf-8", "replace")
            for m in re.finditer(r"^batch\.cpp:(\d+):(?:\d+:)? (?:fatal )?error: (.*)$", text, re.M):
                k = bisect.bisect_right(starts, int(m.group(1))) - 1
                if 0 <= k < len(items):
                    blamed.setdefault(items[k].idx, m.group(2)[:200])
            if not blamed:
                return "fail", "g++ failed: " + text[-500:]
            return "blamed", blamed
        rc, out, err = _run(["./batch"], bdir, 300, {"ASAN_OPTIONS": "detect_leaks=0"})
        if rc is None:
            return "fail", "compiled driver timed out"
        if rc != 0 or err.strip():
            self.count("cpp_sanitizer_or_runtime_reports")
            return "fail", "driver rc=%s stderr=%s" % (rc, err.decode("utf-8", "replace")[-500:])
        by_idx = {it.idx: it for it in items}
        for line in out.decode("ascii").splitlines():
            fields = line.split()
            it = by_idx[int(fields[0])]
            it.got = [int(x, 16) for x in fields[2:]]
            it.status = "ok"
        shutil.rmtree(bdir, ignore_errors=True)
        return "ok", None

    CONFIRM_PRELUDE = (
        "typedef decltype(sizeof 0) c19_size;\n"
        "struct WCase { int id; c19_size n; const wchar_t* s; };\n"
        "struct NCase { int id; c19_size n; const char* s; };\n"
        "struct CCase { int id; wchar_t c; };\n"
        "#define W_CASE(ID, ...) {ID, sizeof(__VA_ARGS__) / sizeof(wchar_t) - 1, __VA_ARGS__}\n"
        "#define N_CASE(ID, ...) {ID, sizeof(__VA_ARGS__) - 1, __VA_ARGS__}\n"
    )
    CONFIRM_PRELUDE_BYTES = (
        "#include <cstdint>\n#include <vector>\n"
        "struct BCase { int id; std::vector<std::uint8_t> v; };\n"
    )

    def _syntax_only(self, cdir: pathlib.Path, name: str):
        assert self.gxx is not None
        self.count("cpp_confirmation_compiles")
        return _run([self.gxx, "-std=c++17", "-fsyntax-only", "-fmax-errors=0", "-w", name],
                    cdir, 300)

    def confirm(self, items: List[Item], work: pathlib.Path) -> Dict[int, str]:
        """
        Decide which of the blamed cases g++ really refuses.

        First all of them in one translation unit, separated by guard declarations: if
        only case lines carry errors (no guard, no other line), the blame is accepted.
        Otherwise every case is compiled in a file of its own.
        """
        if not items:
            return {}
        cdir = work / f"confirm{time.time_ns()}_{threading.get_ident()}"
        cdir.mkdir()
        prelude = self.CONFIRM_PRELUDE
        if any(it.kind == "B" for it in items):
            prelude += self.CONFIRM_PRELUDE_BYTES
        refused: Dict[int, str] = {}
        try:
            lines = prelude.splitlines()
            owner: Dict[int, Item] = {}
            for it in items:
                lines.append(f"static const int guard_before_{it.idx} = 0;")
                text = self._case_line(it)
                for k in range(text.count("\n") + 1):
                    owner[len(lines) + 1 + k] = it
                lines.extend(text.split("\n"))
            lines.append("static const int guard_at_the_end = 0;")
            (cdir / "all.cpp").write_text("\n".join(lines) + "\n", encoding="utf-8")
            rc, _out, err = self._syntax_only(cdir, "all.cpp")
            if rc == 0:
                return {}
            clean = rc is not None
            text = err.decode("utf-8", "replace")
            found: Dict[int, str] = {}
            for m in re.finditer(r"^all\.cpp:(\d+):(?:\d+:)? (?:fatal )?error: (.*)$", text, re.M):
                it = owner.get(int(m.group(1)))
                if it is None:
                    clean = False
                    break
                found.setdefault(it.idx, "g++: " + m.group(2)[:240])
            if clean and found:
                return found
            # fall back: one file per case, so that no failure hides or causes another
            self.count("cpp_confirmations_one_file_per_case")
            for it in items:
                name = f"k{it.idx}.cpp"
                (cdir / name).write_text(
                    prelude + self._case_line(it) + "\n", encoding="utf-8")
                rc, _out, err = self._syntax_only(cdir, name)
                if rc != 0:
                    text = err.decode("utf-8", "replace")
                    m = re.search(r"error: (.*)", text)
                    refused[it.idx] = "g++: " + (m.group(1) if m else text[-200:])[:240]
            return refused
        finally:
            shutil.rmtree(cdir, ignore_errors=True)


class JavaLeg(CompiledLeg):
    lang = "java"
    batch_items = 3000
    parallel = 2
    localisation_budget = 3000
    per_class = 1500

    def __init__(self, chk: harness.Check) -> None:
        super().__init__(chk)
        from aas_core_codegen.java import common as m

        self.variants.append(Variant("string_literal", "", "", "S", "str",
                                     lambda v: guarded(m.string_literal, v), utf16_units))
        self.variants.append(Variant(
            "needs_escaping", "", "", "S", "str",
            lambda v: None if guarded(m.needs_escaping, v) else '"' + v + '"', utf16_units,
            accepts=lambda v: len(v) <= 8 and not has_surrogate(v)))
        self.template = (NATIVE / "Batch.java.in").read_text() if (
            NATIVE / "Batch.java.in").exists() else None
        self.javac = shutil.which("javac")
        self.java = shutil.which("java")

    def available(self) -> Optional[str]:
        if self.javac is None or self.java is None:
            return "javac/java are not installed"
        if self.template is None:
            return "native/c19/Batch.java.in is missing"
        return None

    def line_unsafe(self, source: str) -> bool:
        # raw line terminators, or unicode escapes that javac turns into them before lexing
        if "\r" in source or "\n" in source:
            return True
        for m in re.finditer(r"(\\+)u+000[aAdD]", source):
            if len(m.group(1)) % 2 == 1:
                return True
        return False

    @staticmethod
    def _case_line(it: Item) -> str:
        return f"static void c{it.idx}(StringBuilder sb) {{ p(sb, {it.idx}, {it.source}); }}"

    def _render(self, cls: str, items: List[Item]) -> Tuple[str, List[int]]:
        assert self.template is not None
        text = self.template.replace("@@CLASS@@", cls)
        head, _, rest = text.partition("//@@CASES@@")
        line_no = head.count("\n") + 1
        starts = []
        lines = []
        for it in items:
            starts.append(line_no)
            lines.append(self._case_line(it))
            line_no += 1
        calls = "\n".join(f"  c{it.idx}(sb);" for it in items)
        return head + "\n".join(lines) + rest.replace("//@@CALLS@@", calls), starts

    def compile_and_run(self, items: List[Item], work: pathlib.Path):
        assert self.javac is not None and self.java is not None
        bdir = work / f"batch{time.time_ns()}_{threading.get_ident()}"
        bdir.mkdir()
        groups = [items[i:i + self.per_class] for i in range(0, len(items), self.per_class)]
        tables: Dict[str, Tuple[List[int], List[Item]]] = {}
        files = []
        for g, group in enumerate(groups):
            cls = f"B{g}"
            src, starts = self._render(cls, group)
            (bdir / f"{cls}.java").write_text(src, encoding="utf-8")
            tables[cls] = (starts, group)
            files.append(f"{cls}.java")
        main = ["public class Main { public static void main(String[] a) throws Exception {",
                "StringBuilder sb = new StringBuilder();"]
        main += [f"B{g}.run(sb);" for g in range(len(groups))]
        main += ['System.out.write(sb.toString().getBytes("US-ASCII")); System.out.flush(); } }']
        (bdir / "Main.java").write_text("\n".join(main) + "\n", encoding="utf-8")
        files.append("Main.java")
        t0 = time.time()
        rc, out, err = _run(
            [self.javac, "-encoding", "UTF-8", "-proc:none", "-nowarn", "-Xmaxerrs", "100000",
             "-Xmaxwarns", "0", "-d", "out"] + files, bdir, 600)
        self.count("java_compiles")
        self.add_seconds("java_compile_seconds", time.time() - t0)
        if rc is None:
            return "fail", "javac timed out"
        if rc != 0:
            text = (err + out).decode("utf-8", "replace")
            blamed: Dict[int, str] = {}
            for m in re.finditer(r"^(B\d+)\.java:(\d+): error: (.*)$", text, re.M):
                starts, group = tables[m.group(1)]
                k = bisect.bisect_right(starts, int(m.group(2))) - 1
                if 0 <= k < len(group):
                    blamed.setdefault(group[k].idx, m.group(3)[:200])
            if not blamed:
                return "fail", "javac failed: " + text[-500:]
            return "blamed", blamed
        rc, out, err = _run([self.java, "-Xss4m", "-cp", "out", "Main"], bdir, 300)
        if rc is None:
            return "fail", "java timed out"
        if rc != 0:
            return "fail", "java rc=%s stderr=%s" % (rc, err.decode("utf-8", "replace")[-500:])
        by_idx = {it.idx: it for it in items}
        for line in out.decode("ascii").splitlines():
            fields = line.split()
            it = by_idx[int(fields[0])]
            it.got = [int(x, 16) for x in fields[2:]]
            it.status = "ok"
        shutil.rmtree(bdir, ignore_errors=True)
        return "ok", None

    def confirm(self, items: List[Item], work: pathlib.Path) -> Dict[int, str]:
        assert self.javac is not None
        if not items:
            return {}
        cdir = work / f"confirm{time.time_ns()}_{threading.get_ident()}"
        cdir.mkdir()
        files = []
        for it in items:
            src, _ = self._render(f"K{it.idx}", [it])
            (cdir / f"K{it.idx}.java").write_text(src, encoding="utf-8")
            files.append(f"K{it.idx}.java")
        # errors of one compilation unit do not cascade into another
        rc, out, err = _run(
            [self.javac, "-encoding", "UTF-8", "-proc:none", "-nowarn", "-Xmaxerrs", "100000",
             "-Xmaxwarns", "0", "-d", "out"] + files, cdir, 600)
        self.count("java_confirmation_compiles")
        refused: Dict[int, str] = {}
        if rc is None:
            return refused
        if rc != 0:
            text = (err + out).decode("utf-8", "replace")
            for m in re.finditer(r"^K(\d+)\.java:\d+: error: (.*)$", text, re.M):
                refused.setdefault(int(m.group(1)), "javac: " + m.group(2)[:240])
        shutil.rmtree(cdir, ignore_errors=True)
        return refused


QUICK_VALUES = {"python": 4000, "csharp": 4000, "golang": 4000, "typescript": 4000,
                "cpp": 2000, "java": 3000}

LEGS = {
    "python": PythonLeg,
    "cpp": CppLeg,
    "csharp": CSharpLeg,
    "java": JavaLeg,
    "typescript": TypeScriptLeg,
    "golang": GoLeg,
}

# --------------------------------------------------------------------------
# driving one leg
# --------------------------------------------------------------------------


def _show(value: Any) -> Any:
    if isinstance(value, (bytes, bytearray)):
        return "hex:" + bytes(value).hex()
    if isinstance(value, tuple):
        return [_show(v) for v in value]
    if isinstance(value, str):
        return {"ascii": ascii(value), "code_points": [f"U+{ord(c):04X}" for c in value[:48]]}
    return value


class LegRun:
    """Emit with the real helpers, read back, localise and judge."""

    def __init__(self, leg: Leg, chk: harness.Check) -> None:
        self.leg = leg
        self.chk = chk
        self.lang = leg.lang
        self.next_idx = 0
        # (func, mode, value) -> None (denotes the value) / kind of failure
        self.verdicts: Dict[Tuple[str, str, Any], Optional[str]] = {}

    def make_items(self, strings: Sequence[str], pairs: Sequence[Tuple[str, str]],
                   byte_values: Sequence[bytes],
                   only: Optional[set] = None) -> List[Item]:
        chk = self.chk
        items: List[Item] = []
        for variant in self.leg.variants:
            if only is not None and (variant.func, variant.mode) not in only:
                continue
            if variant.domain == "str":
                values: Iterable[Any] = strings
            elif variant.domain == "char":
                values = [s for s in strings if len(s) == 1]
            elif variant.domain == "pair":
                values = pairs
            else:
                values = byte_values
            for value in values:
                if variant.accepts is not None and not variant.accepts(value):
                    continue
                ident = (variant.func, variant.mode, value)
                if ident in self.verdicts:
                    continue
                it = Item(variant.func, variant.mode, variant.keymode, value, variant.kind)
                it.idx = self.next_idx
                self.next_idx += 1
                chk.count(f"{self.lang}_helper_calls")
                try:
                    it.source = variant.emit(value)
                except ContractRejection as err:
                    chk.count(f"{self.lang}_rejected_by_contract")
                    chk.hist("rejected_by_contract", f"{self.lang}/{variant.func}/{err}")
                    if str(err).startswith("returned-despite-precondition"):
                        chk.count(f"{self.lang}_returned_despite_broken_precondition")
                    continue
                except BaseException as err:  # noqa
                    if isinstance(err, (KeyboardInterrupt, SystemExit)):
                        raise
                    it.status = "raised"
                    it.note = f"{type(err).__name__}: {str(err)[:200]}"
                    it.got = type(err).__name__
                    items.append(it)
                    continue
                if it.source is None:
                    # needs_escaping said "needs escaping": nothing is claimed
                    chk.count(f"{self.lang}_needs_escaping_true")
                    continue
                if not isinstance(it.source, str):
                    it.status = "raised"
                    it.note = f"helper returned {type(it.source).__name__}, not str"
                    it.got = "not-a-str"
                    items.append(it)
                    continue
                it.expected = variant.expected(value)
                items.append(it)
        return items

    def evaluate(self, items: List[Item]) -> None:
        todo = [it for it in items if it.status is None]
        size = self.leg.batch_items
        batches = [todo[i:i + size] for i in range(0, len(todo), size)]
        if self.leg.parallel > 1 and len(batches) > 1:
            with concurrent.futures.ThreadPoolExecutor(max_workers=self.leg.parallel) as pool:
                for fut in [pool.submit(self.leg.evaluate, b) for b in batches]:
                    fut.result()
        else:
            for b in batches:
                self.leg.evaluate(b)

    def passed(self, it: Item) -> bool:
        return it.status == "ok" and it.expected is not None and it.got == it.expected

    def failure_of(self, it: Item) -> Optional[str]:
        if self.passed(it):
            return None
        if it.status == "ok":
            return "wrong-value" if it.expected is not None else "unrepresentable-value-emitted"
        if it.status == "raised":
            return f"raised-{it.got}"
        return "rejected"

    def record(self, items: List[Item]) -> List[Item]:
        failing = []
        for it in items:
            if it.status == "skipped" or it.status is None:
                self.chk.count(f"{self.lang}_items_not_decided")
                self.chk.hist("not_decided", f"{self.lang}: {it.note[:80]}")
                continue
            failure = self.failure_of(it)
            if isinstance(it.value, (str, tuple)) and len(self._flat(it.value)) <= 2:
                # only pieces are ever looked up again
                self.verdicts[it.ident()] = failure
            if failure is not None:
                failing.append(it)
        return failing

    @staticmethod
    def _flat(v: Any) -> str:
        return "".join(v) if isinstance(v, tuple) else v

    def _failing_piece(self, it: Item, failure: str, same_only: bool) -> Optional[Any]:
        """Smallest, left-most already judged piece of ``it.value`` that fails on its own."""
        candidates = pieces_of(it.value)
        ranked = sorted(range(len(candidates)), key=lambda k: (len(self._flat(candidates[k])), k))
        fallback = None
        for k in ranked:
            p = candidates[k]
            if p == it.value:
                continue
            verdict = self.verdicts.get((it.func, it.mode, p))
            if verdict is None:
                continue
            if verdict == failure:
                return p
            if fallback is None:
                fallback = p
        return None if same_only else fallback

    def _where(self, piece: Any) -> str:
        text = self._flat(piece)
        if len(text) == 0:
            return "empty"
        if len(text) == 1:
            return "alone/" + charclass(text)
        return f"before-{charclass(text[1])}/{charclass(text[0])}"

    def _culprit(self, it: Item, failure: str) -> Tuple[str, str, Optional[Any]]:
        """Return (failure kind, context/class part of the key, smallest failing piece)."""
        value = it.value
        if isinstance(value, (bytes, bytearray)):
            n = len(value)
            return failure, ("len-0" if n == 0 else "len-1-8" if n <= 8 else "len-9+"), None
        if len(self._flat(value)) <= 1:
            return failure, self._where(value), value
        piece = self._failing_piece(it, failure, same_only=False)
        if piece is not None:
            verdict = self.verdicts[(it.func, it.mode, piece)]
            assert verdict is not None
            return verdict, self._where(piece), piece
        if len(self._flat(value)) == 2:
            return failure, self._where(value), value
        if any((it.func, it.mode, p) not in self.verdicts for p in pieces_of(value)):
            # the localisation budget ran out before the pieces of this value were judged
            return failure, "not-localised", None
        return failure, "context-dependent", None

    def judge(self, items: List[Item]) -> None:
        chk = self.chk
        for it in items:
            if it.status in (None, "skipped"):
                continue
            nontrivial = is_nontrivial(it.value)
            chk.case(
                distinct_key=digest(self.lang, it.value) if nontrivial else None,
                sample=(
                    {"language": self.lang, "function": it.func, "mode": it.mode,
                     "value": _show(it.value), "emitted": it.source, "read_back": _show_got(it.got)}
                    if nontrivial and chk.evaluations % 9973 == 17 else None
                ),
            )
            chk.count(f"{self.lang}_read_back")
            chk.hist("evaluations_per_function", f"{self.lang}/{it.func}{it.keymode}")
            failure = self.failure_of(it)
            if failure is None:
                continue
            kind, where, piece = self._culprit(it, failure)
            if where == "not-localised":
                # no mechanism key can be given; the same mechanism shows on other values
                chk.count(f"{self.lang}_failures_not_localised")
                continue
            key = f"{self.lang}/{it.func}{it.keymode}/{kind}/{where}"
            chk.hist("failures", key)
            chk.violation(key, {
                "language": self.lang,
                "function": it.func,
                "mode": it.mode,
                "value": _show(it.value),
                "emitted": it.source,
                "expected": _show_got(it.expected),
                "read_back": _show_got(it.got),
                "status": it.status,
                "failure_of_this_value": failure,
                "message": it.note,
                "smallest_failing_piece": _show(piece) if piece is not None else None,
                "reproduce": f"aas_core_codegen.{self.lang}.common.{it.func}({it.value!a}) "
                             f"[mode {it.mode or 'default'}]",
            })

    def run_batch(self, strings: Sequence[str], pairs: Sequence[Tuple[str, str]],
                  byte_values: Sequence[bytes], only: Optional[set] = None) -> None:
        items = self.make_items(strings, pairs, byte_values, only=only)
        self.evaluate(items)
        failing = self.record(items)
        # localisation: single characters and adjacent pairs of those failing values that
        # do not contain an already judged piece failing the same way
        wanted: Dict[Tuple[str, str], Dict[str, List[Any]]] = {}
        seen_pieces = set()
        budget = self.leg.localisation_budget
        for it in sorted(failing, key=lambda f: len(self._flat(f.value))):
            if isinstance(it.value, (bytes, bytearray)) or len(self._flat(it.value)) <= 1:
                continue
            failure = self.failure_of(it)
            assert failure is not None
            if self._failing_piece(it, failure, same_only=True) is not None:
                continue
            slot = wanted.setdefault((it.func, it.mode), {"str": [], "pair": []})
            for p in pieces_of(it.value):
                ident = (it.func, it.mode, p)
                if ident in self.verdicts or ident in seen_pieces or p == it.value:
                    continue
                if budget <= 0:
                    self.chk.count(f"{self.lang}_localisation_budget_exhausted")
                    break
                seen_pieces.add(ident)
                slot["pair" if isinstance(p, tuple) else "str"].append(p)
                budget -= 1
        extra: List[Item] = []
        for (func, mode), slot in wanted.items():
            extra.extend(self.make_items(slot["str"], slot["pair"], [], only={(func, mode)}))
        if extra:
            self.chk.count(f"{self.lang}_localisation_items", len(extra))
            self.evaluate(extra)
            self.record(extra)
            items = items + extra
        self.judge(items)


def _show_got(got: Any) -> Any:
    if isinstance(got, str):
        return _show(got)
    if isinstance(got, (bytes, bytearray)):
        return "hex:" + bytes(got).hex()
    if isinstance(got, list):
        return " ".join(f"{x:x}" for x in got[:64])
    return got


def run_leg(lang: str, argv: Sequence[str], shard: int, shards: int) -> Dict[str, Any]:
    """Worker entry point: run one shard of one language; return ``chk.export()``."""
    chk = harness.Check("C19", "exploration", RULE, argv)
    try:
        leg = LEGS[lang](chk)
        reason = leg.available()
        if reason is not None:
            chk.unavailable_leg(f"{lang}: {reason}")
            return _export(chk)
        run = LegRun(leg, chk)
        total = chk.pick(QUICK_VALUES[lang], 100000)
        per_shard = (total + shards - 1) // shards
        budget = chk.wall_budget(45, 480)
        rng = chk.rng("values", lang, shard)
        chunk = {"python": 4000, "csharp": 4000, "golang": 4000, "typescript": 2000,
                 "cpp": 1000, "java": 1500}[lang]
        if chk.tier == "thorough":
            chunk *= 3
        done = 0
        # every shard judges the systematic values before anything else: they also serve
        # as the already judged pieces when failures of longer values are localised
        t_sys = time.time()
        run.run_batch(systematic_strings(), FIXED_PAIRS, systematic_bytes())
        chk.extra[f"{lang}_systematic_seconds"] = round(time.time() - t_sys, 1)
        chk.count(f"{lang}_values", len(systematic_strings()))
        while done < per_shard:
            if chk.elapsed() > budget:
                chk.count(f"{lang}_stopped_by_wall_budget")
                break
            strings: List[str] = []
            byte_values: List[bytes] = []
            n = min(chunk, per_shard - done)
            while len(strings) < n:
                strings.append(gen_string(rng))
            seen = set()
            strings = [s for s in strings if not (s in seen or seen.add(s))]
            for _ in range(max(20, n // 20)):
                byte_values.append(gen_bytes(rng))
            pairs = []
            for _ in range(max(40, n // 4)):
                a, b = rng.choice(strings), rng.choice(strings)
                cut_a, cut_b = rng.randrange(0, 21), rng.randrange(0, 21)
                pairs.append((a[:cut_a] if rng.random() < 0.7 else a[-cut_a:] if cut_a else "",
                              b[:cut_b]))
            t_batch = time.time()
            run.run_batch(strings, pairs, byte_values)
            chk.extra[f"{lang}_random_seconds"] = round(
                chk.extra.get(f"{lang}_random_seconds", 0.0) + time.time() - t_batch, 1)
            done += len(strings)
            chk.count(f"{lang}_values", len(strings))
    except BaseException as err:  # noqa
        if isinstance(err, (KeyboardInterrupt, SystemExit)):
            raise
        chk.harness_error(f"{lang} leg crashed: " + "".join(
            traceback.format_exception(type(err), err, err.__traceback__))[-1500:])
    return _export(chk)


def _export(chk: harness.Check) -> Dict[str, Any]:
    data = chk.export()
    data["extra"] = chk.extra
    return data


# --------------------------------------------------------------------------
# main
# --------------------------------------------------------------------------


def _unshow(shown: Any) -> Any:
    """Inverse of :func:`_show` for the values stored in a replay file."""
    if isinstance(shown, str) and shown.startswith("hex:"):
        return bytes.fromhex(shown[4:])
    if isinstance(shown, dict) and "code_points" in shown:
        return "".join(chr(int(cp[2:], 16)) for cp in shown["code_points"])
    if isinstance(shown, list):
        return tuple(_unshow(v) for v in shown)
    raise ValueError(f"can not rebuild the value from {shown!r}")


def replay(chk: harness.Check, path: str) -> int:
    """Re-evaluate the witness of a replay file against the current tree."""
    data = json.loads(pathlib.Path(path).read_text())
    witness = data["witness"]
    lang, func, mode = witness["language"], witness["function"], witness["mode"]
    value = _unshow(witness["value"])
    leg = LEGS[lang](chk)
    reason = leg.available()
    if reason is not None:
        chk.unavailable_leg(f"{lang}: {reason}")
        chk.mark_inconclusive("the leg of the replayed witness is unavailable")
        return chk.finish()
    run = LegRun(leg, chk)
    strings = [value] if isinstance(value, str) else []
    pairs = [value] if isinstance(value, tuple) else []
    byte_values = [value] if isinstance(value, (bytes, bytearray)) else []
    run.run_batch(strings, pairs, byte_values, only={(func, mode)})
    chk.add_distinct([digest("replay", 0), digest("replay", 1)])
    chk.extra["replayed"] = {"file": path, "mechanism": data.get("mechanism")}
    return chk.finish()


def main(argv) -> int:
    chk = harness.Check("C19", "exploration", RULE, argv)

    problems = selftest_decoders()
    chk.count("spec_decoder_selftest_cases", SELFTEST_CASES[0])
    for p in problems:
        chk.harness_error("spec decoder self-test: " + p)
    if problems:
        return chk.finish()
    if chk.replay:
        return replay(chk, chk.replay)

    # shards: the compiled legs dominate; give them more workers in the thorough tier
    if chk.tier == "quick":
        plan = [("cpp", 1), ("java", 1), ("typescript", 1), ("python", 1), ("csharp", 1),
                ("golang", 1)]
    else:
        plan = [("cpp", 2), ("java", 1), ("typescript", 1), ("python", 1), ("csharp", 1),
                ("golang", 1)]
    jobs = [(lang, shard, shards) for lang, shards in plan for shard in range(shards)]
    with concurrent.futures.ProcessPoolExecutor(max_workers=6) as pool:
        futures = {
            pool.submit(run_leg, lang, list(argv), shard, shards): (lang, shard)
            for lang, shard, shards in jobs
        }
        for fut in concurrent.futures.as_completed(futures):
            lang, shard = futures[fut]
            try:
                data = fut.result()
            except BaseException as err:  # noqa
                chk.harness_error(f"worker {lang}/{shard} died: {err!r}")
                continue
            extra = data.pop("extra", {})
            for k, v in extra.items():
                if isinstance(v, (int, float)) and isinstance(chk.extra.get(k, 0), (int, float)):
                    chk.extra[k] = round(chk.extra.get(k, 0) + v, 1)
                else:
                    chk.extra[k] = v
            chk.merge(data)

    missing = {u.split(":")[0] for u in chk.unavailable}
    for lang in LEGS:
        if lang in missing:
            continue
        chk.require_min(f"{lang}_read_back", chk.pick(1500, 5000))
    if len(missing) == len(LEGS):
        chk.mark_inconclusive("no leg could run")
    not_decided = sum(v for k, v in chk.counters.items() if k.endswith("_items_not_decided"))
    if not_decided > max(50, chk.evaluations // 20):
        chk.mark_inconclusive(f"{not_decided} emitted literals could not be decided")

    chk.assume(
        "C# and Go have no toolchain in the sandbox: their literals are decoded by decoders "
        "written from ECMA-334 (regular string literals, new_line_character) and the Go "
        "specification (interpreted string literals, automatic semicolons in composite "
        "literals); the decoders are checked against the specifications' examples on every "
        "run.  This leg is weaker than a compiler."
    )
    chk.assume(
        "raw NUL and a non-initial byte order mark in Go source are treated as rejected "
        "(the specification lets a compiler disallow them and gc does)"
    )
    chk.assume(
        "a literal that contains a raw lone surrogate is counted as rejected for every "
        "file-based language, since the generators write their files as UTF-8"
    )
    chk.assume(
        "C++ literals are judged with g++ on Linux (wchar_t is 32 bits: one element per code "
        "point); the narrow string_literal is only judged on ASCII, as its precondition "
        "documents; TypeScript literals are evaluated as JavaScript (no tsc in the sandbox)"
    )
    chk.assume(
        "needs_escaping is judged only in one direction: when it answers False, the text "
        "put between plain quotes must denote itself (lone surrogates excluded)"
    )
    return chk.finish()
