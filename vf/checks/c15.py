"""C15 — schema constraint inference equals the conjunction of recognised invariants."""
import concurrent.futures
import os
import re
from typing import Any, Dict, List, Optional, Sequence, Tuple

from vf import c15_bounds, driver, harness, mmgen

RULE = (
    "accepted 'bounds mode' meta-models (1-4 classes in chains / diamonds / two-root "
    "joins, constrained-primitive chains and diamonds, str / bytearray / List / enum "
    "properties, length bounds with < <= == > >= in both operand orders, is-None and "
    "implication guards, pattern calls, constant-set membership with superset_of chains, "
    "plus unrecognised shapes); the real infer_for_schema.infer_constraints_by_class runs "
    "on the real symbol table and every (class, property[, items]) slot is compared with "
    "a brute force in which Python evaluates each recognised invariant on shadow values of "
    "every length 0..max+3 / every literal; distinct_nontrivial = distinct (operator-form "
    "multiset, number of declaring levels, guard forms) of slots with >= 2 interacting "
    "recognised length bounds"
)

TAIL = '\n__version__ = "V0.1"\n__xml_namespace__ = "https://dummy.com/gen"\n'


def _cls(name: str, invs: Sequence[str], props: Sequence[Tuple[str, str]] = (),
         base: Optional[Tuple[str, Sequence[str]]] = None) -> str:
    """Tiny renderer for the pinned cases: own ``props``, one optional ``base``."""
    lines = [f'@invariant(lambda self: {inv}, "{name} inv {i}")' for i, inv in enumerate(invs)]
    lines.append(f"class {name}({base[0] + ', ' if base else ''}DBC):")
    for pname, ptype in props:
        lines.append(f"    {pname}: {ptype}")
    inherited = list(base[1]) if base else []
    everything = [(n, t) for n, t in inherited] + list(props)
    required = [(n, t) for n, t in everything if not t.startswith("Optional")]
    optional = [(n, t) for n, t in everything if t.startswith("Optional")]
    args = [f"{n}: {t}" for n, t in required] + [f"{n}: {t} = None" for n, t in optional]
    lines.append(f"    def __init__(self, {', '.join(args)}) -> None:")
    if base and inherited:
        lines.append(f"        {base[0]}.__init__(self, " + ", ".join(f"{n}={n}" for n, _ in inherited) + ")")
    for pname, _ in props:
        lines.append(f"        self.{pname} = {pname}")
    if not everything:
        lines.append("        pass")
    return "\n".join(lines) + "\n\n"


_A = [("some_alpha", "str")]
_AB = [("some_alpha", "str"), ("some_beta", "Optional[str]")]
_SETS = (
    'Set_x: Set[str] = constant_set(values=["a", "b"])\n'
    'Set_y: Set[str] = constant_set(values=["b", "c"])\n'
    'Set_z: Set[str] = constant_set(values=["c"])\n'
)
_PATTERN = (
    "@verification\ndef matches_lower(text: str) -> bool:\n"
    '    return match("^[a-z]*$", text) is not None\n\n'
)

#: Hand-written models evaluated in every run (seed independent): the minimal
#: reproducers of the findings listed in /verif/proposals/C15.md and a few golden
#: shapes.  They go through exactly the same monitor and oracle as generated models.
PINNED: List[Tuple[str, str]] = [
    ("pinned/min-zero-with-max",
     _cls("Cls_0", ["len(self.some_alpha) >= 0", "len(self.some_alpha) <= 5"], _A)),
    ("pinned/exactly-zero", _cls("Cls_0", ["len(self.some_alpha) == 0"], _A)),
    ("pinned/min-zero-parent-max-child",
     _cls("Cls_0", ["len(self.some_alpha) >= 0"], _A)
     + _cls("Cls_1", ["len(self.some_alpha) <= 5"], base=("Cls_0", _A))),
    ("pinned/crossing-parent-child",
     _cls("Cls_0", ["len(self.some_alpha) > 5"], _A)
     + _cls("Cls_1", ["len(self.some_alpha) < 3"], base=("Cls_0", _A))),
    ("pinned/crossing-cprim-class",
     '@invariant(lambda self: len(self) >= 5, "Cp inv")\nclass Cp_A0(str, DBC):\n    pass\n\n'
     + _cls("Cls_0", ["len(self.some_alpha) < 3"], [("some_alpha", "Cp_A0")])),
    ("pinned/crossing-cprim-chain",
     '@invariant(lambda self: len(self) >= 5, "Cp inv")\nclass Cp_A0(str, DBC):\n    pass\n\n'
     '@invariant(lambda self: len(self) < 3, "Cq inv")\nclass Cp_A1(Cp_A0, DBC):\n    pass\n\n'
     + _cls("Cls_0", [], [("some_alpha", "Cp_A1")])),
    ("pinned/crossing-same-class",
     _cls("Cls_0", ["len(self.some_alpha) > 5", "len(self.some_alpha) < 3"], _A)),
    ("pinned/duplicate-exact",
     _cls("Cls_0", ["len(self.some_alpha) == 5", "5 == len(self.some_alpha)"], _A)),
    ("pinned/guard-other-len",
     _cls("Cls_0", ["self.some_beta is None or len(self.some_alpha) <= 3"], _AB)),
    ("pinned/guard-other-len-implication",
     _cls("Cls_0", ["not (self.some_beta is not None) or len(self.some_alpha) <= 3"], _AB)),
    ("pinned/guard-other-pattern",
     _PATTERN + _cls("Cls_0", ["self.some_beta is None or matches_lower(self.some_alpha)"], _AB)),
    ("pinned/guard-other-set",
     _SETS + _cls("Cls_0", ["self.some_beta is None or self.some_alpha in Set_x"], _AB)),
    ("pinned/empty-intersection-same-class",
     _SETS + _cls("Cls_0", ["self.some_alpha in Set_x", "self.some_alpha in Set_z"], _A)),
    ("pinned/empty-intersection-parent-child",
     _SETS + _cls("Cls_0", ["self.some_alpha in Set_x"], _A)
     + _cls("Cls_1", ["self.some_alpha in Set_z"], base=("Cls_0", _A))),
    ("pinned/same-exact-length-parent-and-child",
     _cls("Cls_0", ["len(self.some_alpha) == 5"], _A)
     + _cls("Cls_1", ["5 == len(self.some_alpha)", "len(self.some_alpha) <= 7"],
            base=("Cls_0", _A))),
    ("pinned/unrecognised-shapes-only",
     _SETS + _PATTERN
     + _cls("Cls_0", ["len(self.some_alpha) != 4", "len(self.some_alpha) + 1 > 3",
                      "len(self.some_alpha) > 1 and len(self.some_alpha) < 9",
                      "len(self.some_alpha) < 2 or len(self.some_alpha) > 4",
                      "not (len(self.some_alpha) > 7)",
                      "not matches_lower(self.some_alpha)",
                      "self.some_alpha in Set_x or self.some_alpha in Set_y",
                      "self.some_beta is not None or len(self.some_alpha) < 5",
                      "len(self.some_alpha) < 5 or self.some_beta is None"], _AB)),
    ("pinned/golden-merge",
     _SETS + _PATTERN
     + _cls("Cls_0", ["len(self.some_alpha) > 3", "self.some_alpha in Set_x",
                      "self.some_beta is None or 2 <= len(self.some_beta)"], _AB)
     + _cls("Cls_1", ["10 > len(self.some_alpha)", "self.some_alpha in Set_y",
                      "matches_lower(self.some_alpha)",
                      "not (self.some_beta is not None) or len(self.some_beta) == 2"],
            base=("Cls_0", _AB))),
]


def pinned_models() -> List[Tuple[str, str]]:
    return [(name, mmgen.IMPORTS + "\n" + body + TAIL) for name, body in PINNED]


# ---------------------------------------------------------------------------


class Inferred:
    """The real result for one value slot, reduced to plain Python values."""

    def __init__(self, constraints: Any) -> None:
        self.min: Optional[int] = None
        self.max: Optional[int] = None
        self.has_len = False
        self.patterns: Optional[List[str]] = None
        self.prim_literals: Optional[List[Any]] = None
        self.enum_literals: Optional[List[str]] = None
        if constraints is None:
            return
        if constraints.len_constraint is not None:
            self.has_len = True
            self.min = constraints.len_constraint.min_value
            self.max = constraints.len_constraint.max_value
        if constraints.patterns is not None:
            self.patterns = [p.pattern for p in constraints.patterns]
        if constraints.set_of_primitives is not None:
            self.prim_literals = [lit.value for lit in constraints.set_of_primitives.literals]
        if constraints.set_of_enumeration_literals is not None:
            self.enum_literals = [
                str(lit.name) for lit in constraints.set_of_enumeration_literals.literals
            ]

    def admits_len(self, n: int) -> bool:
        return (self.min is None or n >= self.min) and (self.max is None or n <= self.max)

    def plain(self) -> Dict[str, Any]:
        return {
            "len": [self.min, self.max] if self.has_len else None,
            "patterns": self.patterns,
            "set_of_primitives": self.prim_literals,
            "set_of_enumeration_literals": self.enum_literals,
        }


def flatten(result: Any, intermediate: Any) -> Tuple[Dict[Tuple[str, str, str], Inferred], List[str]]:
    flat: Dict[Tuple[str, str, str], Inferred] = {}
    stray: List[str] = []
    for cls, by_value in result.items():
        seen = set()
        for prop in cls.properties:
            anno = intermediate.beneath_optional(prop.type_annotation)
            seen.add(id(anno))
            flat[(str(cls.name), str(prop.name), "value")] = Inferred(by_value.get(anno))
            if isinstance(anno, intermediate.ListTypeAnnotation):
                items = intermediate.beneath_optional(anno.items)
                seen.add(id(items))
                flat[(str(cls.name), str(prop.name), "items")] = Inferred(by_value.get(items))
        for key in by_value:
            if id(key) not in seen:
                stray.append(f"{cls.name}: {key}")
    return flat, stray


def leaf_errors(errors: Sequence[Any], context: str = "") -> List[Tuple[str, str]]:
    leaves: List[Tuple[str, str]] = []
    for error in errors:
        message = str(error.message)
        if error.underlying:
            leaves.extend(leaf_errors(error.underlying, message))
        else:
            leaves.append((context, message))
    return leaves


def normalise_message(message: str) -> str:
    message = re.sub(r"-?\d+", "N", message)
    message = re.sub(r"\b(the|some|my)_[a-z]+\b", "<prop>", message)
    message = re.sub(r"\b(Cls|Cp)_\w+\b", "<cls>", message)
    return message[:140]


def implies(a: Sequence[bool], b: Sequence[bool]) -> bool:
    return all((not x) or y for x, y in zip(a, b))


class ModelCheck:
    """Monitor + oracle for one meta-model text."""

    def __init__(self, chk: harness.Check, name: str, text: str,
                 gen: Optional[c15_bounds.GenModel] = None) -> None:
        self.chk = chk
        self.name = name
        self.text = text
        self.gen = gen
        self.found: List[str] = []

    def violation(self, key: str, **detail: Any) -> None:
        self.found.append(key)
        self.chk.violation(key, dict(model=self.name, text=self.text, **detail))

    def run(self) -> None:
        try:
            self._run()
        except Exception as err:  # a bug of the check itself is never a verdict
            self.chk.harness_error(
                f"check failed on {self.name}: {err!r}\n{harness.format_exc(err, 6)}")

    def _run(self) -> None:
        chk = self.chk
        loaded, error, exc = driver.load_inprocess(self.text)
        if loaded is None:
            chk.count("models_rejected_by_front_end")
            reason = "crash:" + type(exc).__name__ if exc is not None else (
                (error or "").strip().splitlines()[-1].split(":", 2)[-1].strip()[:70])
            chk.hist("front_end_rejections", re.sub(r"'[^']*'", "'..'", reason))
            return
        symbol_table, _ = loaded
        try:
            oracle = c15_bounds.Oracle(self.text)
        except Exception as err:  # the reference must load what the front end accepts
            chk.harness_error(f"reference executor failed on {self.name}: {err!r}")
            return
        chk.count("models_checked")
        self.self_check(oracle)

        from aas_core_codegen import infer_for_schema, intermediate

        # what the recognised invariants say, slot by slot
        slots = []
        for cname in oracle.classes():
            for pname, level, type_ in oracle.slots(cname):
                slots.append((cname, pname, level, type_, oracle.expected(cname, pname, level, type_)))
        unsat, zero_min, nontrivial = self.survey(oracle, slots)

        try:
            result, errors = infer_for_schema.infer_constraints_by_class(symbol_table=symbol_table)
        except BaseException as err:  # noqa
            if isinstance(err, (KeyboardInterrupt, SystemExit)):
                raise
            cause = "unsat-bounds" if unsat["len"] else ("zero-min" if zero_min else "other")
            chk.hist("outcomes", "crash")
            self.violation(f"crash/{harness.crash_signature(err)}/{cause}",
                           exception=harness.format_exc(err))
            chk.case(None)
            return
        chk.count("inference_calls_returned")

        if errors is not None:
            chk.hist("outcomes", "errors")
            self.judge_errors(oracle, errors, unsat)
            chk.case(None)
            chk.add_distinct(nontrivial)
            return
        if result is None:
            self.violation("result/neither-result-nor-errors")
            return
        chk.hist("outcomes", "constraints")

        flat, stray = flatten(result, intermediate)
        if stray:
            self.violation("result/constraint-for-no-property", stray=stray)
        ref_keys = {(c, p, lv) for c, p, lv, _, _ in slots}
        if ref_keys != set(flat.keys()):
            self.violation("result/slots-differ-from-reference",
                           only_reference=sorted(ref_keys - set(flat)),
                           only_inferred=sorted(set(flat) - ref_keys))
        for cname, pname, level, type_, exp in slots:
            inferred = flat.get((cname, pname, level))
            if inferred is None:
                continue
            self.compare_slot(oracle, cname, pname, level, type_, exp, inferred)
        self.check_tightening(oracle, result, infer_for_schema, intermediate)

        sample = None
        if nontrivial and len(chk.samples) < 5:
            sample = {
                "model": self.name,
                "mode": self.gen.mode if self.gen else "pinned",
                "inferred": {
                    f"{c}.{p}/{lv}": inf.plain()
                    for (c, p, lv), inf in flat.items()
                    if inf.has_len or inf.patterns or inf.prim_literals is not None
                    or inf.enum_literals is not None
                },
                "invariants": {
                    n: [i.body_src for i, _ in entries] for n, entries in oracle.own_atoms.items() if entries
                },
            }
        chk.case(None, sample)
        chk.add_distinct(nontrivial)

    # -- harness self-check: generator labels == recogniser classification ------
    def self_check(self, oracle: c15_bounds.Oracle) -> None:
        chk = self.chk
        for owner, entries in oracle.own_atoms.items():
            for inv, atoms in entries:
                if atoms:
                    for atom in atoms:
                        chk.hist("recognised_atoms", f"{atom.kind}/{atom.status}/{atom.guard}"
                                 + ("/self" if atom.target == c15_bounds.SELF else ""))
                        if atom.kind == "len":
                            chk.hist("len_operator_forms", atom.detail)
                    chk.count("invariants_recognised")
                else:
                    chk.count("invariants_unrecognised_shape")
                if self.gen is None:
                    continue
                label = self.gen.labels.get((owner, inv.description))
                if label is None:
                    chk.harness_error(f"{self.name}: invariant {inv.description!r} has no label")
                    continue
                chk.hist("generated_shapes", label.shape)
                if sorted(label.label) != sorted(a.sig() for a in atoms):
                    chk.harness_error(
                        f"{self.name}: generator label {sorted(label.label)} != recogniser "
                        f"{sorted(a.sig() for a in atoms)} for {inv.body_src!r}"
                    )

    # -- which slots are unsatisfiable / nontrivial ------------------------------
    def survey(self, oracle: c15_bounds.Oracle, slots) -> Tuple[Dict[str, set], bool, set]:
        """
        Return the names involved in unsatisfiable recognised constraints (by kind),
        whether a recognised bound admits the empty value explicitly, and the keys of
        the slots with interacting bounds.
        """
        unsat: Dict[str, set] = {"len": set(), "set": set()}
        zero_min = False
        nontrivial = set()
        for cname, pname, level, type_, exp in slots:
            base = oracle.base_kind(type_)
            involved = {pname, cname} | {a.owner for a in exp.atoms if a.status == "R"}
            atoms = exp.of("set", "R")
            if len(atoms) >= 2 and (base == "str" or base.startswith("enum:")):
                if not any(oracle.literals_admitted(atoms, base)):
                    unsat["set"] |= involved
            atoms = exp.of("len", "R")
            if not atoms or base not in ("str", "bytearray", "list"):
                continue
            if not any(oracle.len_admitted(atoms, base)):
                unsat["len"] |= involved
                if type_.kind == "atomic":
                    unsat["len"].add(type_.name)
            for atom in atoms:
                alone = oracle.len_admitted([atom], base)
                if alone[0] and (alone[-1] or not alone[1]):
                    zero_min = True
            if len(atoms) >= 2:
                key = (
                    tuple(sorted(a.detail for a in atoms)),
                    len({a.owner for a in atoms}),
                    tuple(sorted({a.guard for a in atoms})),
                )
                nontrivial.add(key)
        # constrained primitives, whether or not a property uses them
        pm = oracle.pm
        for name in pm.order:
            if not pm.is_constrained_primitive(name):
                continue
            atoms = [
                a for anc in pm.ancestors(name) + [name]
                for _, found in oracle.own_atoms.get(anc, []) for a in found
                if a.kind == "len" and a.status == "R"
            ]
            if atoms and not any(oracle.len_admitted(atoms, pm.primitive_of(name))):
                unsat["len"] |= {name} | {a.owner for a in atoms}
        return unsat, zero_min, nontrivial

    def judge_errors(self, oracle: c15_bounds.Oracle, errors, unsat: Dict[str, set]) -> None:
        """
        Every reported error must be backed by recognised constraints that no value
        satisfies.  The wording of the messages is not part of the property: an error
        counts as justified when it names (anywhere in its text or context) a property,
        class or constrained primitive that takes part in an unsatisfiable combination,
        or names nothing we know while such a combination exists.
        """
        chk = self.chk
        pm = oracle.pm
        known_names = set(pm.classes)
        for cls in pm.classes.values():
            known_names |= {p.name for p in cls.own_props}
        unsat_names = unsat["len"] | unsat["set"]
        for context, message in leaf_errors(errors):
            chk.count("error_messages_judged")
            words = set(re.findall(r"[A-Za-z_][A-Za-z_0-9]*", context + " " + message))
            named = words & known_names
            justified = bool(named & unsat_names) if named else bool(unsat_names)
            if justified:
                chk.count("errors_justified_by_unsatisfiable_constraints")
                chk.hist("justified_errors", normalise_message(message))
            else:
                # where do the blamed invariants live?  (an error about invariants of
                # ONE class is a different mechanism than one about merged levels)
                where = "other"
                props = [w for w in named if w not in pm.classes]
                if props:
                    where = "across-levels"
                    for entries in oracle.own_atoms.values():
                        exact = [a for _, atoms in entries for a in atoms
                                 if a.kind == "len" and a.status == "R"
                                 and a.target in props and "==" in a.detail]
                        if len(exact) >= 2:
                            where = "same-class"
                self.violation(f"spurious-error/{where}/" + normalise_message(message),
                               message=message, context=context,
                               unsatisfiable=sorted(unsat_names))

    # -- the comparison proper ---------------------------------------------------
    def compare_slot(self, oracle, cname, pname, level, type_, exp, inferred: Inferred) -> None:
        chk = self.chk
        chk.count("slots_compared")
        base = oracle.base_kind(type_)
        where = dict(cls=cname, prop=pname, level=level, type=repr(type_),
                     declared_at="+".join(sorted(exp.levels)) or "none",
                     inferred=inferred.plain(),
                     atoms=[(a.owner, a.status, ast_src(a)) for a in exp.atoms])

        # length
        rec, guarded = exp.of("len", "R"), exp.of("len", "G")
        if base in ("str", "bytearray", "list"):
            expected = oracle.len_admitted(rec, base)
            got = [inferred.admits_len(n) for n in range(oracle.n_max + 1)]
            if rec:
                chk.count("len_slots_with_recognised_bounds")
            if len(rec) >= 2:
                chk.count("len_slots_with_interacting_bounds")
            if rec and not any(expected):
                self.violation("unsat-accepted/len", **where)
            elif got != expected:
                if guarded and got == oracle.len_admitted(rec + guarded, base):
                    key = "misread/guard-on-other-property/len"
                else:
                    more = not implies(got, expected)
                    less = not implies(expected, got)
                    kind = "admits-different" if more and less else (
                        "admits-more" if more else "admits-less")
                    key = f"len/{kind}-than-recognised-bounds"
                self.violation(key, expected_admitted_lengths=[n for n, ok in enumerate(expected) if ok],
                               inferred_admitted_lengths=[n for n, ok in enumerate(got) if ok], **where)
            elif not exp.atoms:
                chk.count("slots_without_recognised_invariants_left_unconstrained")
        elif inferred.has_len:
            self.violation("len/constraint-on-value-without-length", **where)

        # patterns
        rec_p = oracle.patterns(exp.of("pattern", "R"))
        amb_p = oracle.patterns(exp.of("pattern", "A"))
        grd_p = oracle.patterns(exp.of("pattern", "G"))
        got_p = set(inferred.patterns or [])
        if rec_p:
            chk.count("pattern_slots_with_recognised_calls")
        if inferred.patterns is not None and not inferred.patterns:
            self.violation("pattern/empty-list", **where)
        if not (rec_p <= got_p <= rec_p | amb_p):
            if grd_p and rec_p <= got_p <= rec_p | amb_p | grd_p:
                key = "misread/guard-on-other-property/pattern"
            elif rec_p - got_p:
                key = "pattern/missing"
            else:
                key = "pattern/unexpected"
            self.violation(key, expected=sorted(rec_p), may_also=sorted(amb_p), **where)

        # literal sets
        rec_s, amb_s, grd_s = exp.of("set", "R"), exp.of("set", "A"), exp.of("set", "G")
        if base == "str" or base.startswith("enum:"):
            universe = oracle.universe(base)
            if base == "str":
                wrong_kind = inferred.enum_literals is not None
                literals = inferred.prim_literals
                got_s = [literals is None or v in literals for v in universe]
            else:
                wrong_kind = inferred.prim_literals is not None
                literals = inferred.enum_literals
                got_s = [literals is None or v.name in literals for v in universe]
            if wrong_kind:
                self.violation("set/wrong-kind-of-literal-set", **where)
            high = oracle.literals_admitted(rec_s, base)
            low = oracle.literals_admitted(rec_s + amb_s, base)
            if rec_s:
                chk.count("set_slots_with_recognised_membership")
            if len(rec_s) >= 2:
                chk.count("set_slots_with_interacting_memberships")
            each_satisfiable = all(any(oracle.literals_admitted([a], base)) for a in rec_s)
            if len(rec_s) >= 2 and each_satisfiable and not any(high):
                self.violation("unsat-accepted/empty-literal-intersection", **where)
            elif not (implies(low, got_s) and implies(got_s, high)):
                alt = oracle.literals_admitted(rec_s + grd_s, base)
                alt_low = oracle.literals_admitted(rec_s + amb_s + grd_s, base)
                if grd_s and implies(alt_low, got_s) and implies(got_s, alt):
                    key = "misread/guard-on-other-property/set"
                else:
                    more = not implies(got_s, high)
                    key = f"set/{'admits-more' if more else 'admits-less'}-than-intersection"
                self.violation(
                    key,
                    expected_literals=[repr(v) for v, ok in zip(universe, high) if ok],
                    inferred_literals=[repr(v) for v, ok in zip(universe, got_s) if ok], **where)
        elif inferred.prim_literals is not None or inferred.enum_literals is not None:
            self.violation("set/constraint-on-value-without-literals", **where)

    # -- second monitor: the documented use of tightening steps -------------------
    def check_tightening(self, oracle, result, infer_for_schema, intermediate) -> None:
        chk = self.chk
        for cls, by_value in result.items():
            for parent in cls.inheritances:
                for anno, parent_constraints in result[parent].items():
                    child = by_value.get(anno)
                    where = dict(cls=str(cls.name), parent=str(parent.name), value=str(anno))
                    if child is None:
                        self.violation("inheritance/parent-constraint-lost-in-child", **where)
                        continue
                    try:
                        delta = infer_for_schema.tightening_steps_from_other_to_that_constraints(
                            that=child, other=parent_constraints)
                    except BaseException as err:  # noqa
                        if isinstance(err, (KeyboardInterrupt, SystemExit)):
                            raise
                        self.violation(f"crash-tightening/{harness.crash_signature(err)}",
                                       exception=harness.format_exc(err), **where)
                        continue
                    chk.count("tightening_steps_checked")
                    c, p, d = Inferred(child), Inferred(parent_constraints), Inferred(delta)
                    where.update(child=c.plain(), parent_constraints=p.plain(), delta=d.plain())
                    for n in range(oracle.n_max + 1):
                        if c.admits_len(n) != (p.admits_len(n) and d.admits_len(n)):
                            self.violation("tightening/parent-and-delta-differ-from-child/len", **where)
                            break
                    if set(c.patterns or []) != set(p.patterns or []) | set(d.patterns or []):
                        self.violation("tightening/parent-and-delta-differ-from-child/patterns", **where)
                    for attr in ("prim_literals", "enum_literals"):
                        cv, pv, dv = getattr(c, attr), getattr(p, attr), getattr(d, attr)
                        both = None
                        for part in (pv, dv):
                            if part is not None:
                                both = set(part) if both is None else both & set(part)
                        if (None if cv is None else set(cv)) != both:
                            self.violation("tightening/parent-and-delta-differ-from-child/literals", **where)


def ast_src(atom: c15_bounds.Atom) -> str:
    import ast

    try:
        return ast.unparse(atom.node)
    except Exception:
        return "<?>"


def worker(args) -> Dict[str, Any]:
    argv, shard, n_shards, n_models = args
    chk = harness.Check("C15", "exploration", RULE, argv)
    budget = chk.wall_budget(150, 900)
    if shard == 0:
        for name, text in pinned_models():
            mc = ModelCheck(chk, name, text)
            mc.run()
            chk.count("pinned_models_run")
    for i in range(shard, n_models, n_shards):
        if chk.elapsed() > budget:
            chk.count("models_skipped_for_budget", len(range(i, n_models, n_shards)))
            break
        gen = c15_bounds.generate(chk.rng("model", i))
        if i % 3 == 1:
            # the declaration order of enumerations and constrained primitives is free:
            # descendants may come before their ancestors
            shuffled = mmgen.shuffle_class_order(gen.text, chk.rng("order", i))
            if shuffled != gen.text:
                gen.text = shuffled
                chk.count("models_with_permuted_declaration_order")
        chk.hist("modes", gen.mode)
        chk.hist("class_shapes", gen.shape)
        ModelCheck(chk, f"bounds/{chk.seed}/{i}", gen.text, gen).run()
    return chk.export()


def main(argv) -> int:
    chk = harness.Check("C15", "exploration", RULE, argv)
    n_models = chk.pick(500, 15000)
    n_shards = chk.pick(6, 8)
    if os.environ.get("VF_MAX_WORKERS", "").isdigit():  # politeness on a shared box
        n_shards = max(1, min(n_shards, int(os.environ["VF_MAX_WORKERS"])))
    with concurrent.futures.ProcessPoolExecutor(max_workers=n_shards) as pool:
        jobs = [pool.submit(worker, (list(argv), s, n_shards, n_models)) for s in range(n_shards)]
        for job in jobs:
            try:
                chk.merge(job.result())
            except Exception as err:
                chk.harness_error(f"worker failed: {err!r}")
    chk.assume(
        "recognised shapes are those documented in infer_for_schema (match.py, _len.py, "
        "_pattern.py, _set.py docstrings): optional same-property guard around one len "
        "comparison with an integer constant, one pattern-function call, one membership in "
        "a constant set, or a conjunction of pattern calls / memberships; conjuncts of a "
        "mixed conjunction may or may not be inferred; an invariant guarded by ANOTHER "
        "property is conditional and must not be inferred"
    )
    chk.assume("pattern lists are compared as sets of pattern strings (duplicates ignored)")
    chk.require_min("pinned_models_run", len(PINNED))
    chk.require_min("models_checked", chk.pick(200, 4000))
    chk.require_min("slots_compared", chk.pick(1500, 30000))
    chk.require_min("len_slots_with_interacting_bounds", chk.pick(300, 6000))
    chk.require_min("pattern_slots_with_recognised_calls", chk.pick(150, 3000))
    chk.require_min("set_slots_with_interacting_memberships", chk.pick(60, 1200))
    chk.require_min("invariants_unrecognised_shape", chk.pick(300, 6000))
    chk.require_min("tightening_steps_checked", chk.pick(400, 8000))
    return chk.finish()
