"""C01 — the meta-model front end never crashes (totality of load_model / main.execute)."""
import concurrent.futures
import json
import os
import re
import tempfile
import traceback
import warnings
from typing import Any, Dict, List, Optional, Tuple

from vf import corpus, driver, env, harness, hooks, textmut

RULE = (
    "texts = corpus meta-models (dev/test_data, incl. the 'unexpected' fixtures) under 1-3 "
    "stacked text/AST mutations + targeted families (constant_* with 0-5 positional/keyword "
    "arguments of every AST kind, hostile pattern strings, contradictory invariants, odd "
    "decorators/classes/annotations/identifiers/descriptions, degenerate files); each text "
    "is given to the real run.load_model and the real main.execute under a BaseException "
    "net, ~2 % also to the CLI subprocess; every case that reaches load_model counts as an "
    "evaluation; distinct = distinct (accept/reject/crash, deepest front-end stage entered "
    "as seen by the stage monitors, value-masked first leaf message of the report)"
)

WORKERS = 8
STAGES = ["read", "python-parse", "imports", "parse.symbol_table", "intermediate.translate", "accepted"]
TARGETS = ["python", "python", "jsonschema", "xsd"]
TRACEBACK_MARK = "Traceback (most recent call last)"

_MASKS = [
    (re.compile(r"identifier: \S+"), "identifier: <X>"),
    (re.compile(r"(but got|got|got at index \d+|got at the index \d+): .*"), r"got: <X>"),
    (re.compile(r"'[^']*'"), "<S>"),  # repr() picks the quote by content: mask both alike
    (re.compile(r'"[^"]*"'), "<S>"),
    (re.compile(r"\d+"), "<N>"),
]


def mask_values(text: str) -> str:
    for rx, repl in _MASKS:
        text = rx.sub(repl, text)
    return text


def crash_key(exc: BaseException, repo_root: Optional[str] = None) -> str:
    """
    Mechanism key of an escaped exception.

    ``crash/<class>@<file>:<innermost repo function>|<what>`` where ``<what>`` is

    * for icontract violations: the contract's description/condition source (value-free),
    * for assertions: the first message line with values masked (so that
      ``... identifier: Tuple`` and ``... identifier: Dict`` are one mechanism),
    * for bare exceptions (IndexError, TypeError, ...): the source line of the innermost
      repo frame, so that two defects in one function do not share a key.
    """
    root = repo_root or str(env.REPO)
    frames = traceback.extract_tb(exc.__traceback__)
    inner = None
    for frame in frames:
        if frame.filename.startswith(root) and "/aas_core_codegen/" in frame.filename:
            inner = frame
    cls = type(exc).__name__
    if isinstance(exc, RecursionError):
        # the innermost frame of a stack overflow is arbitrary: use the stage entry
        stage = "outside-repo"
        for frame in frames:
            if frame.filename.startswith(root) and frame.name in (
                "atok_to_symbol_table", "translate", "source_to_atok", "check_expected_imports",
            ):
                stage = frame.name
        return f"crash/RecursionError@{stage}"
    if inner is None:
        return f"crash/{cls}@outside-repo"
    rel = inner.filename.split("/aas_core_codegen/", 1)[1]
    where = f"{rel}:{inner.name}"
    lines = [ln.strip() for ln in str(exc).strip().splitlines() if ln.strip()]
    if cls == "ViolationError":
        head = next((ln for ln in lines if not ln.startswith("File ")), "")
        head = head[:90]
    elif cls == "AssertionError" and lines:
        head = mask_values(lines[0])[:90]
    else:
        head = (inner.line or "").strip()[:90]
    return f"crash/{cls}@{where}|{head}" if head else f"crash/{cls}@{where}"


def through_load_model(exc: BaseException) -> bool:
    for frame in traceback.extract_tb(exc.__traceback__):
        if frame.filename.endswith("/aas_core_codegen/run.py") and frame.name == "load_model":
            return True
    return False


_LOC = re.compile(r"^At line \d+ and column \d+: ")


def leaf_of_report(report: str) -> str:
    """Value-masked first innermost message of an error report (for the distinct rule)."""
    lines = [ln for ln in report.splitlines() if ln.strip()]
    if not lines:
        return ""
    # the deepest-indented first chain: follow lines while indentation grows
    best = lines[0]
    indent = -1
    for ln in lines[1:] if len(lines) > 1 else lines:
        stripped = ln.lstrip(" *")
        cur = len(ln) - len(ln.lstrip(" "))
        if _LOC.match(stripped) or cur > indent:
            if cur >= indent:
                best, indent = stripped, cur
            else:
                break
    best = _LOC.sub("", best.lstrip(" *"))
    return mask_values(best)[:70]


class StageMonitor:
    """Wrappers on the four front-end stage functions: which stage was entered last."""

    FUNCS = [
        ("aas_core_codegen.parse", "source_to_atok", 1),
        ("aas_core_codegen.parse", "check_expected_imports", 2),
        ("aas_core_codegen.parse", "atok_to_symbol_table", 3),
        ("aas_core_codegen.intermediate", "translate", 4),
    ]

    def __init__(self, chk: harness.Check) -> None:
        self.stage = 0
        self.monitors = []
        for module, func, level in self.FUNCS:
            self.monitors.append(hooks.Monitor(module, func, self._observer(chk, func, level)))

    def _observer(self, chk, func, level):
        def observe(args, kwargs, result, err) -> None:
            chk.count(f"stage_entered_{func}")
            if level > self.stage:
                self.stage = level
        return observe

    def reset(self) -> None:
        self.stage = 0

    def uninstall(self) -> None:
        for m in self.monitors:
            m.uninstall()


def sanitize(text: str) -> str:
    """A *text*: drop lone surrogates (they cannot be stored as UTF-8 at all)."""
    try:
        text.encode("utf-8")
        return text
    except UnicodeEncodeError:
        return text.encode("utf-8", "ignore").decode("utf-8")


def evaluate(
    chk: harness.Check, stages: StageMonitor, name: str, text: str, target: str,
) -> Dict[str, Any]:
    text = sanitize(text)
    chk.hist("family", name.split("/")[0])
    witness_base = {"case": name, "text": text, "target": target}

    # --- monitor 1: the real run.load_model -----------------------------------------
    stages.reset()
    result, error, exc = driver.load_inprocess(text)
    chk.count("load_model_calls")
    stage = STAGES[stages.stage]
    load_key = None
    if exc is not None:
        load_key = crash_key(exc)
        outcome = "crash"
        leaf = load_key
        chk.count("load_model_exceptions")
        chk.hist("exception_class", type(exc).__name__)
        chk.hist("crash_stage", stage)
        chk.violation(
            load_key,
            dict(witness_base, monitor="run.load_model", stage=stage,
                 exception=repr(exc)[:600], stack=harness.format_exc(exc)),
        )
    elif error is None:
        outcome, leaf, stage = "accept", "", "accepted"
        chk.count("accepted")
        ok = (
            isinstance(result, tuple) and len(result) == 2
            and type(result[0]).__name__ == "SymbolTable"
        )
        if not ok:
            chk.violation(
                "result/not-a-symbol-table",
                dict(witness_base, monitor="run.load_model", result=repr(result)[:300]),
            )
        else:
            st = result[0]
            leaf = "shape:%d/%d/%d" % (
                min(len(st.our_types), 9), min(len(st.constants), 3),
                min(len(st.verification_functions), 3),
            )
    else:
        outcome = "reject"
        chk.count("rejected")
        leaf = leaf_of_report(error) if isinstance(error, str) else repr(type(error))
        chk.hist("report_headline", (error.splitlines() or [""])[0][:80] if isinstance(error, str) else "?")
        if result is not None:
            chk.violation(
                "result/both-set", dict(witness_base, monitor="run.load_model", error=str(error)[:500])
            )
        if not isinstance(error, str) or not error.strip():
            chk.violation(
                "report/empty-or-not-str",
                dict(witness_base, monitor="run.load_model", error=repr(error)[:300]),
            )
        elif TRACEBACK_MARK in error:
            chk.violation(
                "report/contains-traceback",
                dict(witness_base, monitor="run.load_model", error=error[:2000]),
            )
    chk.hist("outcome_by_stage", f"{outcome}@{stage}")
    sample = None
    if chk.evaluations % 1500 == 7:
        sample = {"case": name, "outcome": outcome, "stage": stage, "leaf": leaf, "text": text[:600]}
    chk.case(distinct_key=(outcome, stage, leaf), sample=sample)

    # --- monitor 2: the real main.execute --------------------------------------------
    res = driver.run_inprocess(text, target)
    res.cleanup()
    driver._wipe_cache()
    chk.count("main_execute_calls")
    if res.exc is not None:
        if through_load_model(res.exc):
            key = crash_key(res.exc)
            chk.count("main_execute_frontend_exceptions")
            if key != load_key:
                chk.violation(
                    key,
                    dict(witness_base, monitor="main.execute", exception=repr(res.exc)[:600],
                         stack=harness.format_exc(res.exc)),
                )
        else:
            # generator crash on an accepted model: property C02, not judged here
            chk.hist("c02_domain_generator_exception", f"{target}:{type(res.exc).__name__}")
    else:
        chk.hist("main_execute_rc", f"{outcome}->{res.rc!r}")
        if not (isinstance(res.rc, int) and not isinstance(res.rc, bool) and res.rc in (0, 1)):
            chk.violation(
                "execute/status-not-0-or-1", dict(witness_base, monitor="main.execute", rc=repr(res.rc))
            )
        elif outcome == "reject":
            if res.rc != 1:
                chk.violation(
                    "execute/status-0-on-rejected-model",
                    dict(witness_base, monitor="main.execute", rc=res.rc, load_error=str(error)[:500]),
                )
            elif not res.stderr.strip():
                chk.violation(
                    "execute/empty-stderr-on-rejected-model",
                    dict(witness_base, monitor="main.execute", rc=res.rc, load_error=str(error)[:500]),
                )
            elif TRACEBACK_MARK in res.stderr:
                chk.violation(
                    "execute/traceback-in-stderr", dict(witness_base, monitor="main.execute", stderr=res.stderr[:2000])
                )
        elif outcome == "crash":
            chk.hist("execute_vs_load_disagree", f"load:{load_key} execute rc={res.rc}")

    return {"name": name, "text": text, "target": target, "outcome": outcome,
            "load_key": load_key, "error": error if isinstance(error, str) else None}


CLI_FORMS = {
    # what ``python -m aas_core_codegen`` runs
    "python -m aas_core_codegen": ["-m", "aas_core_codegen"],
    # what the installed console script ``aas-core-codegen`` runs
    "console-script": [
        "-c",
        "import sys; from aas_core_codegen.main import entry_point; "
        "sys.argv[0] = 'aas-core-codegen'; sys.exit(entry_point())",
    ],
}


def run_cli_form(text: str, target: str, form: str, timeout: float = 300.0):
    import subprocess

    workdir, model_path, snippets_dir, output_dir = driver.prepare(text, target)
    tmpdir = workdir / "tmp"
    tmpdir.mkdir()
    cmd = [env.PY] + CLI_FORMS[form] + [
        "--model_path", str(model_path), "--snippets_dir", str(snippets_dir),
        "--output_dir", str(output_dir), "--target", target,
    ]
    try:
        proc = subprocess.run(
            cmd, cwd=str(workdir), env=env.child_env(TMPDIR=str(tmpdir)),
            stdout=subprocess.PIPE, stderr=subprocess.PIPE, timeout=timeout,
        )
        return proc.returncode, proc.stderr.decode("utf-8", "replace")
    except subprocess.TimeoutExpired:
        return None, ""
    finally:
        import shutil

        shutil.rmtree(workdir, ignore_errors=True)


def evaluate_cli(chk: harness.Check, info: Dict[str, Any], form: str, timeout: float = 300.0) -> None:
    """Monitor 3: the same text through a real CLI process."""
    outcome, load_key = info["outcome"], info["load_key"]
    rc, stderr = run_cli_form(info["text"], info["target"], form, timeout)
    chk.count("cli_runs")
    chk.hist("cli_form", form)
    if rc is None:
        chk.count("cli_timeouts")
        return
    has_tb = TRACEBACK_MARK in stderr
    chk.hist("cli_outcome", f"in-process {outcome} -> {form}: rc={rc} traceback={has_tb}")
    cli_w = {"case": info["name"], "text": info["text"], "target": info["target"],
             "monitor": "cli", "cli_form": form, "rc": rc, "stderr": stderr[-2500:]}
    if has_tb:
        # Only front-end tracebacks are judged here (load_model on the stack).
        if "in load_model" in stderr:
            chk.count("cli_frontend_tracebacks")
            if load_key is not None:
                chk.violation(load_key, cli_w)  # same mechanism, confirmed end to end
            else:
                last = stderr.strip().splitlines()[-1].split(":")[0][:60]
                chk.violation(f"cli/traceback-only-in-subprocess|{last}", cli_w)
        else:
            chk.hist("c02_domain_generator_exception", f"cli:{info['target']}")
        return
    if rc not in (0, 1):
        chk.violation(f"cli/exit-status-not-0-or-1|{form}", cli_w)
    elif outcome == "reject":
        chk.count("cli_runs_on_rejected_models")
        if rc != 1:
            chk.violation(f"cli/exit-0-on-rejected-model|{form}", cli_w)
        if not stderr.strip():
            chk.violation(f"cli/empty-stderr-on-rejected-model|{form}", cli_w)
        elif info["error"] is not None and stderr != info["error"]:
            chk.hist("cli_report_differs_from_load_model_report", form)
    elif outcome == "crash":
        chk.hist("cli_vs_inprocess_disagree", str(load_key))


BYTE_INPUTS = [
    ("latin1-bytes", b"# caf\xe9\n__version__ = 'x'\n__xml_namespace__ = 'y'\n"),
    ("lone-continuation", b"\x80\n"),
    ("utf16-bom", "class A:\n    pass\n".encode("utf-16")),
    ("surrogate-encoded", b"x = '\xed\xa0\x80'\n"),
]


def build_cases(chk: harness.Check, shard: int, nshards: int) -> List[Tuple[str, str, str, bool]]:
    """The cases of one shard: (name, text, target, also-through-CLI)."""
    seeds = corpus.models()
    seed_texts = [t for _, t in seeds]
    n_mut = chk.pick(3200, 120000)
    n_random = chk.pick(60, 600)
    n_targeted_quick = 2400
    cli_share = 0.02

    targeted = list(textmut.targeted_cases(chk.rng("targeted"), n_random=n_random))
    # unmutated seeds first: the front end must be total on them as well
    targeted = [(f"seed/{n}", t) for n, t in seeds] + targeted
    if chk.tier == "quick":
        order = list(range(len(targeted)))
        chk.rng("targeted-sample").shuffle(order)
        keep = set(order[:n_targeted_quick])
        # always keep the statement's named constructs
        for i, (n, _t) in enumerate(targeted):
            if n.startswith(("degenerate/", "seed/")) or "/pos" in n:
                keep.add(i)
        targeted = [c for i, c in enumerate(targeted) if i in keep]

    cases = []
    for i, (name, text) in enumerate(targeted):
        if i % nshards != shard:
            continue
        rng = chk.rng("targeted-case", i)
        cases.append((name, text, rng.choice(TARGETS), rng.random() < cli_share))
    for i in range(n_mut):
        if i % nshards != shard:
            continue
        rng = chk.rng("mut", i)
        _n, seed = rng.choice(seeds)
        k = rng.choice([1, 1, 2, 2, 3])
        text, names = textmut.mutate(seed, rng, k, donors=seed_texts)
        cases.append(("mut/" + "+".join(names), text, rng.choice(TARGETS), rng.random() < cli_share))
    # interleave so that a budget stop still sees every family
    rng = chk.rng("order", shard)
    rng.shuffle(cases)
    return cases


def worker(
    argv: List[str], shard: int, nshards: int, budget: float, cli_max: int, cli_budget: float
) -> Dict[str, Any]:
    warnings.simplefilter("ignore")
    # private temp dir per worker: the always-on model cache of the pinned tree lives under
    # tempfile.gettempdir(); sharing it between workers would make *our* cache wiping race
    # with another worker's cache write (that is C24's subject, not C01's)
    private_tmp = env.new_dir("tmp-c01")
    tempfile.tempdir = str(private_tmp)
    os.environ["TMPDIR"] = str(private_tmp)
    chk = harness.Check("C01", "exploration", RULE, argv)
    stages = StageMonitor(chk)
    cli_by_key: Dict[str, Dict[str, Any]] = {}
    cli_sampled: List[Dict[str, Any]] = []
    try:
        cases = build_cases(chk, shard, nshards)
        chk.count("cases_generated", len(cases))
        # Stop at the wall budget; on an overloaded machine go on (up to 3x the budget)
        # until this worker's share of the minimum observation counts is reached.
        min_cases = chk.pick(140, 2500)
        for name, text, target, cli in cases:
            late = chk.elapsed() > budget
            if late and (chk.evaluations >= min_cases or chk.elapsed() > 3 * budget):
                chk.count("cases_skipped_by_wall_budget")
                continue
            for m in name.split("/", 1)[1].split("+") if name.startswith("mut/") else ():
                chk.hist("mutator", m)
            try:
                info = evaluate(chk, stages, name, text, target)
            except (UnicodeError, OSError) as err:
                # the driver could not even write the case (e.g. a lone surrogate that an
                # escape in the model put into a snippet): not an observation
                chk.hist("cases_the_driver_could_not_prepare", type(err).__name__)
                continue
            if info["load_key"] is not None and info["load_key"] not in cli_by_key:
                cli_by_key[info["load_key"]] = info
            elif cli:
                cli_sampled.append(info)
        if shard == 0:
            # inputs that are not texts at all (undecodable bytes): observed, not judged
            for bname, data in BYTE_INPUTS:
                _r, err, exc = driver.load_inprocess(data)  # type: ignore
                chk.hist(
                    "non_utf8_bytes_not_judged",
                    f"{bname}: " + (type(exc).__name__ if exc is not None else ("report" if err else "accepted")),
                )
    finally:
        stages.uninstall()

    # CLI phase (a process start costs 4-8 s here): the sampled ~2 % first, then one run
    # per distinct in-process crash mechanism, alternating the two CLI forms.
    rng = chk.rng("cli", shard)
    rng.shuffle(cli_sampled)
    crashers = [cli_by_key[k] for k in sorted(cli_by_key)]
    rng.shuffle(crashers)
    n_crash = min(len(crashers), cli_max // 3)
    todo = cli_sampled[: cli_max - n_crash] + crashers[:n_crash]
    chk.count("cli_cases_sampled_but_over_cap", max(0, len(cli_sampled) - (cli_max - n_crash)))
    forms = sorted(CLI_FORMS)
    t_cli = chk.elapsed()
    for i, info in enumerate(todo):
        spent = chk.elapsed() - t_cli
        if i > 0 and spent > cli_budget and (i >= 2 or spent > 3 * cli_budget):
            chk.count("cli_cases_skipped_by_wall_budget", len(todo) - i)
            break
        evaluate_cli(chk, info, forms[(i + shard) % 2], timeout=max(60.0, cli_budget))
    return chk.export()


def replay(chk: harness.Check) -> int:
    data = json.loads(open(chk.replay).read())
    witness = data.get("witness", data)
    warnings.simplefilter("ignore")
    hooks.import_all_repo_modules()
    stages = StageMonitor(chk)
    info = evaluate(chk, stages, witness.get("case", "replay"), witness["text"], witness.get("target", "python"))
    stages.uninstall()
    for form in sorted(CLI_FORMS):
        evaluate_cli(chk, info, form)
    chk.distinct.update([("replay", "", "1"), ("replay", "", "2")])
    return chk.finish()


def main(argv) -> int:
    chk = harness.Check("C01", "exploration", RULE, argv)
    if chk.replay:
        return replay(chk)
    hooks.import_all_repo_modules()  # before the fork: workers inherit the imported tree
    warnings.simplefilter("ignore")

    # Known-finding keys first: each listed key carries a minimal reproducer; a key whose
    # reproducer no longer fails is reported as stale (it must not become a blanket
    # suppression after the defect got fixed).
    stages = StageMonitor(chk)
    for key, entry in sorted(chk.known.items()):
        text = entry.get("reproducer")
        if not isinstance(text, str) or "\n" not in text:
            continue
        info = evaluate(chk, stages, "known-reproducer/" + key[:60], text, "python")
        chk.count("known_reproducers_replayed")
        if info["load_key"] != key:
            chk.hist("stale_known_finding_key", f"{key} -> now {info['load_key'] or info['outcome']}")
    stages.uninstall()
    budget = chk.wall_budget(40, 480)
    cli_max = chk.pick(5, 36)
    cli_budget = chk.pick(30.0, 150.0)
    exports = []
    with concurrent.futures.ProcessPoolExecutor(max_workers=WORKERS) as pool:
        futures = [
            pool.submit(worker, list(argv), s, WORKERS, budget, cli_max, cli_budget) for s in range(WORKERS)
        ]
        for s, fut in enumerate(futures):
            try:
                exports.append(fut.result(timeout=budget + 1200))
            except BaseException as err:  # a dead worker is a harness problem, not a verdict
                chk.mark_inconclusive(f"worker {s} did not finish: {type(err).__name__}: {err}")
    for e in exports:
        chk.merge(e)

    chk.require_min("load_model_calls", chk.pick(800, 15000))
    chk.require_min("main_execute_calls", chk.pick(800, 15000))
    chk.require_min("accepted", 100)
    chk.require_min("rejected", 400)
    chk.require_min("cli_runs", 8)
    chk.require_min("cli_runs_on_rejected_models", 3)
    for func in ("source_to_atok", "check_expected_imports", "atok_to_symbol_table", "translate"):
        chk.require_min(f"stage_entered_{func}", 100)
    chk.assume(
        "a generator exception on a model the front end accepted belongs to C02 and is only "
        "counted here (c02_domain_generator_exception)"
    )
    chk.assume(
        "inputs are texts (valid UTF-8, <= 50 KB, nesting <= ~100); undecodable byte files are "
        "observed but not judged (non_utf8_bytes_not_judged)"
    )
    chk.assume(
        "'the CLI' is judged in both shipped forms: python -m aas_core_codegen and the console "
        "script entry point aas_core_codegen.main:entry_point"
    )
    return chk.finish()
