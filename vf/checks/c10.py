"""C10 — Python SDK serialization round-trips and rejects bad documents."""
import concurrent.futures
import copy
import json
import math
import random
import re
import traceback
import xml.etree.ElementTree as ET
from typing import Any, Dict, List, Optional, Tuple

from vf import corpus, harness, instances, mmgen, pyexec, pysdk, sdkloop

RULE = (
    "accepted meta-models (MMG sdk-safe + corpus) x instances with hostile values "
    "(controls, CR, astral, XML metacharacters, -0.0/inf/nan, 2^53+-1, 2^63 edges, empty "
    "and 64-byte blobs, empty lists, nesting) serialised by the generated SDK to JSON and "
    "XML, read back and compared field by field; plus structural mutations of the JSON "
    "value tree and of the XML text given to the SDK's de-serialisers, which may only "
    "succeed or raise the SDK's DeserializationException; distinct_nontrivial = distinct "
    "(model, class, kind-of-document) triples with >= 1 nested or list value"
)


def xml_representable(text: str) -> bool:
    for ch in text:
        c = ord(ch)
        if not (
            c in (0x9, 0xA, 0xD)
            or 0x20 <= c <= 0xD7FF
            or 0xE000 <= c <= 0xFFFD
            or 0x10000 <= c <= 0x10FFFF
        ):
            return False
    return True


def strings_in(value: Any, pm: Any = None) -> List[str]:
    if isinstance(value, instances.Inst):
        return [s for v in value.props.values() for s in strings_in(v, pm)]
    if isinstance(value, list):
        return [s for v in value for s in strings_in(v, pm)]
    if isinstance(value, str):
        return [value]
    if isinstance(value, instances.EnumVal) and pm is not None:
        # the text of an enumeration literal is written into the document as well
        cls = pm.classes.get(value.enum)
        for literal, text in (getattr(cls, "literals", None) or []):
            if literal == value.literal and isinstance(text, str):
                return [text]
    return []


def floats_in(value: Any) -> List[float]:
    if isinstance(value, instances.Inst):
        return [s for v in value.props.values() for s in floats_in(v)]
    if isinstance(value, list):
        return [s for v in value for s in floats_in(v)]
    if isinstance(value, float):
        return [value]
    return []


def differs(sdk: pysdk.Sdk, expected: Any, actual: Any, path: str = "") -> Optional[Tuple[str, str]]:
    """
    Compare an abstract value with an SDK value field by field.

    Return ``(kind of value that differs, path)`` or None.
    """
    if isinstance(expected, instances.Inst):
        cls = sdk.sdk_class(expected.cls)
        if type(actual) is not cls:
            return "class", path
        for name, value in expected.props.items():
            got = getattr(actual, sdk.prop_name(name), "<missing>")
            diff = differs(sdk, value, got, f"{path}.{name}")
            if diff is not None:
                return diff
        return None
    if isinstance(expected, instances.EnumVal):
        return None if actual is sdk.enum_literal(expected.enum, expected.literal) else ("enum", path)
    if isinstance(expected, list):
        if not isinstance(actual, list) or len(actual) != len(expected):
            return "list-length", path
        for i, (e, a) in enumerate(zip(expected, actual)):
            diff = differs(sdk, e, a, f"{path}[{i}]")
            if diff is not None:
                return diff
        return None
    if expected is None:
        return None if actual is None else ("none", path)
    if isinstance(expected, bool):
        return None if actual is expected else ("bool", path)
    if isinstance(expected, float):
        if not isinstance(actual, float):
            return "float", path
        if math.isnan(expected):
            return None if math.isnan(actual) else ("float-nan", path)
        return None if actual == expected else ("float", path)
    if isinstance(expected, int):
        return None if (type(actual) is int and actual == expected) else ("int", path)
    if isinstance(expected, (bytes, bytearray)):
        return None if bytes(actual) == bytes(expected) and isinstance(actual, (bytes, bytearray)) else ("bytes", path)
    if isinstance(expected, str):
        if isinstance(actual, str) and actual == expected:
            return None
        if isinstance(actual, str) and "\r" in expected and actual == expected.replace("\r\n", "\n").replace("\r", "\n"):
            return "str-carriage-return", path
        return "str", path
    return "unknown-kind", path


# ------------------------------------------------------------------ mutations
JUNK = [None, True, False, 0, 1, -1, 1.5, "", "x", "AAAA", "====", "é", "0", "true", [], {}, [1], {"a": 1}, 2**70, "\ud800"]


def json_paths(value: Any, path: Tuple = ()) -> List[Tuple]:
    result = [path]
    if isinstance(value, dict):
        for k, v in value.items():
            result.extend(json_paths(v, path + (k,)))
    elif isinstance(value, list):
        for i, v in enumerate(value):
            result.extend(json_paths(v, path + (i,)))
    return result


def json_get(value: Any, path: Tuple) -> Any:
    for seg in path:
        value = value[seg]
    return value


def json_set(root: Any, path: Tuple, new: Any) -> Any:
    if not path:
        return new
    parent = json_get(root, path[:-1])
    parent[path[-1]] = new
    return root


def mutate_json(doc: Any, rng: random.Random) -> Tuple[Any, str]:
    doc = copy.deepcopy(doc)
    paths = json_paths(doc)
    path = rng.choice(paths)
    target = json_get(doc, path)
    choice = rng.random()
    if isinstance(target, dict) and choice < 0.5:
        op = rng.choice(["delete-key", "unknown-key", "model-type", "null-value"])
        if op == "delete-key" and target:
            del target[rng.choice(list(target))]
        elif op == "unknown-key":
            target[rng.choice(["unexpected", "modelType", "", "é"])] = rng.choice(JUNK)
        elif op == "model-type":
            target["modelType"] = rng.choice(["Nope", 1, None, "", []])
        elif target:
            target[rng.choice(list(target))] = None
        return doc, op
    if isinstance(target, list) and choice < 0.5:
        op = rng.choice(["append-junk", "insert-null", "nest"])
        if op == "append-junk":
            target.append(rng.choice(JUNK))
        elif op == "insert-null":
            target.insert(rng.randint(0, len(target)), None)
        else:
            return json_set(doc, path, [target]), op
        return doc, op
    if isinstance(target, str) and choice < 0.5:
        op = "string-edit"
        k = rng.randint(0, len(target))
        new = target[:k] + rng.choice(["é", "=", " ", "\n", "-", "A", "\ud800", "\x00"]) + target[k + rng.choice([0, 1]):]
        return json_set(doc, path, new), op
    if isinstance(target, bool):
        return json_set(doc, path, rng.choice([0, 1, "true", None])), "bool-swap"
    if isinstance(target, (int, float)) and choice < 0.6:
        return json_set(doc, path, rng.choice([True, str(target), target + 0.5, 1e400, float("nan"), 2**64, -(2**64)])), "number-swap"
    return json_set(doc, path, rng.choice(JUNK)), "replace-with-junk"


def mutate_xml(text: str, rng: random.Random) -> Tuple[str, str]:
    op = rng.choice(
        ["truncate", "rename", "remove", "duplicate", "reorder", "text-in-container",
         "attribute", "namespace", "junk-text", "unknown-element", "char-edit", "empty"]
    )
    if op == "truncate":
        return text[: rng.randint(0, len(text))], op
    if op == "char-edit":
        k = rng.randint(0, len(text))
        return text[:k] + rng.choice(["<", ">", "&", "/", "x", "\x00", "]]>", "<!--", "<?"]) + text[k + rng.choice([0, 1]):], op
    if op == "empty":
        return rng.choice(["", " ", "<a/>", "<?xml version='1.0'?>", "not xml"]), op
    try:
        root = ET.fromstring(text)
    except ET.ParseError:
        return text[: len(text) // 2], "truncate"
    elements = list(root.iter())
    element = rng.choice(elements)
    parents = {child: parent for parent in root.iter() for child in parent}
    if op == "rename":
        ns, _, local = element.tag.rpartition("}")
        element.tag = (ns + "}" if ns else "") + rng.choice(["unexpected", local.upper(), local + "x"])
    elif op == "remove" and element in parents:
        parents[element].remove(element)
    elif op == "duplicate" and element in parents:
        parents[element].append(copy.deepcopy(element))
    elif op == "reorder" and len(list(element)) >= 2:
        children = list(element)
        for child in children:
            element.remove(child)
        rng.shuffle(children)
        element.extend(children)
    elif op == "text-in-container":
        element.text = (element.text or "") + rng.choice(["junk", " x ", "1"])
        if len(list(element)):
            list(element)[-1].tail = "tail"
    elif op == "attribute":
        element.set(rng.choice(["id", "xmlns:x", "type"]), "v")
    elif op == "namespace":
        _, _, local = element.tag.rpartition("}")
        element.tag = rng.choice(["{https://other.example}" + local, local])
    elif op == "junk-text":
        element.text = rng.choice(["abc", "", "1e", "tru", "====", "é", "--1", "1.5.5", "0x10", " 1 ", "NaN", "INF", "-INF", "1" * 400])
    elif op == "unknown-element":
        ET.SubElement(element, rng.choice(["unexpected", "{https://dummy.com/gen}unexpected"]))
    try:
        return ET.tostring(root, encoding="unicode"), op
    except Exception:
        return text[: len(text) // 2], "truncate"


def innermost_generated_function(exc: BaseException, sdk: pysdk.Sdk, depth: int = 2) -> str:
    """
    Name the innermost ``depth`` frames inside the generated package, with the
    model-specific class names replaced by ``<cls>`` so that keys stay mechanisms.
    """
    names = []
    for frame in traceback.extract_tb(exc.__traceback__):
        if sdk.module_name in frame.filename:
            names.append(frame.name)
    snakes = []
    for cname in sdk.pm.classes:
        try:
            snake = str(sdk.pn.function_name(sdk.Identifier(f"{cname}_x")))[:-2]
        except Exception:
            continue
        snakes.append(snake)
        snakes.append(sdk.cls_name(cname))
    snakes.sort(key=len, reverse=True)
    result = []
    for name in names[-depth:]:
        for snake in snakes:
            if snake and snake in name:
                name = name.replace(snake, "<cls>")
                break
        # property names are model-specific as well
        name = re.sub(r"^(read_and_set|set|transform)_(?!<cls>)\w+?(?=(_from_jsonable|$))", r"\1_<prop>", name)
        result.append(name)
    return "<".join(reversed(result)) or "?"


def message_class(exc: BaseException) -> str:
    import re

    text = str(exc).splitlines()[0] if str(exc) else ""
    text = re.sub(r"'[^']*'|\"[^\"]*\"", "Q", text)
    text = re.sub(r"[0-9]+", "N", text)
    # what follows the colon names classes and literals of the model
    text = re.sub(r"(literal of|model type for|instance of class) .*$", r"\1 <cls>", text)
    return text[:70]


def check_model(chk: harness.Check, name: str, text: str, rng, n_instances: int, n_mutations: int) -> None:
    opened = sdkloop.open_sdk(chk, name, text)
    if opened is None:
        return
    pm, sdk = opened
    try:
        gen = instances.InstanceGenerator(pm, rng, hostile=True, special_floats=True)
        classes = gen.instantiable()
        if not classes:
            chk.count("models_without_instantiable_class")
            return
        json_exc = sdk.jsonization.DeserializationException
        xml_exc = sdk.xmlization.DeserializationException
        for i in range(n_instances):
            cls = classes[i % len(classes)]
            inst = gen.gen_instance(cls)
            base = {"model": name, "text": text, "cls": cls,
                    "instance": instances.to_jsonable_sample(inst)}
            try:
                obj = sdk.build(inst)
            except Exception as err:
                chk.violation(f"sdk-constructor-raised/{type(err).__name__}",
                              dict(base, error=traceback.format_exc()[-1500:]))
                continue
            from_jsonable = getattr(
                sdk.jsonization,
                str(sdk.pn.function_name(sdk.Identifier(f"{cls}_from_jsonable"))),
            )
            from_str = getattr(
                sdk.xmlization, str(sdk.pn.function_name(sdk.Identifier(f"{cls}_from_str")))
            )
            nested = any(isinstance(v, (list, instances.Inst)) for v in inst.props.values())
            # ---- JSON round trip
            jsonable = None
            try:
                jsonable = sdk.jsonization.to_jsonable(obj)
                doc_text = json.dumps(jsonable)
                back = from_jsonable(json.loads(doc_text))
                diff = differs(sdk, inst, back)
                chk.count("json_roundtrips")
                if diff is not None:
                    chk.violation(f"json-roundtrip/{diff[0]}", dict(base, path=diff[1], document=doc_text[:3000]))
            except Exception as err:
                chk.violation(
                    f"json-roundtrip-raised/{type(err).__name__}@{innermost_generated_function(err, sdk)}|{message_class(err)}",
                    dict(base, error=traceback.format_exc()[-2500:]),
                )
            chk.case(distinct_key=(name, cls, "json") if nested else None)
            # ---- XML round trip
            xml_text = None
            plain_strings = set(strings_in(inst))
            representable = all(xml_representable(s) for s in strings_in(inst, pm))
            if representable:
                try:
                    xml_text = sdk.xmlization.to_str(obj)
                    back = from_str(xml_text)
                    diff = differs(sdk, inst, back)
                    chk.count("xml_roundtrips")
                    if diff is not None:
                        chk.violation(f"xml-roundtrip/{diff[0]}", dict(base, path=diff[1], document=xml_text[:3000]))
                except Exception as err:
                    key = f"xml-roundtrip-raised/{type(err).__name__}@{innermost_generated_function(err, sdk)}|{message_class(err)}"
                    if "literal of" in str(err) and any(
                        "\r" in s for s in strings_in(inst, pm) if s not in plain_strings
                    ):
                        # the text of an enumeration literal holds a carriage return, which
                        # the writer leaves raw and the XML parser turns into a line feed:
                        # the same defect as xml-roundtrip/str-carriage-return, seen at a literal
                        key = "xml-roundtrip/enum-literal-carriage-return"
                    chk.violation(key, dict(base, error=traceback.format_exc()[-2500:]))
                chk.case(
                    distinct_key=(name, cls, "xml") if nested else None,
                    sample={"model": name, "cls": cls, "json": json.dumps(jsonable)[:300] if jsonable is not None else None,
                            "xml": (xml_text or "")[:300]} if i == 0 else None,
                )
            else:
                chk.count("xml_roundtrips_skipped_not_xml_text")
            # ---- mutated documents
            if jsonable is not None:
                for _ in range(n_mutations):
                    mutated, op = mutate_json(jsonable, rng)
                    chk.count("json_mutations")
                    try:
                        from_jsonable(mutated)
                        chk.hist("json_mutation_outcome", f"{op}:accepted")
                    except json_exc:
                        chk.hist("json_mutation_outcome", f"{op}:DeserializationException")
                    except RecursionError:
                        raise
                    except Exception as err:
                        chk.hist("json_mutation_outcome", f"{op}:{type(err).__name__}")
                        chk.violation(
                            f"json-reject/{type(err).__name__}@{innermost_generated_function(err, sdk, 1)}",
                            dict(base, mutation=op, document=repr(mutated)[:3000],
                                 error=traceback.format_exc()[-2000:]),
                        )
            if xml_text is not None:
                for _ in range(n_mutations):
                    mutated_text, op = mutate_xml(xml_text, rng)
                    chk.count("xml_mutations")
                    try:
                        from_str(mutated_text)
                        chk.hist("xml_mutation_outcome", f"{op}:accepted")
                    except xml_exc:
                        chk.hist("xml_mutation_outcome", f"{op}:DeserializationException")
                    except RecursionError:
                        raise
                    except Exception as err:
                        chk.hist("xml_mutation_outcome", f"{op}:{type(err).__name__}")
                        chk.violation(
                            f"xml-reject/{type(err).__name__}@{innermost_generated_function(err, sdk, 1)}",
                            dict(base, mutation=op, document=mutated_text[:3000],
                                 error=traceback.format_exc()[-2000:]),
                        )
    finally:
        sdk.close()


def worker(args) -> Dict[str, Any]:
    argv, shard, n_shards, n_models, n_instances, n_mutations = args[:-1]
    mins = args[-1]
    chk = harness.Check("C10", "exploration", RULE, argv)
    chk.set_worker_minimums(mins, n_shards)
    budget = chk.wall_budget(150, 900)
    models: List[Tuple[str, str]] = []
    if shard == 0:
        models += corpus.small_common()
    for i in range(shard, n_models, n_shards):
        m = mmgen.generate(
            chk.rng("model", i),
            mmgen.Profile(sdk_safe=True, hostile_strings=(i % 2 == 0), p_invariant=0.2, p_list=0.4),
        )
        models.append((f"mmg/{chk.seed}/{i}", m.text))
    for idx, (name, text) in enumerate(models):
        if chk.should_stop(budget):
            chk.count("models_skipped_for_budget", len(models) - idx)
            break
        check_model(chk, name, text, chk.rng("inst", name), n_instances, n_mutations)
    return chk.export()


def main(argv) -> int:
    chk = harness.Check("C10", "exploration", RULE, argv)
    n_models = chk.pick(48, 800)
    n_instances = chk.pick(24, 100)
    n_mutations = chk.pick(12, 40)
    n_shards = 12
    mins = {
        "json_roundtrips": chk.pick(300, 2000),
        "xml_roundtrips": chk.pick(100, 600),
        "json_mutations": chk.pick(2000, 20000),
        "xml_mutations": chk.pick(1000, 8000),
    }
    with concurrent.futures.ProcessPoolExecutor(max_workers=n_shards) as pool:
        jobs = [
            pool.submit(worker, (list(argv), s, n_shards, n_models, n_instances, n_mutations, mins))
            for s in range(n_shards)
        ]
        for job in jobs:
            try:
                chk.merge(job.result())
            except Exception as err:
                chk.harness_error(f"worker failed: {err!r}")
    chk.assume("XML round trip judged only for instances whose strings consist of XML 1.0 characters")
    chk.assume("floats compare with == (nan equals nan); the sign of zero is not judged")
    for counter_name, minimum in mins.items():
        chk.require_min(counter_name, minimum)
    return chk.finish()
