"""C24 — the model cache survives crashes and concurrent runs (fault enumeration)."""
import concurrent.futures
import os
import pathlib
import random
import shutil
import threading
import time
from typing import Any, Dict, List, Optional, Sequence, Set, Tuple

from vf import corpus, driver, env, fsched, fsmon, harness

RULE = (
    "a case is one executed history over a fresh private cache directory: real worker "
    "processes run the real run.load_model(cache_model=True) while a token-passing "
    "scheduler releases one file-system step (stat/mkdir/open/dump chunk/close/rename/"
    "remove/load) at a time, or kills a worker / fails its step at a chosen point and "
    "lets two follow-up runs execute, or N real CLI processes race with slow chunked "
    "writes; non-trivial = at least one context switch between workers that could both "
    "move, or a kill / injected fault, or >= 2 CLI processes overlapping; distinct = "
    "distinct (configuration, sequence of (worker, action, step kind, abstract path))"
)

_POOL: Optional[fsched.Pool] = None


def _pool(warm_model: pathlib.Path) -> fsched.Pool:
    global _POOL
    if _POOL is None or _POOL.owner != os.getpid():
        _POOL = fsched.Pool(warm_model=warm_model)
    return _POOL


# ---------------------------------------------------------------------------
# oracle over one scenario (= list of runs that shared one cache directory)
# ---------------------------------------------------------------------------


class Scenario:
    def __init__(self, phase: str, config: str) -> None:
        self.phase = phase
        self.config = config
        self.runs: List[fsched.Run] = []
        self.labels: List[str] = []
        self.strays: Dict[int, Set[str]] = {}  # run index -> incomplete files before it


def _history_view(run: fsched.Run) -> List[str]:
    return [
        f"w{w}:{a}:{p.get('op')}:{fsmon.path_kind(str(p.get('path')))}"
        for w, p, a in run.history
    ]


def judge(chk: harness.Check, sc: Scenario, refs: Dict[str, Dict[str, str]]) -> None:
    """``refs``: model path -> {dump_sha, text_sha} of the uncached load."""
    dumps: Dict[str, Dict[str, Any]] = {}  # sha -> dump record
    for run in sc.runs:
        for worker in run.workers:
            for event in worker.events:
                if event.get("op") == "dump.data":
                    dumps[event["sha"]] = event

    def witness(run: fsched.Run, worker: Optional[fsched.Worker], **more: Any) -> Dict:
        result = {
            "phase": sc.phase,
            "config": sc.config,
            "runs": [
                {
                    "label": label,
                    "specs": [[w.spec.model_path.name, w.spec.chunks] for w in r.workers],
                    "choices": [[c, a] for _, c, a in r.decisions],
                    "history": _history_view(r),
                }
                for label, r in zip(sc.labels, sc.runs)
            ],
        }
        if worker is not None:
            result["worker"] = worker.idx
            result["outcome"] = worker.outcome
            result["model"] = worker.spec.model_path.name
            result["chunks"] = worker.spec.chunks
        result.update(more)
        return result

    for index, (label, run) in enumerate(zip(sc.labels, sc.runs)):
        if run.hung:
            chk.count("histories_hung")
            chk.mark_inconclusive(
                f"a worker did not answer within {fsched.WATCHDOG_S} s in {sc.phase}/{sc.config}"
            )
        for note in run.harness_notes:
            chk.harness_error(f"{sc.phase}/{sc.config}: {note}"[:600])
        chk.count("events_logged", sum(len(w.events) for w in run.workers))
        for _, point, _ in run.history:
            chk.hist("steps", point.get("op"))
        for worker in run.workers:
            ref = refs[str(worker.spec.model_path)]
            outcome = worker.outcome
            # (1) every run that completes equals the uncached run; nothing escapes
            if worker.killed:
                chk.count("workers_killed")
            elif outcome is None:
                pass  # hung or died: reported above
            elif outcome["status"] == "ok":
                chk.count("workers_completed")
                if outcome["dump_sha"] != ref["dump_sha"] or outcome["text_sha"] != ref["text_sha"]:
                    chk.violation(
                        "completed-worker-result-differs-from-uncached",
                        witness(run, worker, label=label),
                    )
            elif outcome["status"] == "error":
                chk.violation(
                    "completed-worker-reports-error-for-valid-model",
                    witness(run, worker, label=label),
                )
            else:
                injected = {"x": "OSError", "i": "KeyboardInterrupt"}.get(
                    worker.injected or "", None
                )
                if injected is not None and outcome["cls"] == injected:
                    chk.count("workers_failed_by_injected_fault")
                else:
                    last = worker.points[-1] if worker.points else {}
                    chk.violation(
                        f"exception-escapes-worker/{outcome['sig']}/at-{last.get('op')}",
                        witness(run, worker, label=label),
                    )
            # (2) every load consumes exactly one complete dump of the same text
            for event in worker.events:
                if event.get("op") != "load.data":
                    continue
                chk.count("loads_checked")
                dump = dumps.get(event["sha"])
                if dump is not None and dump.get("text_sha") == ref["text_sha"]:
                    chk.count("loads_of_complete_dump")
                    continue
                if dump is not None:
                    kind = "foreign"
                elif any(event["len"] < d["len"] for d in dumps.values()):
                    kind = "partial"
                else:
                    kind = "unknown-bytes"
                chk.violation(
                    f"load-consumed-non-dump/{kind}",
                    witness(run, worker, label=label, load=event),
                )
            # (3) strays left by a crash are never opened by later runs
            strays = sc.strays.get(index, set())
            for event in worker.events:
                if event.get("op") == "open" and event.get("path") in strays:
                    if not event.get("w"):
                        chk.violation(
                            "stray-file-opened-by-later-run",
                            witness(run, worker, label=label, stray=event["path"]),
                        )
    # (4) what a clean directory may contain afterwards
    last = sc.runs[-1]
    for rel, digest in last.final_snapshot.items():
        if digest == "dir":
            continue
        if digest in dumps:
            chk.count("final_entries_complete")
        else:
            chk.count("final_stray_files")
            chk.hist("stray_kinds", fsmon.path_kind(rel))


def incomplete_files(run: fsched.Run, scenario: Scenario) -> Set[str]:
    dumps = set()
    for r in scenario.runs:
        for worker in r.workers:
            for event in worker.events:
                if event.get("op") == "dump.data":
                    dumps.add(event["sha"])
    # (the records of a killed worker up to its last reported step are known: they
    # travel with every step report)
    return {
        rel
        for rel, digest in run.final_snapshot.items()
        if digest != "dir" and digest not in dumps
    }


# ---------------------------------------------------------------------------
# running histories
# ---------------------------------------------------------------------------


def run_history(
    pool: fsched.Pool,
    specs: Sequence[fsched.WorkerSpec],
    chooser: fsched.Chooser,
    tmpdir: Optional[pathlib.Path] = None,
    victims: Sequence[int] = (),
) -> fsched.Run:
    procs = list(pool.ensure(len(specs)))
    made = []
    for idx in victims:
        procs[idx] = pool.fork_victim()
        made.append(procs[idx])
    try:
        return fsched.execute(pool, specs, chooser, tmpdir=tmpdir, procs=procs)
    finally:
        for proc in made:
            if proc.alive:
                proc.send(b'{"cmd": "exit"}\n')
                proc.reap()


def go_then(k: int, action: str) -> fsched.Chooser:
    """Single worker: ``k`` steps go, then ``action`` once, then go."""

    def chooser(run: fsched.Run, enabled: List[int]) -> Tuple[int, str]:
        return enabled[0], (action if len(run.decisions) == k else "g")

    return chooser


def crash_job(job: Dict[str, Any], argv: Sequence[str]) -> Dict[str, Any]:
    chk = harness.Check("C24", "fault_enumeration", RULE, argv)
    model = pathlib.Path(job["model"])
    refs = job["refs"]
    pool = _pool(model)
    spec = fsched.WorkerSpec(model, job["chunks"])
    warm, action = job["warm"], job["action"]
    config = f"crash/{'warm' if warm else 'cold'}/{action}/chunks={job['chunks']}"

    # trace the step sequence of an undisturbed run in the same situation
    base = env.new_dir("trace")
    try:
        if warm:
            run_history(pool, [spec], fsched.sequential_chooser, tmpdir=base)
        trace = run_history(pool, [spec], fsched.sequential_chooser, tmpdir=base)
    finally:
        shutil.rmtree(base, ignore_errors=True)
    steps = [p.get("op") for _, p, _ in trace.history]
    chk.extra.setdefault("traced_step_sequences", {})[config] = steps
    deadline = job["deadline"]
    done = 0
    for k in range(len(steps)):
        if time.time() > deadline:
            break
        base = env.new_dir("crash")
        try:
            sc = Scenario("crash", config)
            if warm:
                sc.runs.append(run_history(pool, [spec], fsched.sequential_chooser, tmpdir=base))
                sc.labels.append("populate")
            victim = run_history(
                pool, [spec], go_then(k, action), tmpdir=base,
                victims=[0] if action == "k" else [],
            )
            sc.runs.append(victim)
            sc.labels.append(f"victim:{action}@{k}:{steps[k]}")
            strays = incomplete_files(victim, sc)
            for n in (1, 2):
                sc.strays[len(sc.runs)] = strays
                sc.runs.append(run_history(pool, [spec], fsched.sequential_chooser, tmpdir=base))
                sc.labels.append(f"follow-up-{n}")
            judge(chk, sc, refs)
            chk.count("crash_points_enumerated")
            chk.count("followup_runs", 2)
            chk.hist("crash_points", f"{'warm' if warm else 'cold'}:{action}@{steps[k]}")
            chk.case(
                distinct_key=(config, model.name, k),
                sample={"config": config, "model": model.name, "runs": [
                    {"label": l, "history": _history_view(r)} for l, r in zip(sc.labels, sc.runs)
                ]} if k == 3 else None,
            )
            done += 1
        finally:
            shutil.rmtree(base, ignore_errors=True)
    result = chk.export()
    result["extra"] = chk.extra
    result["crash_complete"] = done == len(steps)
    result["forks"] = pool.forks
    return result


def _specs(job: Dict[str, Any]) -> List[fsched.WorkerSpec]:
    return [fsched.WorkerSpec(pathlib.Path(m), c) for m, c in job["specs"]]


def _record_schedule(chk: harness.Check, sc: Scenario, run: fsched.Run, kind: str) -> None:
    chk.count("schedules_executed")
    chk.hist("schedule_kinds", kind)
    switches = fsched.preemptions(run.decisions)
    chk.hist("context_switches", min(switches, 12))
    faults = sum(1 for _, _, a in run.history if a != "g")
    nontrivial = switches >= 1 or faults >= 1
    chk.case(
        distinct_key=(sc.config, run.signature()) if nontrivial else None,
        sample={"config": sc.config, "history": _history_view(run)}
        if nontrivial and (chk.evaluations % 211 == 0)
        else None,
    )


def explore_job(job: Dict[str, Any], argv: Sequence[str]) -> Dict[str, Any]:
    chk = harness.Check("C24", "fault_enumeration", RULE, argv)
    specs = _specs(job)
    pool = _pool(specs[0].model_path)
    refs = job["refs"]
    config = job["config"]

    def on_run(run: fsched.Run) -> None:
        sc = Scenario("schedule", config)
        sc.runs.append(run)
        sc.labels.append("concurrent")
        judge(chk, sc, refs)
        _record_schedule(chk, sc, run, job["kind"])

    ex = fsched.explore(
        pool,
        specs,
        on_run,
        fixed_prefix=[tuple(x) for x in job.get("prefix", [])],
        max_preemptions=job.get("max_preemptions"),
        deadline=job["deadline"],
    )
    result = chk.export()
    result["exploration"] = {
        "runs": ex.runs,
        "nodes": ex.nodes,
        "transitions": ex.transitions,
        "complete": ex.complete,
        "divergences": ex.divergences,
    }
    result["forks"] = pool.forks
    return result


def sample_job(job: Dict[str, Any], argv: Sequence[str]) -> Dict[str, Any]:
    chk = harness.Check("C24", "fault_enumeration", RULE, argv)
    specs = _specs(job)
    pool = _pool(specs[0].model_path)
    refs = job["refs"]
    config = job["config"]
    rng = chk.rng("sample", config, job["index"])
    for _ in range(job["n"]):
        if time.time() > job["deadline"]:
            break
        stick = rng.choice([0.0, 0.3, 0.6, 0.85])
        fault: Optional[Tuple[int, int, str]] = None  # worker, its step number, action
        roll = rng.random()
        if roll < job["p_kill"]:
            fault = (rng.randrange(len(specs)), rng.randrange(0, 9), "k")
        elif roll < job["p_kill"] + job["p_inject"]:
            fault = (rng.randrange(len(specs)), rng.randrange(0, 9), rng.choice("xi"))
        steps_of: Dict[int, int] = {}

        def chooser(run: fsched.Run, enabled: List[int]) -> Tuple[int, str]:
            chosen = None
            if run.decisions:
                last = run.decisions[-1][1]
                if last in enabled and rng.random() < stick:
                    chosen = last
            if chosen is None:
                chosen = rng.choice(enabled)
            n = steps_of.get(chosen, 0)
            steps_of[chosen] = n + 1
            if fault is not None and fault[0] == chosen and fault[1] == n:
                return chosen, fault[2]
            return chosen, "g"

        base = env.new_dir("smp")
        try:
            sc = Scenario("schedule", config)
            run = run_history(
                pool, specs, chooser, tmpdir=base,
                victims=[fault[0]] if fault is not None and fault[2] == "k" else [],
            )
            sc.runs.append(run)
            sc.labels.append("concurrent")
            if fault is not None:
                strays = incomplete_files(run, sc)
                sc.strays[1] = strays
                sc.runs.append(
                    run_history(pool, specs[:1], fsched.sequential_chooser, tmpdir=base)
                )
                sc.labels.append("follow-up")
                chk.count("followup_runs")
            judge(chk, sc, refs)
            _record_schedule(chk, sc, run, "sampled" if fault is None else f"sampled+{fault[2]}")
        finally:
            shutil.rmtree(base, ignore_errors=True)
    result = chk.export()
    result["forks"] = pool.forks
    return result


JOBS = {"crash": crash_job, "explore": explore_job, "sample": sample_job}


def shard(job: Dict[str, Any], argv: Sequence[str]) -> Dict[str, Any]:
    try:
        t0 = time.time()
        # Starting the worker processes can take long on a loaded machine; every job
        # gets a minimum slice from the moment its workers are ready, so that a slow
        # start shows as a longer run, not as an inconclusive one.
        first_model = pathlib.Path(job["model"] if "model" in job else job["specs"][0][0])
        _pool(first_model).ensure(3 if job["type"] != "crash" else 1)
        job["deadline"] = max(job["deadline"], time.time() + job.get("min_slice", 0.0))
        result = JOBS[job["type"]](job, argv)
        result["wall"] = round(time.time() - t0, 2)
        result["started_late"] = t0 > job["deadline"]
        return result
    except BaseException as err:  # noqa
        chk = harness.Check("C24", "fault_enumeration", RULE, argv)
        chk.harness_error(f"job {job.get('type')}/{job.get('config')}: {harness.format_exc(err)}"[-1500:])
        return chk.export()


# ---------------------------------------------------------------------------
# stress: real CLI processes
# ---------------------------------------------------------------------------


def stress_round(
    chk: harness.Check,
    index: int,
    models: Sequence[Tuple[str, str]],
    n_procs: int,
    rng: random.Random,
    references: Dict[Tuple[str, str], Dict[str, Any]],
    targets: Sequence[str],
) -> None:
    world = env.new_dir("stress")
    tmp = world / "tmp"
    tmp.mkdir()
    plans = []
    for i in range(n_procs):
        name, text = models[i % len(models)] if rng.random() < 0.8 else rng.choice(models)
        target = rng.choice(list(targets))
        plans.append((i, name, text, target, rng.choice([0.0, 0.0, 0.0, 0.1, 0.3, 0.6]),
                      rng.choice([30, 60, 100])))
    results: Dict[int, Any] = {}
    barrier = threading.Barrier(n_procs)

    def one(plan) -> None:
        i, name, text, target, delay, pause_ms = plan
        work = world / f"p{i}"
        work.mkdir()
        logs = world / f"logs{i}"
        logs.mkdir()
        barrier.wait()
        time.sleep(delay)
        results[i] = driver.run_cli(
            text, target, cache_model=True, workdir=work, tmpdir=tmp, timeout=300,
            extra_env=fsmon.audit_env(
                logs, VF_PICKLE_CHUNKS="6",
                VF_PICKLE_SLEEP_MS=str(pause_ms),
            ),
        )

    threads = [threading.Thread(target=one, args=(p,)) for p in plans]
    for t in threads:
        t.start()
    for t in threads:
        t.join()
    chk.count("stress_rounds")
    events_of = {i: fsmon.read_events(world / f"logs{i}") for i, *_ in plans}
    dumps: Dict[str, Dict[str, Any]] = {}
    for events in events_of.values():
        for event in events:
            if event["ev"] == "pickle.dump":
                dumps[event["sha"]] = event
    history = []
    for i, name, text, target, delay, pause_ms in plans:
        res = results.get(i)
        ref = references[(name, target)]
        events = events_of[i]
        cache_events = [
            e for e in events if any(fsmon.is_under(p, tmp) for p in fsmon.event_paths(e))
            or e["ev"].startswith("pickle.")
        ]
        chk.count("events_logged", len(cache_events))
        chk.count("stress_processes")
        history.append(
            {"proc": i, "model": name, "target": target, "rc": getattr(res, "rc", None),
             "cache_events": [
                 f"{e['ev']}:{fsmon.path_kind(os.path.relpath(e['path'], tmp)) if isinstance(e.get('path'), str) else ''}"
                 for e in cache_events
             ]}
        )
        if res is None or res.rc is None:
            chk.mark_inconclusive("a stress CLI process timed out")
            continue
        out = res.stdout.replace(str(res.output_dir), "<OUT>")
        err = res.stderr.replace(str(res.workdir), "<WORK>")
        tree = driver.tree_digest(res.output_dir)
        wit = {"round": index, "proc": i, "model": name, "target": target, "rc": res.rc,
               "stdout": out[-800:], "stderr": err[-3000:], "history": history}
        if res.rc != ref["rc"] or err != ref["stderr"]:
            last = [l for l in res.stderr.strip().splitlines() if l.strip()][-1:] or [""]
            cls = last[0].split(":")[0].strip()[:60]
            chk.violation(f"stress/cli-run-fails/{cls}", wit)
        elif out != ref["stdout"] or tree != ref["tree"]:
            chk.violation("stress/cli-output-differs-from-uncached", wit)
        else:
            chk.count("workers_completed")
        text_sha = fsmon.sha256(text)
        for event in events:
            if event["ev"] != "pickle.load":
                continue
            chk.count("loads_checked")
            dump = dumps.get(event["sha"])
            if dump is not None and dump.get("text_sha") == text_sha:
                chk.count("loads_of_complete_dump")
            else:
                kind = "foreign" if dump is not None else (
                    "partial" if any(event["len"] < d["len"] for d in dumps.values()) else "unknown-bytes"
                )
                chk.violation(f"load-consumed-non-dump/{kind}", dict(wit, load=event))
    hits = sum(1 for h in history if any(c.startswith("pickle.load") for c in h["cache_events"]))
    writes = sum(1 for h in history if any(c.startswith("pickle.dump") for c in h["cache_events"]))
    chk.hist("stress_readers_per_round", hits)
    chk.hist("stress_writers_per_round", writes)
    chk.case(
        distinct_key=("stress", index, tuple(tuple(h["cache_events"]) for h in history))
        if writes + hits >= 2 else None,
        sample={"phase": "stress", "history": history} if index == 0 else None,
    )
    # final directory: complete entries and strays only
    for rel, digest in fsmon.snapshot(tmp).items():
        if digest != "dir":
            chk.count("final_entries_complete" if digest in dumps else "final_stray_files")
    shutil.rmtree(world, ignore_errors=True)


# ---------------------------------------------------------------------------


def thread_phase(chk: harness.Check, model_paths: List[pathlib.Path], refs: Dict[str, Dict[str, str]]) -> None:
    """Concurrent runs inside one process (vf/c24_threads.py), judged on their outcomes."""
    import json
    import subprocess
    import sys

    n_jobs = chk.pick(6, 16)
    n_schedules = chk.pick(40, 250)
    base = env.new_dir("threads")
    procs = []
    for j in range(n_jobs):
        model = model_paths[j % len(model_paths)]
        n_threads = 2 if j % 3 else 3
        cmd = [sys.executable, "-m", "vf.c24_threads", str(model), str(base / f"j{j}"),
               str(n_schedules), str(chk.seed * 1000 + j), str(n_threads)]
        procs.append((j, model, n_threads, subprocess.Popen(
            cmd, stdout=subprocess.PIPE, stderr=subprocess.PIPE, text=True, cwd=str(env.VERIF),
            env=dict(os.environ, PYTHONPATH=f"{env.REPO}:{env.VERIF}", PYTHONDONTWRITEBYTECODE="1"),
        )))
    for j, model, n_threads, proc in procs:
        try:
            out, err = proc.communicate(timeout=900)
        except subprocess.TimeoutExpired:
            proc.kill()
            out, err = proc.communicate()
            chk.count("thread_jobs_timed_out")
        if proc.returncode not in (0, None, -9):
            chk.harness_error(f"thread job {j} failed: {err[-600:]}")
            continue
        reference = None
        for line in out.splitlines():
            try:
                record = json.loads(line)
            except ValueError:
                continue
            if "reference" in record:
                reference = record["reference"]
                if reference.get("error"):
                    chk.harness_error(f"thread job {j}: uncached reference failed: {reference}")
                    break
                continue
            if reference is None:
                continue
            if record.get("watchdog"):
                chk.count("thread_schedules_inconclusive_watchdog")
                continue
            chk.count("thread_schedules_executed")
            chk.count("thread_runs_completed", len(record["outcomes"]))
            history = [tuple(h) for h in record["history"]]
            chk.hist("thread_schedule_switches", str(min(record["switches"], 12)))
            for _, step, kind in history:
                chk.hist("thread_steps", f"{step}:{kind}")
            config = f"threads/{n_threads}-runs/{'warm' if record['warm'] else 'cold'}"
            chk.case(
                distinct_key=("threads", model.name, n_threads, record["warm"], tuple(history))
                if record["switches"] > 0 else None,
                sample={"phase": "threads", "config": config, "history": record["history"][:40]}
                if record["schedule"] == 0 and j == 0 else None,
            )
            witness = {"phase": "threads", "config": config, "model": model.name,
                       "history": record["history"], "outcomes": record["outcomes"],
                       "final": record["final"], "strays": record["strays"],
                       "replay_command": "python -m vf.c24_threads <model> <dir> <n> <seed> <threads>",
                       "seed": chk.seed * 1000 + j, "schedule": record["schedule"]}
            for outcome in record["outcomes"] + [dict(record["final"], thread="later-run")]:
                if outcome is None:
                    chk.violation("threads/run-did-not-return", witness)
                    continue
                who = "later-run" if outcome.get("thread") == "later-run" else "concurrent-run"
                if outcome.get("error"):
                    chk.violation(f"threads/exception-escapes/{who}/{outcome['error']}", witness)
                elif outcome.get("result_sha") != reference.get("result_sha"):
                    chk.violation(f"threads/result-differs-from-uncached/{who}", witness)
                else:
                    chk.count("thread_results_equal_to_uncached")
    shutil.rmtree(base, ignore_errors=True)


def replay(chk: harness.Check) -> int:
    """Re-execute the histories of a replay file: same workers, same decisions."""
    import json

    from aas_core_codegen import intermediate, run as cg_run

    witness = json.loads(pathlib.Path(chk.replay).read_text())["witness"]
    if "runs" not in witness or not all("choices" in r for r in witness["runs"]):
        chk.mark_inconclusive("the replay file carries no schedule (stress witnesses are not replayable)")
        return chk.finish()
    models_dir = env.new_dir("models")
    refs: Dict[str, Dict[str, str]] = {}
    for name, text in corpus.small_common():
        path = models_dir / name
        path.write_text(text, encoding="utf-8")
        result, _ = cg_run.load_model(path, cache_model=False)
        refs[str(path)] = {
            "dump_sha": fsmon.sha256(intermediate.dump(result[0])),
            "text_sha": fsmon.sha256(result[1].text),
        }
    driver._wipe_cache()
    first = models_dir / witness["runs"][0]["specs"][0][0]
    pool = _pool(first)
    base = env.new_dir("replay")
    sc = Scenario(witness.get("phase", "replay"), witness.get("config", "replay"))
    for recorded in witness["runs"]:
        specs = [fsched.WorkerSpec(models_dir / name, chunks) for name, chunks in recorded["specs"]]
        choices = [(int(c), str(a)) for c, a in recorded["choices"]]
        if sc.runs and any(a != "g" for r in sc.runs for _, _, a in r.decisions):
            sc.strays[len(sc.runs)] = incomplete_files(sc.runs[-1], sc)
        run = run_history(pool, specs, fsched.prefix_chooser(choices), tmpdir=base,
                          victims=sorted({c for c, a in choices if a == "k"}))
        sc.runs.append(run)
        sc.labels.append(recorded.get("label", "run"))
        chk.case(distinct_key=("replay", len(sc.runs)), sample={"history": _history_view(run)})
    judge(chk, sc, refs)
    pool.close()
    if not chk.violations and not chk.known_hits:
        chk.mark_inconclusive("the recorded violation did not show again")
    return chk.finish()


def main(argv) -> int:
    chk = harness.Check("C24", "fault_enumeration", RULE, argv)
    if chk.replay:
        return replay(chk)
    from aas_core_codegen import intermediate, run as cg_run

    rng = chk.rng("plan")
    budget = chk.wall_budget(75, 600)
    t_end = chk.t0 + budget

    # models and uncached references
    models_dir = env.new_dir("models")
    small = corpus.small_common()
    order = list(range(len(small)))
    rng.shuffle(order)
    model_paths: List[pathlib.Path] = []
    refs: Dict[str, Dict[str, str]] = {}
    for i in order:
        name, text = small[i]
        path = models_dir / name
        path.write_text(text, encoding="utf-8")
        result, error = cg_run.load_model(path, cache_model=False)
        if result is None:
            chk.harness_error(f"corpus model {name} does not load: {error}")
            continue
        again, _ = cg_run.load_model(path, cache_model=False)
        d1, d2 = intermediate.dump(result[0]), intermediate.dump(again[0])
        if d1 != d2:
            chk.harness_error(f"two uncached loads of {name} disagree")
            continue
        refs[str(path)] = {"dump_sha": fsmon.sha256(d1), "text_sha": fsmon.sha256(result[1].text)}
        model_paths.append(path)
    driver._wipe_cache()
    if len(model_paths) < 2:
        return chk.finish()

    quick = chk.tier == "quick"
    jobs: List[Dict[str, Any]] = []

    def add(job: Dict[str, Any], share: float) -> None:
        job["refs"] = refs
        job["deadline"] = chk.t0 + budget * share
        job["min_slice"] = (
            {"explore": 40.0, "sample": 20.0, "crash": 20.0}[job["type"]] if quick else 30.0
        )
        jobs.append(job)

    # (a) crash points (queued after the cheap bounded enumerations, see below)
    crash_models = model_paths[: (1 if quick else len(model_paths))]
    crash_chunks = [2, 3] if quick else [2, 3, 5]
    crash_jobs: List[Dict[str, Any]] = []
    for action in ("k", "x", "i"):
        for model in crash_models:
            for chunks in crash_chunks:
                for warm in (False, True):
                    crash_jobs.append(
                        {"type": "crash", "config": "crash", "model": str(model),
                         "chunks": chunks, "warm": warm, "action": action})
    expected_crash_jobs = len(crash_jobs)

    # (b) schedules
    a, b = str(model_paths[0]), str(model_paths[1])
    if quick:
        add({"type": "explore", "kind": "bounded", "config": "2-writers-same-model/chunks=3/preemptions<=2",
             "specs": [(a, 3), (a, 3)], "max_preemptions": 2}, 0.7)
        add({"type": "explore", "kind": "bounded", "config": "2-writers-same-model/chunks=2/preemptions<=3",
             "specs": [(a, 2), (a, 2)], "max_preemptions": 3}, 0.7)
        add({"type": "explore", "kind": "bounded", "config": "2-writers-two-models/chunks=2/preemptions<=2",
             "specs": [(a, 2), (b, 2)], "max_preemptions": 2}, 0.7)
        add({"type": "explore", "kind": "bounded", "config": "3-workers-same-model/chunks=2/preemptions<=1",
             "specs": [(a, 2), (a, 2), (a, 2)], "max_preemptions": 1}, 0.7)
        n_sample_jobs, n_per = 6, 100
    else:
        # the complete schedule tree of two writers of one model, split over the
        # 2**depth prefixes of the first decisions (both writers have >= depth steps)
        depth = 7
        for bits in range(2 ** depth):
            prefix = [((bits >> i) & 1, "g") for i in range(depth)]
            add({"type": "explore", "kind": "exhaustive",
                 "config": "2-writers-same-model/chunks=2/exhaustive",
                 "specs": [(a, 2), (a, 2)], "prefix": prefix}, 0.85)
        add({"type": "explore", "kind": "bounded", "config": "2-writers-two-models/chunks=2/preemptions<=3",
             "specs": [(a, 2), (b, 2)], "max_preemptions": 3}, 0.85)
        add({"type": "explore", "kind": "bounded", "config": "2-writers-same-model/chunks=4/preemptions<=3",
             "specs": [(a, 4), (a, 4)], "max_preemptions": 3}, 0.85)
        add({"type": "explore", "kind": "bounded", "config": "3-workers-same-model/chunks=2/preemptions<=2",
             "specs": [(a, 2), (a, 2), (a, 2)], "max_preemptions": 2}, 0.85)
        n_sample_jobs, n_per = 16, 200
    if not quick:
        # the exhaustive claim needs all crash points: queue them before the samples
        for job in crash_jobs:
            add(job, 0.85)
    for index in range(n_sample_jobs):
        m1 = str(rng.choice(model_paths))
        m2 = m1 if rng.random() < 0.7 else str(rng.choice(model_paths))
        add({"type": "sample", "config": f"3-workers/{'same' if m1 == m2 else 'two'}-models/sampled",
             "specs": [(m1, rng.choice([2, 3, 4])), (m1, 2), (m2, rng.choice([2, 3]))],
             "index": index, "n": n_per, "p_kill": 0.1, "p_inject": 0.15}, 0.7 if quick else 0.8)
    if quick:
        for job in crash_jobs:
            add(job, 0.75)

    stress_models = [small[i] for i in order[:2]]
    stress_refs: Dict[Tuple[str, str], Dict[str, Any]] = {}

    explorations: Dict[str, Dict[str, Any]] = {}
    crash_jobs_complete = 0
    forks = 0
    workers = 6 if quick else 8
    with concurrent.futures.ProcessPoolExecutor(max_workers=workers) as pool:
        futures = {pool.submit(shard, job, list(argv)): job for job in jobs}

        for future in concurrent.futures.as_completed(futures):
            job = futures[future]
            try:
                result = future.result()
            except BaseException as err:  # noqa
                chk.harness_error(f"shard died on {job['type']}/{job['config']}: {err!r}")
                continue
            chk.merge(result)
            forks = max(forks, result.get("forks", 0))
            chk.hist("job_wall_s", f"{job['type']}:{job.get('action', job.get('kind', ''))}:"
                     f"{int(result.get('wall', 0) // 5) * 5}+")
            if job["type"] == "crash":
                if result.get("crash_complete"):
                    crash_jobs_complete += 1
                for key, value in result.get("extra", {}).get("traced_step_sequences", {}).items():
                    chk.extra.setdefault("traced_step_sequences", {})[key] = value
            if "exploration" in result:
                agg = explorations.setdefault(
                    job["config"],
                    {"schedules": 0, "tree_nodes": 0, "transitions": 0, "shards": 0,
                     "shards_complete": 0, "divergences": 0},
                )
                ex = result["exploration"]
                agg["schedules"] += ex["runs"]
                agg["tree_nodes"] += ex["nodes"]
                agg["transitions"] += ex["transitions"]
                agg["shards"] += 1
                agg["shards_complete"] += 1 if ex["complete"] else 0
                agg["divergences"] += ex["divergences"]

    # (c) stress: N real CLI processes race on one cache directory (after the shards,
    # so that at most ~8-12 processes are busy at any time)
    stress_targets = ["python", "xsd"] if quick else ["python", "jsonschema", "xsd", "typescript"]

    def reference(name: str, text: str, target: str) -> None:
        ref_world = env.new_dir("sref")
        (ref_world / "w").mkdir()
        res = driver.run_cli(text, target, cache_model=False, workdir=ref_world / "w",
                             tmpdir=ref_world / "tmp", timeout=300)
        stress_refs[(name, target)] = {
            "rc": res.rc,
            "stdout": res.stdout.replace(str(res.output_dir), "<OUT>"),
            "stderr": res.stderr.replace(str(res.workdir), "<WORK>"),
            "tree": driver.tree_digest(res.output_dir),
        }
        shutil.rmtree(ref_world, ignore_errors=True)

    ref_threads = [
        threading.Thread(target=reference, args=(name, text, target))
        for name, text in stress_models for target in stress_targets
    ]
    for t in ref_threads:
        t.start()
    for t in ref_threads:
        t.join()
    for key, ref in stress_refs.items():
        if ref["rc"] != 0:
            chk.harness_error(f"uncached reference CLI run failed for {key}")
    rounds = chk.pick(3, 12)
    stress_rng = chk.rng("stress")
    for index in range(rounds):
        if time.time() > chk.t0 + budget * 0.95 and index >= 1:
            break
        stress_round(chk, index, stress_models, chk.pick(8, 12), stress_rng, stress_refs,
                     stress_targets)


    # (d) runs as threads of one process (they share the process id and every piece of
    # module state): seeded schedules over the same file-system steps
    thread_phase(chk, model_paths, refs)

    for agg in explorations.values():
        agg["complete"] = agg["shards"] == agg["shards_complete"]
    chk.extra["explorations"] = explorations
    chk.extra["crash_enumeration"] = {
        "jobs": expected_crash_jobs,
        "jobs_complete": crash_jobs_complete,
        "what": "every step of the traced cold and warm run x {kill, OSError, KeyboardInterrupt}",
    }
    chk.count("worker_processes_forked_max_per_shard", forks)
    all_complete = (
        bool(explorations)
        and all(agg["complete"] for agg in explorations.values())
        and crash_jobs_complete == expected_crash_jobs
    )
    if not quick:
        # ``exhaustive`` is claimed only when every enumeration ran to its end: all
        # crash points of the traced sequences and the complete schedule trees of
        # the 2-writer configuration (the bounded / sampled legs are extras).
        exhaustive_configs = [c for c in explorations if c.endswith("/exhaustive")]
        chk.exhaustive = bool(exhaustive_configs) and all(
            explorations[c]["complete"] for c in exhaustive_configs
        ) and crash_jobs_complete == expected_crash_jobs
        if chk.exhaustive:
            chk.extra["states"] = sum(explorations[c]["tree_nodes"] for c in exhaustive_configs)
            chk.extra["transitions"] = sum(explorations[c]["transitions"] for c in exhaustive_configs)
    else:
        chk.extra["bounded_enumerations_complete"] = all_complete

    chk.require_min("crash_points_enumerated", chk.pick(15, 150))
    chk.require_min("schedules_executed", chk.pick(80, 3000))
    chk.require_min("loads_checked", chk.pick(60, 2000))
    chk.require_min("workers_completed", chk.pick(150, 6000))
    chk.require_min("stress_processes", 8)
    chk.require_min("thread_schedules_executed", chk.pick(100, 1500))
    chk.assume(
        "a crash is os._exit of the whole process (buffers are lost, nothing is rolled "
        "back); power loss / fsync durability and non-POSIX rename semantics are outside"
    )
    chk.assume(
        "a step is what the monitors can see: audit events, os.stat, the chunk writes of "
        "the wrapped pickle.dump, the read of the wrapped pickle.load and the close of "
        "a written file; the last dump chunk (<= 1000 bytes) stays buffered until close"
    )
    return chk.finish()
