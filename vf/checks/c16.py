"""C16 -- the regex front end is total and faithful."""
import ast
import concurrent.futures
import hashlib
import json
import multiprocessing
import os
import re
import time
from typing import Any, Dict, List, Optional, Sequence, Tuple

from vf import env, harness
from vf import regexgen as rg

RULE = (
    "patterns from a seeded grammar walk over the retree subset (literals, all known "
    "escapes, sets, groups, unions, every quantifier spelling, anchors, f-string "
    "splices), near-miss spellings, text mutants of corpus patterns and hostile token "
    "soups, each given to the real retree.parse; accepted ones go through retree.render, "
    "Python's re (original vs rendering on strings sampled from both languages, their "
    "one-edit neighbours and all range boundaries; fullmatch, match, search) and "
    "parse(render) with retree.dump; a case is non-trivial when the pattern text has "
    ">= 3 characters; distinct = distinct pattern texts"
)

#: Minimal pinned inputs, replayed first on every run (one per mechanism seen so far,
#: plus regression inputs that must stay quiet).
PINNED = [
    "^*", "$+", "{", "a|{", "a{2}{3}", "a{3,1}", "[a-b-c]", "[--a]", "a{\u00b2}",
    "a{\u0663}", "[]", "[^]", "[]a]", "[^]a]", "[]a][b]", "[\\^-a]", "[--]", "[^\\U00010001]",
    "[^\\U00010000]", "[a-", "a{ 1 , 2 }", "a{\t3\t}?", "a{,}", "a{,3}", "", "()", "(",
    ")", "|", "a|", "|a", "(|)", "a\nb", "[\\^a]", "[a^]", "[^^]", "[\\x41-\\x5a]",
    "[a\\-z]", "[-a]", "[a-]", "[-]", "\\U0001F600+", "[\\U0001F600-\\U0001F64F]",
    "a{1", "[a", "a{1,2,3}", "a{01}", "}", "]", "a{0}", "a{0,0}", "\\xff", "[\\xFF-\\u0100]",
    "\\ud800", "[\\ud800-\\udfff]", "a**", "a*?+", "(?:a)", "\\d", "[\\d]", "\\", "[\\",
    "\\x4", "\\u004", "\\U0000004", "\\U00110000", "\\U00000041", ".*", "^$", "a{2,}?",
    "[\\--a]", "[+--]", "[a-a]", "[z-a]", "[ab-c-]", "[\\]]", "[[]", "x{1}{", "^?", "${2}",
]

#: Pinned inputs with f-string splices (``None`` marks the splice).
PINNED_PIECES = [
    ["^", None, "$"], [None, "*?"], [None, None], ["a", None, "{2}b"], ["(", None, "|b)+"],
    ["[", None, "]"], ["[a-", None, "]"], ["[^", None], ["a{", None, "}"], ["\\", None],
    ["\\x4", None], ["(?", None, ")"], ["a|", None], [None], ["x", None, "[", "]"],
]


def _formatted_value(name: str, cache: Dict[str, Any]) -> Any:
    """A real ``parse.tree.FormattedValue`` made the way the front end makes them."""
    if name not in cache:
        from aas_core_codegen.parse import _rules

        node = ast.parse('f"{%s}"' % name).body[0].value  # type: ignore
        ours, err = _rules.ast_node_to_our_node(node=node)
        assert err is None and ours is not None
        cache[name] = [v for v in ours.values if not isinstance(v, str)][0]  # type: ignore
    return cache[name]


def to_values(pieces: Sequence[Any], cache: Dict[str, Any]) -> List[Any]:
    return [
        p if isinstance(p, str) else _formatted_value(getattr(p, "name", "x"), cache)
        for p in pieces
    ]


def corpus_pieces() -> List[List[Any]]:
    """Patterns shipped with the repository: retree test inputs and golden schemas."""
    out: List[List[Any]] = []
    data = env.REPO / "dev" / "test_data"
    for path in sorted(data.glob("parse_retree/**/source.py")):
        try:
            node = ast.parse(path.read_text(encoding="utf-8")).body[0].value  # type: ignore
        except (SyntaxError, IndexError, AttributeError, OSError, ValueError):
            continue
        if isinstance(node, ast.Constant) and isinstance(node.value, str):
            out.append([node.value])
        elif isinstance(node, ast.JoinedStr):
            pieces: List[Any] = []
            for k, v in enumerate(node.values):
                if isinstance(v, ast.Constant) and isinstance(v.value, str):
                    pieces.append(v.value)
                else:
                    pieces.append(rg.Splice("s%d" % k))
            out.append(pieces)
    seen = set()

    def walk(x: Any) -> None:
        if isinstance(x, dict):
            for k, v in x.items():
                if k == "pattern" and isinstance(v, str) and v not in seen:
                    seen.add(v)
                    out.append([v])
                else:
                    walk(v)
        elif isinstance(x, list):
            for v in x:
                walk(v)

    for path in sorted(data.glob("main/jsonschema/expected/*/expected_output/schema.json")):
        try:
            walk(json.loads(path.read_text(encoding="utf-8")))
        except (OSError, ValueError):
            continue
    return out


def _first_dump_difference(a: str, b: str) -> str:
    la, lb = a.splitlines(), b.splitlines()
    for x, y in zip(la, lb):
        if x != y:
            return rg.norm_text(re.sub(r"=.*", "", x.strip()), 3) + "~" + rg.norm_text(
                re.sub(r"'[^']*'", "", y.strip()), 3
            )
    return "length"


def has_empty_set(node: Any) -> bool:
    """Does the retree tree hold a character set without any range (duck-typed walk)?"""
    kind = type(node).__name__
    if kind == "CharSet":
        return len(node.ranges) == 0
    if kind in ("Regex", "Group"):
        return has_empty_set(node.union)
    if kind == "UnionExpr":
        return any(has_empty_set(c) for c in node.uniates)
    if kind == "Concatenation":
        return any(has_empty_set(t) for t in node.concatenants)
    if kind == "Term":
        return has_empty_set(node.value)
    return False


class Monitor:
    """Oracle of C16 around the real parse/render; feeds a harness.Check."""

    def __init__(self, chk: harness.Check, n_strings: int) -> None:
        from aas_core_codegen.parse import retree

        self.retree = retree
        self.chk = chk
        self.n_strings = n_strings
        self.fv_cache: Dict[str, Any] = {}
        self.repo_root = str(env.REPO)

    def crash(self, stage: str, exc: BaseException, witness: Dict[str, Any]) -> None:
        if isinstance(exc, RecursionError):
            key = f"crash/{stage}/RecursionError"
        else:
            key = f"crash/{stage}/{rg.crash_key(exc, self.repo_root)}"
        self.chk.hist("crash_sites", key)
        witness = dict(witness)
        witness["exception"] = harness.format_exc(exc, 6)
        self.chk.violation(key, witness)

    def run(self, pieces: Sequence[Any], origin: str, rng: Any) -> None:
        chk, retree = self.chk, self.retree
        # an f-string never yields two adjacent string pieces (precondition of Cursor)
        merged: List[Any] = []
        for p in pieces:
            if isinstance(p, str) and merged and isinstance(merged[-1], str):
                merged[-1] += p
            else:
                merged.append(p)
        pieces = merged
        values = to_values(pieces, self.fv_cache)
        text = rg.join_pieces(pieces)
        has_splice = any(not isinstance(p, str) for p in pieces)
        shown = [p if isinstance(p, str) else {"splice": getattr(p, "name", "x")} for p in pieces]
        witness: Dict[str, Any] = {"pattern_pieces": shown, "origin": origin}
        key = text if len(text) <= 80 else hashlib.sha1(text.encode("utf-8", "surrogatepass")).hexdigest()
        chk.case((key, has_splice) if len(text) >= 3 else None)
        chk.hist("origin", origin)
        chk.count("monitor_parse_calls")

        # -- totality ------------------------------------------------------
        try:
            result = retree.parse(values)
        except BaseException as exc:  # noqa: the property says "never raises"
            if isinstance(exc, (KeyboardInterrupt, SystemExit, MemoryError)):
                raise
            chk.count("parse_raised")
            self.crash("parse", exc, witness)
            return
        if (
            not isinstance(result, tuple)
            or len(result) != 2
            or (result[0] is None) == (result[1] is None)
        ):
            chk.violation("parse/result-not-tree-xor-error", witness)
            return
        tree, error = result
        py_orig, py_orig_reason = rg.py_compile(text)

        if error is not None:
            chk.count("rejected_with_error")
            chk.hist("python_verdict_on_rejected", "valid" if py_orig else "invalid")
            self.check_error(error, values, witness)
            return

        chk.count("accepted")
        if has_splice:
            chk.count("accepted_with_splices")
        if not isinstance(tree, retree.Regex):
            chk.violation("parse/result-not-a-regex", witness)
            return
        for flag in rg.pattern_flags(tree):
            chk.hist("constructs_in_accepted_trees", flag)

        # -- rendering -------------------------------------------------------
        chk.count("monitor_render_calls")
        try:
            rendered = retree.render(tree)
        except BaseException as exc:  # noqa
            if isinstance(exc, (KeyboardInterrupt, SystemExit, MemoryError)):
                raise
            self.crash("render", exc, witness)
            return
        if not isinstance(rendered, list) or not all(
            isinstance(v, str) or v in values for v in rendered
        ):
            chk.violation("render/result-not-list-of-str-and-splices", witness)
            return
        r_text = rg.join_pieces(rendered)
        witness["rendered"] = [v if isinstance(v, str) else "{splice}" for v in rendered]
        in_splices = [v for v in values if not isinstance(v, str)]
        out_splices = [v for v in rendered if not isinstance(v, str)]
        if len(in_splices) != len(out_splices) or any(
            a is not b for a, b in zip(in_splices, out_splices)
        ):
            chk.violation("render/splices-lost-or-reordered", witness)

        # -- re-parse ----------------------------------------------------------
        try:
            tree2, error2 = retree.parse(rendered)
        except BaseException as exc:  # noqa
            if isinstance(exc, (KeyboardInterrupt, SystemExit, MemoryError)):
                raise
            self.crash("reparse", exc, witness)
            tree2, error2 = None, None
        else:
            chk.count("roundtrip_checked")
            if error2 is not None:
                chk.violation(
                    "roundtrip/rendering-rejected|" + rg.norm_text(error2.message, 6),
                    dict(witness, reparse_error=error2.message),
                )
            else:
                d1, d2 = retree.dump(tree), retree.dump(tree2)
                if d1 != d2:
                    chk.violation(
                        "roundtrip/dump-differs|" + _first_dump_difference(d1, d2),
                        dict(witness, dump=d1[:1500], dump_of_reparsed=d2[:1500]),
                    )

        # -- validity and semantics (Python's re is the reference) ---------------
        py_rend, py_rend_reason = rg.py_compile(r_text)
        # A set without members has no spelling in Python (``[]`` opens a set holding
        # ``]``); everything that follows from it is named after that one cause.
        empty_set = has_empty_set(tree)
        if empty_set:
            chk.count("trees_with_empty_character_set")
            py_orig_reason = py_rend_reason = "empty-set-in-tree"
        if py_orig is None:
            chk.count("accepted_but_python_rejects")
            chk.violation(
                f"accepted-but-invalid/{py_orig_reason}",
                dict(witness, python_says=py_orig_reason),
            )
            return
        if py_rend is None:
            chk.violation(
                f"render-not-compilable/{py_rend_reason}",
                dict(witness, python_says=py_rend_reason),
            )
            return
        t_orig, t_rend = rg.sre_tree(text), rg.sre_tree(r_text)
        trees_differ = t_orig != t_rend
        n = self.n_strings * (2 if trees_differ else 1)
        found = None
        n_match = 0
        n_done = 0
        try:
            with rg.time_limit(4.0):
                strings = rg.sample_strings([text, r_text], rng, n)
                for s in strings:
                    a = (
                        py_orig.fullmatch(s) is not None,
                        py_orig.match(s) is not None,
                        py_orig.search(s) is not None,
                    )
                    b = (
                        py_rend.fullmatch(s) is not None,
                        py_rend.match(s) is not None,
                        py_rend.search(s) is not None,
                    )
                    n_done += 1
                    n_match += a[0]
                    if a != b and found is None:
                        found = (s, a, b)
        except rg.MatchTimeout:
            chk.count("match_time_limit_hit")
        if n_done == 0:
            return
        chk.count("semantic_compared")
        chk.count("strings_compared", n_done)
        chk.count("strings_in_language", n_match)
        if n_match and n_match < n_done:
            chk.count("patterns_with_members_and_non_members")
        if found is not None:
            diff = rg.sre_diff(t_orig, t_rend) or "python-trees-equal"
            diff = diff.replace("MAX_REPEAT", "REPEAT").replace("MIN_REPEAT", "REPEAT")
            hint = rg.braces_hint(text)
            if hint != "no-braces" and rg.sre_tree(rg.normalise_braces(text)) == t_rend:
                # the two readings differ *only* in ``{...}`` that Python takes as text
                diff = "braces-read-as-quantifier/" + hint
            elif diff.endswith("~REPEAT") and not diff.endswith("REPEAT~REPEAT"):
                # Python read ``{...}`` of the original as text, the rendering repeats
                diff = "braces-read-as-quantifier/" + rg.braces_hint(text)
            if empty_set:
                diff = "empty-set-in-tree"
            s, a, b = found
            chk.violation(
                f"disagree/render/{diff}",
                dict(
                    witness,
                    string=s,
                    original_fullmatch_match_search=a,
                    rendered_fullmatch_match_search=b,
                ),
            )
        elif trees_differ:
            chk.count("python_trees_differ_without_witness")
            diff = rg.sre_diff(t_orig, t_rend)
            chk.hist("python_trees_differ_without_witness", diff)
            chk.hist(
                "python_trees_differ_without_witness_examples",
                f"{diff}: {ascii(text)[:70]} -> {ascii(r_text)[:70]}",
            )

    def check_error(self, error: Any, values: List[Any], witness: Dict[str, Any]) -> None:
        chk, retree = self.chk, self.retree
        message = getattr(error, "message", None)
        cursor = getattr(error, "cursor", None)
        if not isinstance(message, str) or not message or cursor is None:
            chk.violation("error/no-message-or-cursor", witness)
            return
        chk.hist("error_messages", rg.norm_text(message, 6))
        witness = dict(witness, error=message)
        try:
            major, minor = cursor.major_cursor, cursor.minor_cursor
            same_input = cursor.values is values or list(cursor.values) == list(values)
        except BaseException as exc:  # noqa
            self.crash("error-cursor", exc, witness)
            return
        witness["position"] = [major, minor]
        if not same_input:
            chk.violation("error/cursor-over-another-input", witness)
            return
        if not isinstance(major, int) or not 0 <= major <= len(values):
            chk.violation("error/position-outside-input", witness)
            return
        if major < len(values) and isinstance(values[major], str):
            if not isinstance(minor, int) or not 0 <= minor <= len(values[major]):
                chk.violation("error/position-outside-input", witness)
                return
        elif minor is not None:
            chk.violation("error/position-outside-input", witness)
            return
        chk.count("error_positions_inside_input")
        if major == 0 and minor in (0, None) and len(rg.join_pieces(values)) > 1:
            chk.hist("errors_positioned_at_offset_zero", rg.norm_text(message, 4))
        # observation only (the pointer drawing is not part of the statement)
        if values:
            try:
                retree.render_pointer(cursor)
                chk.count("observed_pointer_rendered")
            except BaseException as exc:  # noqa
                if isinstance(exc, (KeyboardInterrupt, SystemExit, MemoryError)):
                    raise
                chk.hist("observed_pointer_render_raised", type(exc).__name__)


MODE_WEIGHTS = [
    ("subset", 30), ("splices", 10), ("astral", 13), ("nearmiss", 22), ("mutant", 12),
    ("hostile", 9), ("corpus", 4),
]


def _worker(job: Tuple[int, int, List[str], float, int, int, float]) -> Dict[str, Any]:
    shard, count, argv, deadline, n_strings, at_least, hard_deadline = job
    chk = harness.Check("C16", "exploration", RULE, argv)
    chk.max_samples = 2
    mon = Monitor(chk, n_strings)
    rng = chk.rng("shard", shard)
    corpus = corpus_pieces()
    seeds = [p[0] for p in corpus if len(p) == 1 and isinstance(p[0], str)]
    modes = [m for m, w in MODE_WEIGHTS for _ in range(w)]
    for i in range(count):
        # the wall budget ends the shard; on an overloaded machine it may run on (up to
        # twice the budget) until the share needed for a conclusive run is done
        if i % 10 == 0:
            now = time.time()
            if now > hard_deadline or (now > deadline and i >= at_least):
                chk.count("stopped_by_wall_budget")
                break
        mode = rng.choice(modes)
        if mode == "splices":
            if rng.random() < 0.75:
                pieces: List[Any] = rg.gen_pieces(rng, "subset")
            else:
                # a splice at an arbitrary cut of a pattern text (inside sets, braces,
                # escapes, ...)
                text = rg.gen_pattern(rng, rng.choice(["subset", "nearmiss"]), seeds=seeds)
                cut = rng.randint(0, len(text))
                pieces = [p for p in (text[:cut], rg.Splice("y"), text[cut:]) if p != ""]
        elif mode == "corpus":
            pieces = rng.choice(corpus) if corpus else ["a"]
        else:
            pieces = [rg.gen_pattern(rng, mode, seeds=seeds)]
        if i < 2:
            chk.sample({"mode": mode, "pattern": [p if isinstance(p, str) else repr(p) for p in pieces]})
        mon.run(pieces, mode, rng)
    return chk.export()


def main(argv: Sequence[str]) -> int:
    chk = harness.Check("C16", "exploration", RULE, argv)
    argv = list(argv)
    n_strings = chk.pick(40, 48)
    total = chk.pick(8000, 240000)
    budget = chk.wall_budget(50, 540)
    deadline = chk.t0 + budget

    mon = Monitor(chk, n_strings)
    rng = chk.rng("pinned")
    if chk.replay:
        data = json.loads(open(chk.replay, encoding="utf-8").read())
        shown = data.get("witness", {}).get("pattern_pieces", [])
        pieces: List[Any] = []
        for p in shown:
            if isinstance(p, dict):
                pieces.append(rg.Splice(str(p.get("splice", "x"))))
            elif isinstance(p, str) and p.startswith("repr:"):
                pieces.append(ast.literal_eval(p[5:]))
            else:
                pieces.append(p)
        mon.run(pieces or [""], "replay", rng)
        chk.case(("replay", 1))
        chk.case(("replay", 2))
        return chk.finish()

    for text in PINNED:
        mon.run([text], "pinned", rng)
    for shown in PINNED_PIECES:
        mon.run(
            [rg.Splice("p%d" % k) if p is None else p for k, p in enumerate(shown)],
            "pinned",
            rng,
        )
    corpus = corpus_pieces()
    chk.extra["corpus_patterns"] = len(corpus)
    for pieces in corpus:
        mon.run(pieces, "corpus", rng)

    workers = max(1, min(8, (os.cpu_count() or 2) // 2))
    shards = workers  # all shards run side by side until the wall budget ends them
    per = (total + shards - 1) // shards
    need = chk.pick(1000, 12000)
    at_least = (need + shards - 1) // shards
    hard_deadline = chk.t0 + 2 * budget
    jobs = [(k, per, argv, deadline, n_strings, at_least, hard_deadline) for k in range(shards)]
    ctx = multiprocessing.get_context("fork")
    try:
        with concurrent.futures.ProcessPoolExecutor(max_workers=workers, mp_context=ctx) as pool:
            for exported in pool.map(_worker, jobs):
                chk.merge(exported)
    except concurrent.futures.process.BrokenProcessPool as err:
        chk.harness_error(f"a worker process died: {err!r}")

    chk.require_min("monitor_parse_calls", need)
    chk.require_min("accepted", 300)
    chk.require_min("rejected_with_error", 150)
    chk.require_min("error_positions_inside_input", 150)
    chk.require_min("roundtrip_checked", 300)
    chk.require_min("semantic_compared", 250)
    chk.require_min("strings_compared", 8000)
    chk.require_min("patterns_with_members_and_non_members", 150)
    chk.require_min("accepted_with_splices", 15)
    chk.assume(
        "Python's re (3.12) is the reference for validity and for the language of a "
        "pattern; a splice {x} stands for the fragment " + rg.SPLICE_FRAGMENT + " on both sides"
    )
    chk.assume(
        "semantic agreement is judged only when Python accepts the original text; "
        "a rejected pattern is never judged for being inside Python's language"
    )
    chk.assume(
        "an error position is 'inside the input' when 0 <= major <= len(values) and the "
        "minor offset lies within the pointed string; drawing the pointer is only observed"
    )
    return chk.finish()
