"""C14 — the generated XSD enforces the constraints a class declares itself."""
import concurrent.futures
import copy
import os
import re
import traceback
import xml.etree.ElementTree as ET
from typing import Any, Dict, List, Optional, Tuple

from vf import corpus, driver, env, harness, instances, mmgen, pyexec, pysdk, xschema
from vf import regexgen as rg
from vf.checks import c13

RULE = (
    "accepted meta-models (same generator as C13) x documents the generated Python SDK "
    "writes for invariant-satisfying instances and that both XSD processors accept; from "
    "each, single-violation twins: (1) one value is replaced so that it breaks one length / "
    "pattern / list-size constraint that the property's OWN class, or a constrained "
    "primitive it uses, states in a recognised form (expectation recomputed from the "
    "meta-model with Python's ast and confirmed by evaluating the meta-model's lambda on "
    "the twin -- never read from the XSD; tightenings by descendants are not expected), the "
    "twin is written by the SDK; (2) the document gets one unknown element, two adjacent "
    "property elements swapped, a required property element removed, or a property element "
    "duplicated; (3) one-pattern models: SDK-written documents with strings Python re "
    "rejects.  Every twin must be invalid under xmlschema.XMLSchema (XSD 1.0) and "
    "XMLSchema11.  distinct_nontrivial = distinct (twin kind, origin, value kind, invariant "
    "form) / (structural kind, inheritance shape) / pattern skeletons exercised"
)

WORKERS = int(os.environ.get("VF_WORKERS", "12"))

POOL = ["", "a", "!", "é", " ", "0", "A", "zz", "a b", "-", "_", "#", "Ab1", "\U0001F600"]


# --------------------------------------------------------------------------- value twins
def _exact_length_strings(site: xschema.Site, n: int, rng: Any, sampler: instances.RegexSampler) -> List[str]:
    v = site.value
    out: List[str] = []
    if v:
        out.append((v * (n // len(v) + 1))[:n])
        out.append(v[:n] if len(v) >= n else v + v[-1] * (n - len(v)))
        out.append(v[-n:] if (n and len(v) >= n) else v[0] * (n - len(v)) + v)
        if len(v) > n:
            k = rng.randint(0, len(v) - n)
            out.append(v[k: k + n])
    for b in site.expect.patterns:
        for _ in range(25):
            s = sampler.sample(b.value[1])
            if s is not None and len(s) == n:
                out.append(s)
                break
    out.append("a" * n)
    out.append("0" * n)
    return [s for s in out if len(s) == n and xschema.judgeable_string(s)]


def value_twins(site: xschema.Site, rng: Any, sampler: instances.RegexSampler) -> List[Tuple[str, xschema.Bound, Any, bool]]:
    """``(twin kind, violated bound, new value, single violation?)`` for one site."""
    ve = site.expect
    out: List[Tuple[str, xschema.Bound, Any, bool]] = []
    v = site.value
    for kind in ("min", "max"):
        b = ve.tightest(kind)
        if b is None:
            continue
        n = b.value - 1 if kind == "min" else b.value + 1
        if n < 0:
            continue
        if site.role == "list":
            if kind == "min":
                new: Any = copy.deepcopy(v[:n])
            else:
                if not v:
                    continue
                new = copy.deepcopy(v) + [copy.deepcopy(v[-1]) for _ in range(n - len(v))]
            out.append((f"list-{kind}", b, new, ve.admits(new, skip=b)))
            continue
        if site.kind == "bytearray":
            raw = bytes(v)
            new = raw[:n] if len(raw) >= n else raw + bytes(rng.randrange(256) for _ in range(n - len(raw)))
            out.append((f"length-{kind}", b, new, ve.admits(new, skip=b)))
            continue
        cands = _exact_length_strings(site, n, rng, sampler)
        single = [c for c in cands if ve.admits(c, skip=b)]
        if single:
            out.append((f"length-{kind}", b, single[0], True))
        elif cands:
            out.append((f"length-{kind}", b, cands[0], False))
    if site.kind == "str" and site.role != "list":
        for b in ve.patterns:
            pattern = b.value[1]
            cands = rg.one_edit_neighbours(v, rng, [ord(c) for c in (v or "a")][:20], 10) + POOL
            try:
                with rg.time_limit(2.0):
                    cands += [s for s in rg.sample_strings(pattern, rng, 16, allow_surrogates=False)]
                    bad = [
                        c for c in cands
                        if xschema.judgeable_string(c) and re.match(pattern, c) is None
                    ]
                    single = [c for c in bad if ve.admits(c, skip=b)]
            except rg.MatchTimeout:
                continue
            if single:
                out.append(("pattern", b, rng.choice(single[:6]), True))
            elif bad:
                out.append(("pattern", b, bad[0], False))
    return out


def python_confirms(pm: pyexec.PyModel, twin: instances.Inst, site: xschema.Site, b: xschema.Bound, new: Any) -> bool:
    """The meta-model's own lambda evaluates to something other than True on the twin."""
    if b.inv.func is None:
        return False
    if b.origin == "constrained-primitive":
        subject = new
    else:
        owner_path = site.path[:-2] if site.role == "item" else site.path[:-1]
        owner = xschema.get_at(twin, owner_path) if owner_path else twin
        subject = instances.to_shadow(pm, owner)
    try:
        return b.inv.func(subject) is not True
    except Exception:  # noqa
        return True


# --------------------------------------------------------------------------- structural twins
def structural_twins(pm: pyexec.PyModel, names: xschema.Names, root: ET.Element, inst: instances.Inst,
                     rng: Any) -> List[Tuple[str, str, ET.Element, str]]:
    """``(kind, inheritance shape, twin root, what was done)``; one per kind if possible."""
    out: List[Tuple[str, str, ET.Element, str]] = []
    taken = {names.prop(p.name) for c in pm.classes.values() for p in c.own_props}
    taken |= {names.cls(n) for n in pm.classes if pm.is_class(n)}
    unknown_tag = names.local("unexpectedElement")
    while unknown_tag in taken:
        unknown_tag += "X"
    for kind in ("unknown", "misplaced", "missing-required", "duplicated"):
        clone = copy.deepcopy(root)
        try:
            nodes = xschema.map_document(pm, names, clone, inst)
        except xschema.MappingFailed:
            return out
        rng.shuffle(nodes)
        for node in nodes:
            shape = c13.inheritance_shape(pm, node.inst.cls)
            elems = [e for _, _, e in node.props]
            if kind == "unknown":
                k = rng.randint(0, len(list(node.elem)))
                extra = ET.Element(unknown_tag)
                extra.text = rng.choice(["x", "", "1"])
                node.elem.insert(k, extra)
                out.append((kind, shape, clone, f"inserted at {k} in {node.inst.cls}"))
                break
            if kind == "misplaced" and len(elems) >= 2:
                k = rng.randrange(len(elems) - 1)
                children = list(node.elem)
                i, j = children.index(elems[k]), children.index(elems[k + 1])
                a, b = children[i], children[j]
                node.elem.remove(a)
                node.elem.remove(b)
                node.elem.insert(i, b)
                node.elem.insert(j, a)
                out.append((kind, shape, clone, f"swapped {node.props[k][0]} and {node.props[k + 1][0]} in {node.inst.cls}"))
                break
            if kind == "missing-required":
                required = [(n, e) for n, t, e in node.props if not t.optional]
                if required:
                    n, e = rng.choice(required)
                    node.elem.remove(e)
                    out.append((kind, shape, clone, f"removed {n} from {node.inst.cls}"))
                    break
            if kind == "duplicated" and elems:
                k = rng.randrange(len(elems))
                children = list(node.elem)
                node.elem.insert(children.index(elems[k]) + 1, copy.deepcopy(elems[k]))
                out.append((kind, shape, clone, f"duplicated {node.props[k][0]} in {node.inst.cls}"))
                break
    return out


# --------------------------------------------------------------------------- per model
def check_model(chk: harness.Check, name: str, text: str, rng: Any, n_instances: int,
                max_sites: int, pace: Optional[xschema.Pace] = None) -> None:
    base = {"model": name, "text": text}
    try:
        pm = pyexec.PyModel(text)
    except Exception:  # noqa
        chk.count("reference_executor_failed")
        return
    loaded, error, exc = driver.load_inprocess(text)
    if exc is not None or error is not None:
        chk.count("models_rejected_or_crashed_in_front_end")
        return
    run = xschema.run_xsd(text, seconds=chk.pick(15.0, 40.0))
    sdk: Optional[pysdk.Sdk] = None
    try:
        chk.hist("xsd_outcome/models", run.outcome)
        if run.outcome != "ok":
            chk.count("models_without_schema_skipped")  # C13 / C02 judge these
            return
        validators = xschema.Validators(run.xsd or "")
        if not validators.ok or xschema.strict_escape_scan(validators.xsd_text):
            chk.count("models_with_invalid_schema_skipped")  # C13 judges these
            return
        try:
            sdk = pysdk.Sdk(text, pm)
        except Exception:  # noqa
            chk.count("models_without_python_sdk_skipped")
            return
        chk.count("models_with_schema_and_sdk")
        exp = xschema.Expectations(pm)
        names = xschema.Names(pm.xml_namespace or driver.DEFAULT_NAMESPACE)
        gen = xschema.DirectedGenerator(pm, rng, exp)
        sampler = instances.RegexSampler(rng, max_repeat=8)
        classes = gen.instantiable()
        if not classes:
            chk.count("models_without_instantiable_class")
            return
        for i in range(n_instances):
            if pace is not None and pace.over():
                chk.count("instances_skipped_for_budget", n_instances - i)
                break
            cls = classes[i % len(classes)]
            try:
                inst = gen.gen_instance(cls)
            except instances.Unsatisfied:
                chk.count("instances_unsatisfied")
                continue
            if not instances.all_invariants_hold(pm, inst):
                chk.count("instances_failing_independent_recheck")
                continue
            strings = xschema.strings_in(inst, pm)
            if not all(xschema.judgeable_string(s) for s in strings):
                chk.count("instances_skipped_not_plain_xml_text")
                continue
            try:
                doc = sdk.xmlization.to_str(sdk.build(inst))
                root = ET.fromstring(doc)
            except RecursionError:
                raise
            except Exception:  # noqa
                chk.count("sdk_failed_to_write_or_not_well_formed")
                continue
            if not all(validators.valid_in(root).values()):
                chk.count("base_documents_not_valid_skipped")  # C13 judges these
                continue
            chk.count("valid_base_documents")
            witness = dict(base, cls=cls, instance=instances.to_jsonable_sample(inst), valid_document=doc[:3000])

            # ---- (1) one value breaks one constraint of its own class / constrained primitive
            all_sites = list(xschema.sites(pm, exp, inst))
            rng.shuffle(all_sites)
            for site in all_sites[:max_sites]:
                for kind, bound, new, single in value_twins(site, rng, sampler):
                    twin = xschema.set_at(inst, site.path, new)
                    if not python_confirms(pm, twin, site, bound, new):
                        chk.count("twins_not_confirmed_by_python")
                        chk.harness_error(
                            f"recogniser and Python disagree on {bound.form} in {name}: "
                            f"{bound.inv.body_src!r} holds on the twin value {new!r}"
                        )
                        continue
                    try:
                        twin_doc = sdk.xmlization.to_str(sdk.build(twin))
                        twin_root = ET.fromstring(twin_doc)
                    except RecursionError:
                        raise
                    except Exception:  # noqa
                        chk.count("sdk_failed_to_write_twin")
                        continue
                    verdicts = validators.valid_in(twin_root)
                    chk.count("constraint_twins_validated")
                    chk.count("constraint_twins_single_violation" if single else "constraint_twins_multi_violation")
                    value_kind = f"{site.role}:{site.kind}"
                    chk.hist("constraint_twins", f"{kind}/{bound.origin}/{value_kind}")
                    mech = (kind, bound.origin, value_kind, bound.form)
                    chk.case(distinct_key=mech,
                             sample={"model": name, "twin": kind, "invariant": bound.inv.body_src,
                                     "new_value": new, "document": twin_doc[:300]}
                             if len(chk.samples) < 4 else None)
                    if any(verdicts.values()) and kind == "pattern" and any(
                        xschema.has_escaped_range_start(v) for v in xschema.pattern_values(validators.xsd_text)
                    ):
                        chk.count("twins_not_judged_for_a_limitation_of_the_validator")
                        continue
                    if any(verdicts.values()):
                        chk.violation(
                            f"not-rejected/{kind}/{bound.origin}/{value_kind}/{bound.form}",
                            dict(witness, twin_document=twin_doc[:3000], accepted_by=verdicts,
                                 invariant=bound.inv.body_src, declared_in=bound.origin,
                                 path=list(site.path), old_value=site.value, new_value=new,
                                 single_violation=single, schema=validators.xsd_text[:8000]),
                        )

            # ---- (2) structure
            for kind, shape, twin_root, what in structural_twins(pm, names, root, inst, rng):
                verdicts = validators.valid_in(twin_root)
                chk.count("structural_twins_validated")
                chk.hist("structural_twins", f"{kind}/{shape}")
                chk.case(distinct_key=(kind, shape),
                         sample={"model": name, "twin": kind, "what": what,
                                 "document": ET.tostring(twin_root, encoding="unicode")[:300]}
                         if 4 <= len(chk.samples) < 7 else None)
                if any(verdicts.values()):
                    chk.violation(
                        f"not-rejected/structure/diamond-inheritance/{kind}" if shape == "diamond"
                        else f"not-rejected/structure/{kind}/{shape}",
                        dict(witness, what=what, accepted_by=verdicts,
                             twin_document=ET.tostring(twin_root, encoding="unicode")[:3000],
                             schema=validators.xsd_text[:8000]),
                    )
    finally:
        if sdk is not None:
            sdk.close()
        run.cleanup()


# --------------------------------------------------------------------------- one-pattern models
class SdkWriter:
    """Writes the documents of the one-pattern models with a generated SDK."""

    def __init__(self) -> None:
        text = xschema.pattern_model("^a$")
        self.pm = pyexec.PyModel(text)
        self.sdk = pysdk.Sdk(text, self.pm)

    def document(self, string: str) -> ET.Element:
        inst = instances.Inst("Something", {"some_text": string})
        return ET.fromstring(self.sdk.xmlization.to_str(self.sdk.build(inst)))

    def close(self) -> None:
        self.sdk.close()


def has_inner_anchor(pattern: str) -> bool:
    body = pattern[1:-1] if pattern.startswith("^") and pattern.endswith("$") else pattern
    toks = rg.tokens_of(body)
    depth = 0
    for tok in toks:
        if tok == "[":
            depth += 1
        elif tok == "]" and depth:
            depth -= 1
        elif depth == 0 and tok in ("^", "$"):
            return True
    return False


def check_pattern(chk: harness.Check, lab: xschema.PatternLab, writer: SdkWriter, source: str,
                  pattern: str, rng: Any, n_strings: int, shrinks_left: List[int]) -> None:
    if has_inner_anchor(pattern):
        chk.count("patterns_with_inner_anchor_not_in_workload")
        return
    case = lab.open(pattern, seconds=20.0)
    chk.hist("pattern_case_state", f"{source}:{case.state}")
    try:
        if case.run is None or case.state != "ok" or case.validators is None:
            return
        if (
            not case.validators.ok
            or case.emitted is None
            or xschema.strict_escape_scan(case.validators.xsd_text)
        ):
            chk.count("pattern_models_with_invalid_schema_skipped")  # C13 judges these
            return
        if xschema.has_escaped_range_start(case.emitted):
            chk.count("patterns_not_judged_for_a_limitation_of_the_validator")
            return
        base = {"pattern": pattern, "source": source, "text": case.text,
                "emitted_xs_pattern": case.emitted}
        try:
            with rg.time_limit(3.0):
                strings = rg.sample_strings(pattern, rng, n_strings, allow_surrogates=False)
        except rg.MatchTimeout:
            chk.count("pattern_sampling_timed_out")
            return
        outside = 0
        failing: Optional[Tuple[str, Dict[str, bool]]] = None
        try:
            with rg.time_limit(10.0):
                for s in strings + POOL:
                    if not xschema.judgeable_string(s):
                        continue
                    if case.py.match(s) is not None:
                        continue
                    outside += 1
                    verdicts = case.validators.valid_in(writer.document(s))
                    if any(verdicts.values()) and failing is None:
                        failing = (s, verdicts)
        except rg.MatchTimeout:
            chk.count("pattern_matching_timed_out")
        chk.count("pattern_non_member_documents_validated", outside)
        if outside:
            chk.case(distinct_key=("pattern", rg.skeleton(pattern)))
        if failing is not None:
            s, verdicts = failing
            lint = xschema.xmllint_verdict(
                case.validators.xsd_text, ET.tostring(writer.document(s), encoding="unicode")
            )
            if lint is False:
                chk.count("acceptances_not_confirmed_by_xmllint")
                chk.hist("validator_disagreements", "non-member: xmlschema accepts / xmllint rejects: " + rg.skeleton(pattern))
                return
            may_shrink = shrinks_left[0] > 0
            mechanism, minimal = xschema.explain_disagreement(pattern, "accepts-non-member", rng, may_shrink)
            if minimal is not None:
                shrinks_left[0] -= 1
            key = "pattern-accepts-non-member/" + mechanism
            chk.violation(
                key,
                dict(base, string=s, python_re_match=False, xsd_accepts=verdicts,
                     xmllint_accepts=lint, minimal_pattern=minimal,
                     minimal_translation=xschema.real_translate(minimal) if minimal else None),
            )
    finally:
        if case.run is not None:
            case.run.cleanup()


# --------------------------------------------------------------------------- driver
MINIMA = {
    "valid_base_documents": (120, 600),
    "constraint_twins_validated": (300, 1500),
    "structural_twins_validated": (300, 1500),
    "pattern_non_member_documents_validated": (400, 2000),
}


def worker(args) -> Dict[str, Any]:
    argv, shard, n_shards, n_models, n_instances, n_patterns, n_strings, t0 = args
    chk = harness.Check("C14", "exploration", RULE, argv)
    chk.t0 = t0  # budgets count from the start of the parent, warm-up included
    budget = chk.wall_budget(150, 780)
    mine = {name: xschema.share(chk.pick(*pair), n_shards) for name, pair in MINIMA.items()}
    # one pace for everything (see C13): patterns and models alternate
    pace = xschema.Pace(chk, budget, budget * 3.0, mine)
    try:
        lab = xschema.PatternLab()
        writer = SdkWriter()
        try:
            patterns = c13.pattern_workload(chk, n_patterns)
            shrinks_left = [chk.pick(5, 15)]
            my_patterns = patterns[shard::n_shards]
            extra = c13.targeted_models() + corpus.small_common()
            extra = [e for k, e in enumerate(extra) if k % n_shards == shard]
            mmg: List[Tuple[str, str]] = []
            for i in range(shard, n_models, n_shards):
                m = xschema.generate_schema_model(chk.rng("model", i), c13.mmg_profile(i))
                mmg.append((f"mmg/{chk.seed}/{i}", m.text))
                for k, v in m.features.items():
                    chk.hist("mmg_features", k, v)
            models: List[Tuple[str, str]] = []
            while mmg or extra:
                if extra:
                    models.append(extra.pop(0))
                if mmg:
                    models.append(mmg.pop(0))
                if mmg:
                    models.append(mmg.pop(0))
            per_model = max(1, round(len(my_patterns) / max(1, len(models))))
            pi = mi = 0
            while pi < len(my_patterns) or mi < len(models):
                if pace.over():
                    chk.count("patterns_skipped_for_budget", len(my_patterns) - pi)
                    chk.count("models_skipped_for_budget", len(models) - mi)
                    break
                if mi < len(models):
                    name, text = models[mi]
                    mi += 1
                    check_model(chk, name, text, chk.rng("inst", name), n_instances,
                                max_sites=chk.pick(8, 16), pace=pace)
                for _ in range(per_model if mi < len(models) else len(my_patterns)):
                    if pi >= len(my_patterns) or pace.over():
                        break
                    source, pattern = my_patterns[pi]
                    pi += 1
                    check_pattern(chk, lab, writer, source, pattern,
                                  chk.rng("strings", source, pattern), n_strings, shrinks_left)
        finally:
            writer.close()
    except Exception:  # noqa
        chk.harness_error("worker failed: " + traceback.format_exc()[-1500:])
    return chk.export()


def main(argv) -> int:
    chk = harness.Check("C14", "exploration", RULE, argv)
    n_models = chk.pick(72, 1200)
    n_instances = chk.pick(16, 40)
    n_patterns = chk.pick(200, 3000)
    n_strings = chk.pick(30, 60)
    n_shards = max(1, WORKERS)
    xschema.warm_up()
    with concurrent.futures.ProcessPoolExecutor(max_workers=n_shards) as pool:
        jobs = [
            pool.submit(worker, (list(argv), s, n_shards, n_models, n_instances, n_patterns, n_strings, chk.t0))
            for s in range(n_shards)
        ]
        for job in jobs:
            try:
                chk.merge(job.result())
            except Exception as err:
                chk.harness_error(f"worker failed: {err!r}")
    for name, pair in MINIMA.items():
        chk.require_min(name, chk.pick(*pair))
    chk.assume("a constraint is expected only if the property's own class (or a constrained primitive it uses) states it as len(self.p) <op> K / K <op> len(self.p) / matches_x(self.p), optionally guarded on the same property; Python confirms each twin violates that invariant")
    chk.assume("tightenings that descendants apply to inherited properties, set-membership and numeric invariants are not expected to be enforced")
    chk.assume("patterns with anchors other than the outer ^...$ are not part of the workload; strings are XML 1.0 characters without line breaks")
    return chk.finish()
