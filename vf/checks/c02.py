"""C02 — generators never crash on accepted meta-models."""
import concurrent.futures
import re
from typing import Any, Dict, List, Tuple

from vf import corpus, driver, harness, mmgen, textmut

RULE = (
    "meta-models the real front end accepts (all corpus fixtures, MMG general profile "
    "incl. shapes without concrete classes, empty classes, lists of lists and lists of "
    "primitives, length invariants admitting 0, crossing parent/child bounds, mid-pattern "
    "anchors; lightly text-mutated variants that are still accepted) x the 8 targets and "
    "the smoke entry point, each with a complete snippet directory; main.execute / "
    "smoke.execute run in-process under a BaseException net; distinct_nontrivial = distinct "
    "(target, outcome class) where outcome class is ok / reported-error headline / crash "
    "signature"
)

TARGETED = {
    "len-admits-zero": '''
@invariant(lambda self: len(self.items) >= 0, "Items may be empty.")
@invariant(lambda self: len(self.items) <= 5, "At most five items.")
class Something(DBC):
    items: List[str]

    def __init__(self, items: List[str]) -> None:
        self.items = items
''',
    "crossing-parent-child-bounds": '''
@invariant(lambda self: len(self.name) <= 5, "Name at most five.")
class Parent(DBC):
    name: str

    def __init__(self, name: str) -> None:
        self.name = name


@invariant(lambda self: len(self.name) >= 10, "Name at least ten.")
class Child(Parent):
    def __init__(self, name: str) -> None:
        Parent.__init__(self, name=name)
''',
    "caret-in-the-middle-of-pattern": '''
@verification
def matches_something(text: str) -> bool:
    """Check the text."""
    pattern = f"^a^b$"
    return match(pattern, text) is not None


@invariant(lambda self: matches_something(self.name), "Name must match.")
class Something(DBC):
    name: str

    def __init__(self, name: str) -> None:
        self.name = name
''',
    "abstract-without-concrete-descendants": '''
@abstract
class Lonely(DBC):
    name: str

    def __init__(self, name: str) -> None:
        self.name = name


class Something(DBC):
    lonely: Optional[Lonely]

    def __init__(self, lonely: Optional[Lonely] = None) -> None:
        self.lonely = lonely
''',
    "no-concrete-class": '''
@abstract
class Lonely(DBC):
    name: str

    def __init__(self, name: str) -> None:
        self.name = name
''',
    "empty-concrete-class": '''
class Something(DBC):
    pass
''',
    "list-of-lists": '''
class Something(DBC):
    rows: List[List[int]]

    def __init__(self, rows: List[List[int]]) -> None:
        self.rows = rows
''',
    "list-of-primitives-all-kinds": '''
class Something(DBC):
    a: List[bool]
    b: List[int]
    c: List[float]
    d: List[str]
    e: List[bytearray]
    f: Optional[List[str]]

    def __init__(self, a: List[bool], b: List[int], c: List[float], d: List[str], e: List[bytearray], f: Optional[List[str]] = None) -> None:
        self.a = a
        self.b = b
        self.c = c
        self.d = d
        self.e = e
        self.f = f
''',
    "cpp-name-collision": '''
class Something(DBC):
    id_short: str
    ID_short: str

    def __init__(self, id_short: str, ID_short: str) -> None:
        self.id_short = id_short
        self.ID_short = ID_short
''',
    "concrete-with-descendants-no-model-type": '''
class Parent(DBC):
    name: str

    def __init__(self, name: str) -> None:
        self.name = name


class Child(Parent):
    def __init__(self, name: str) -> None:
        Parent.__init__(self, name=name)
''',
    "only-enum": '''
class Colour(Enum):
    Red = "red"
''',
    "only-constants": '''
Some_text: str = constant_str(value="x")
Some_set: Set[str] = constant_set(values=["a", "b"])
''',
    "two-disjoint-patterns-on-one-property": '''
@verification
def matches_lower(text: str) -> bool:
    """Check the text."""
    pattern = f"^[a-z]+$"
    return match(pattern, text) is not None


@verification
def matches_digits(text: str) -> bool:
    """Check the text."""
    pattern = f"^[0-9]+$"
    return match(pattern, text) is not None


@invariant(lambda self: matches_lower(self.name), "Name must be lower.")
@invariant(lambda self: matches_digits(self.name), "Name must be digits.")
class Something(DBC):
    name: str

    def __init__(self, name: str) -> None:
        self.name = name
''',
    "two-compatible-patterns-on-one-property": '''
@verification
def matches_word(text: str) -> bool:
    """Check the text."""
    pattern = f"^[a-z0-9]+$"
    return match(pattern, text) is not None


@verification
def matches_short(text: str) -> bool:
    """Check the text."""
    pattern = f"^.{{1,5}}$"
    return match(pattern, text) is not None


@invariant(lambda self: matches_word(self.name), "Name must be a word.")
@invariant(lambda self: matches_short(self.name), "Name must be short.")
class Something(DBC):
    name: str

    def __init__(self, name: str) -> None:
        self.name = name
''',
    "two-patterns-on-a-constrained-primitive-chain": '''
@verification
def matches_lower(text: str) -> bool:
    """Check the text."""
    pattern = f"^[a-z]+$"
    return match(pattern, text) is not None


@verification
def matches_upper(text: str) -> bool:
    """Check the text."""
    pattern = f"^[A-Z]+$"
    return match(pattern, text) is not None


@invariant(lambda self: matches_lower(self), "Must be lower.")
class Lower(str, DBC):
    pass


@invariant(lambda self: matches_upper(self), "Must be upper.")
class Lower_and_upper(Lower, DBC):
    pass


class Something(DBC):
    name: Lower_and_upper

    def __init__(self, name: Lower_and_upper) -> None:
        self.name = name
''',
    "identifiers-with-trailing-underscore": '''
class Kind_(Enum):
    In_ = "in"
    Out_ = "out"


@invariant(lambda self: len(self.name_) >= 1, "Name must not be empty.")
class Thing_(DBC):
    name_: str
    kind_: Kind_

    def __init__(self, name_: str, kind_: Kind_) -> None:
        self.name_ = name_
        self.kind_ = kind_
''',
    "identifiers-with-double-underscore": '''
class Some__kind(Enum):
    In__out = "in-out"
    Out__in = "out-in"


@invariant(lambda self: len(self.some__name) >= 1, "Name must not be empty.")
class Some__thing(DBC):
    some__name: str
    some__kind: Some__kind

    def __init__(self, some__name: str, some__kind: Some__kind) -> None:
        self.some__name = some__name
        self.some__kind = some__kind
''',
    "enum-literal-with-trailing-underscore": '''
class Direction(Enum):
    In_ = "in"
    Out = "out"


class Something(DBC):
    direction: Direction

    def __init__(self, direction: Direction) -> None:
        self.direction = direction
''',
    "property-with-double-underscore": '''
class Something(DBC):
    some__text: str
    other_text: Optional[str]

    def __init__(self, some__text: str, other_text: Optional[str] = None) -> None:
        self.some__text = some__text
        self.other_text = other_text
''',
    "empty-model": "",
}
FOOTER = '\n\n__version__ = "dummy"\n__xml_namespace__ = "https://dummy.com"\n'

TARGETS = driver.TARGETS + ["smoke"]


def outcome_of(result: driver.RunResult) -> Tuple[str, str]:
    if result.exc is not None:
        return "crash", harness.crash_signature(result.exc)
    if result.rc == 0:
        return "ok", "ok"
    head = ""
    for line in result.stderr.strip().splitlines():
        line = line.strip()
        if line.startswith("*") or line.startswith("At line"):
            head = line
    head = re.sub(r"At line \d+ and column \d+: ", "", head.lstrip("* "))
    head = re.sub(r"'[^']*'", "Q", head)
    head = re.sub(r"\d+", "N", head)
    return "reported", head[:70]


def check_model(chk: harness.Check, name: str, text: str, targets: List[str]) -> None:
    loaded, error, exc = driver.load_inprocess(text)
    if loaded is None:
        chk.count("models_not_accepted")
        return
    chk.count("models_accepted")
    for target in targets:
        result = driver.run_inprocess(text, target)
        try:
            kind, detail = outcome_of(result)
            chk.count("runs")
            chk.hist(f"outcomes_{target}", kind)
            chk.case(
                distinct_key=(target, kind, detail),
                sample={"model": name, "target": target, "outcome": kind, "detail": detail}
                if kind != "ok" and len(chk.samples) < 8 and (hash((name, target)) % 7 == 0) else None,
            )
            witness = {"model": name, "target": target, "text": text}
            if kind == "crash":
                chk.violation(
                    f"crash/{target}/{detail}",
                    dict(witness, traceback=harness.format_exc(result.exc)),
                )
                continue
            if not isinstance(result.rc, int) or isinstance(result.rc, bool):
                chk.violation(f"return-value-not-int/{target}", dict(witness, rc=repr(result.rc)))
                continue
            if result.rc == 0:
                if target != "smoke":
                    files = [p for p in result.output_dir.rglob("*") if p.is_file()] if result.output_dir.exists() else []
                    if not files:
                        chk.violation(f"exit-0-without-output/{target}", witness)
            else:
                if not result.stderr.strip():
                    chk.violation(f"non-zero-exit-with-empty-stderr/{target}", dict(witness, rc=result.rc))
        finally:
            result.cleanup()


def worker(args) -> Dict[str, Any]:
    argv, shard, n_shards, n_models = args[:-1]
    mins = args[-1]
    chk = harness.Check("C02", "exploration", RULE, argv)
    chk.set_worker_minimums(mins, n_shards)
    budget = chk.wall_budget(170, 900)
    models: List[Tuple[str, str]] = []
    fixtures = [m for m in corpus.models() if "unexpected" not in m[0]]
    for k, (name, text) in enumerate(fixtures):
        if k % n_shards == shard:
            if chk.tier == "quick" and k % 3 != chk.seed % 3:
                continue
            models.append((name, text))
    for k, (name, body) in enumerate(sorted(TARGETED.items())):
        if k % n_shards == shard:
            models.append((f"targeted/{name}", body + FOOTER))
    donors = [t for _, t in corpus.small_common()]
    for i in range(shard, n_models, n_shards):
        rng = chk.rng("model", i)
        profile = mmgen.Profile(
            ensure_concrete=(i % 5 != 0), list_of_lists=(i % 4 == 0), p_diamond=0.3,
            hostile_strings=(i % 3 == 0), nasty_docs=(i % 7 == 0),
        )
        m = mmgen.generate(rng, profile)
        models.append((f"mmg/{chk.seed}/{i}", m.text))
        if i % 3 == 0:
            mutated, names = textmut.mutate(m.text, rng, 1, donors)
            models.append((f"mmg/{chk.seed}/{i}+{'+'.join(names)}", mutated))
    for idx, (name, text) in enumerate(models):
        if chk.should_stop(budget):
            chk.count("models_skipped_for_budget", len(models) - idx)
            break
        check_model(chk, name, text, TARGETS)
    return chk.export()


def main(argv) -> int:
    chk = harness.Check("C02", "exploration", RULE, argv)
    n_models = chk.pick(72, 2000)
    n_shards = 12
    mins = {
        "models_accepted": chk.pick(60, 200),
        "runs": chk.pick(500, 1800),
    }
    with concurrent.futures.ProcessPoolExecutor(max_workers=n_shards) as pool:
        jobs = [pool.submit(worker, (list(argv), s, n_shards, n_models, mins)) for s in range(n_shards)]
        for job in jobs:
            try:
                chk.merge(job.result())
            except Exception as err:
                chk.harness_error(f"worker failed: {err!r}")
    for counter_name, minimum in mins.items():
        chk.require_min(counter_name, minimum)
    return chk.finish()
