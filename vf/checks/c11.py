"""C11 — the generated JSON Schema is valid and never rejects valid data."""
import concurrent.futures
import json
import os
import time
import traceback
from typing import Any, Dict, List, Optional, Tuple

from vf import corpus, harness, jschema

RULE = (
    "accepted meta-models (schema-oriented MMG: length / pattern / constant-set invariants "
    "on own, inherited and constrained-primitive-typed properties, guards on the same and "
    "on other properties, and-joined pattern calls, byte arrays with bounds, astral "
    "patterns, diamonds and chains, polymorphic properties and lists; plus the corpus "
    "fixtures) run through the real jsonschema target; (a) the schema text parses without "
    "duplicate keys, passes Draft201909Validator.check_schema and every $ref resolves "
    "inside the document; (b) every json.dumps(to_jsonable(x)) of an instance on which "
    "Python itself evaluates every invariant to True validates against "
    "#/definitions/<json_model_type(class)>, with `pattern` evaluated by Python re on the "
    "UTF-16 code units (sample cross-checked with node's non-u RegExp); "
    "distinct_nontrivial = distinct (model, class) whose validated documents carried >= 1 "
    "value under a recognised constraint or a nested object"
)

TARGETED = [
    (
        "targeted/astral-ranges-of-every-span",
        '''
@verification
def matches_three_blocks(text: str) -> bool:
    """Check the text."""
    pattern = f"^[\\U00010000-\\U00010BFF]+$"
    return match(pattern, text) is not None


@verification
def matches_unaligned_three_blocks(text: str) -> bool:
    """Check the text."""
    pattern = f"^[\\U00010005-\\U00010805]{{1,3}}$"
    return match(pattern, text) is not None


@verification
def matches_two_blocks(text: str) -> bool:
    """Check the text."""
    pattern = f"^x[\\U000103F0-\\U00010410]*$"
    return match(pattern, text) is not None


@verification
def matches_from_bmp(text: str) -> bool:
    """Check the text."""
    pattern = f"^[a-\\U00010400]+$"
    return match(pattern, text) is not None


@invariant(lambda self: matches_three_blocks(self.three), "Three blocks.")
@invariant(lambda self: matches_unaligned_three_blocks(self.unaligned), "Unaligned three blocks.")
@invariant(lambda self: matches_two_blocks(self.two), "Two blocks.")
@invariant(lambda self: matches_from_bmp(self.from_bmp), "From the basic plane.")
class Something(DBC):
    three: str
    unaligned: str
    two: str
    from_bmp: str

    def __init__(self, three: str, unaligned: str, two: str, from_bmp: str) -> None:
        self.three = three
        self.unaligned = unaligned
        self.two = two
        self.from_bmp = from_bmp


__version__ = "dummy"
__xml_namespace__ = "https://dummy.com"
''',
    ),
    (
        "targeted/constrained-primitive-chain-declared-child-first",
        '''
@verification
def matches_lower(text: str) -> bool:
    """Check the text."""
    pattern = f"^[a-z]*$"
    return match(pattern, text) is not None


@invariant(lambda self: len(self) <= 20, "At most 20 characters.")
class Child_text(Parent_text, DBC):
    pass


@invariant(lambda self: matches_lower(self), "Lower-case only.")
class Parent_text(Grand_text, DBC):
    pass


@invariant(lambda self: len(self) >= 5, "At least 5 characters.")
class Grand_text(str, DBC):
    pass


@invariant(lambda self: len(self) >= 2, "At least two items.")
class Other_text(Child_text, DBC):
    pass


class Something(DBC):
    text: Child_text
    more: Optional[Other_text]
    texts: List[Child_text]

    def __init__(self, text: Child_text, texts: List[Child_text], more: Optional[Other_text] = None) -> None:
        self.text = text
        self.texts = texts
        self.more = more


__version__ = "dummy"
__xml_namespace__ = "https://dummy.com"
''',
    ),
    (
        "targeted/constrained-primitive-with-several-parents",
        '''
@verification
def matches_lower(text: str) -> bool:
    \"\"\"Check the text.\"\"\"
    pattern = f"^[a-z]*$"
    return match(pattern, text) is not None


@verification
def matches_no_x(text: str) -> bool:
    \"\"\"Check the text.\"\"\"
    pattern = f"^[^x]*$"
    return match(pattern, text) is not None


@invariant(lambda self: len(self) <= 6, "At most six characters.")
class Short_text(str, DBC):
    pass


@invariant(lambda self: matches_lower(self), "Must be lower-case.")
class Lower_text(str, DBC):
    pass


@invariant(lambda self: len(self) >= 2, "At least two characters.")
class Longish_text(str, DBC):
    pass


class Short_lower_text(Short_text, Lower_text, DBC):
    pass


@invariant(lambda self: matches_no_x(self), "Must not have an x.")
class Picky_text(Short_text, Lower_text, Longish_text, DBC):
    pass


class Lower_short_text(Lower_text, Short_text, DBC):
    pass


@invariant(lambda self: len(self.some_texts) >= 1, "At least one text.")
class Something(DBC):
    some_text: Short_lower_text
    other_text: Lower_short_text
    picky_text: Picky_text
    some_texts: List[Picky_text]
    optional_text: Optional[Short_lower_text]

    def __init__(
        self,
        some_text: Short_lower_text,
        other_text: Lower_short_text,
        picky_text: Picky_text,
        some_texts: List[Picky_text],
        optional_text: Optional[Short_lower_text] = None,
    ) -> None:
        self.some_text = some_text
        self.other_text = other_text
        self.picky_text = picky_text
        self.some_texts = some_texts
        self.optional_text = optional_text


__version__ = "dummy"
__xml_namespace__ = "https://dummy.com"
''',
    ),
    (
        "targeted/descendant-adds-patterns-to-a-property-that-has-one",
        '''
@verification
def matches_lower(text: str) -> bool:
    \"\"\"Check the text.\"\"\"
    pattern = f"^[a-z]*$"
    return match(pattern, text) is not None


@verification
def matches_starts_with_id(text: str) -> bool:
    \"\"\"Check the text.\"\"\"
    pattern = f"^id.*$"
    return match(pattern, text) is not None


@verification
def matches_ends_with_z(text: str) -> bool:
    \"\"\"Check the text.\"\"\"
    pattern = f"^.*z$"
    return match(pattern, text) is not None


@invariant(lambda self: matches_lower(self), "Must be lower-case.")
class Lower_text(str, DBC):
    pass


@invariant(lambda self: matches_lower(self.code), "Code must be lower-case.")
@invariant(lambda self: len(self.code) <= 12, "Code must be short.")
@serialization(with_model_type=True)
class Parent(DBC):
    code: str
    label: Lower_text
    nick: Optional[Lower_text]

    def __init__(self, code: str, label: Lower_text, nick: Optional[Lower_text] = None) -> None:
        self.code = code
        self.label = label
        self.nick = nick


@invariant(lambda self: matches_starts_with_id(self.code), "Code must start with id.")
@invariant(lambda self: matches_starts_with_id(self.label), "Label must start with id.")
@invariant(
    lambda self: not (self.nick is not None) or matches_ends_with_z(self.nick),
    "Nick must end with z.",
)
class Child(Parent):
    def __init__(self, code: str, label: Lower_text, nick: Optional[Lower_text] = None) -> None:
        Parent.__init__(self, code=code, label=label, nick=nick)


@invariant(lambda self: matches_ends_with_z(self.code), "Code must end with z.")
@invariant(lambda self: len(self.code) >= 4, "Code must not be too short.")
class Grand_child(Child):
    def __init__(self, code: str, label: Lower_text, nick: Optional[Lower_text] = None) -> None:
        Child.__init__(self, code=code, label=label, nick=nick)


class Holder(DBC):
    parent: Parent
    child: Child
    grand_children: List[Grand_child]

    def __init__(self, parent: Parent, child: Child, grand_children: List[Grand_child]) -> None:
        self.parent = parent
        self.child = child
        self.grand_children = grand_children


__version__ = "dummy"
__xml_namespace__ = "https://dummy.com"
''',
    ),
    (
        "targeted/guard-on-other-property+bytes-bound",
        '''
@verification
def matches_x(text: str) -> bool:
    """Check the text."""
    pattern = f"^[a-z]+$"
    return match(pattern, text) is not None


@invariant(lambda self: not (self.a is not None) or matches_x(self.b), "A implies b matches.")
@invariant(lambda self: self.a is None or len(self.c) >= 3, "A implies c is long.")
@invariant(lambda self: len(self.d) <= 5, "D is short.")
@invariant(lambda self: len(self.e) >= 4, "E is not too short.")
@serialization(with_model_type=True)
class Something(DBC):
    b: str
    c: str
    d: bytearray
    e: bytearray
    a: Optional[int]

    def __init__(
        self, b: str, c: str, d: bytearray, e: bytearray, a: Optional[int] = None
    ) -> None:
        self.a = a
        self.b = b
        self.c = c
        self.d = d
        self.e = e


__version__ = "dummy"
__xml_namespace__ = "https://dummy.com"
''',
    ),
    (
        "targeted/negative-maximum",
        '''
@invariant(lambda self: len(self.xs) < 0, "Impossible.")
@invariant(lambda self: 0 > len(self.text), "Impossible as well.")
class Something(DBC):
    xs: List[int]
    text: str

    def __init__(self, xs: List[int], text: str) -> None:
        self.xs = xs
        self.text = text


__version__ = "dummy"
__xml_namespace__ = "https://dummy.com"
''',
    ),
    (
        "targeted/astral-patterns",
        '''
@verification
def matches_a(text: str) -> bool:
    """Check the text."""
    pattern = f"^[a-z\\U0001f600]+$"
    return match(pattern, text) is not None


@verification
def matches_b(text: str) -> bool:
    """Check the text."""
    pattern = f"^(\\U0001f600|[a-z]|\\u00e9)*$"
    return match(pattern, text) is not None


@verification
def matches_c(text: str) -> bool:
    """Check the text."""
    pattern = f"^[\\U00010000-\\U0010ffff]{{1,3}}$"
    return match(pattern, text) is not None


@verification
def matches_d(text: str) -> bool:
    """Check the text."""
    pattern = f"^[a-z]*\\U0001f642?\\xe9{{0,2}}$"
    return match(pattern, text) is not None


@invariant(lambda self: matches_c(self), "Only astral characters.")
class Astral(str, DBC):
    pass


@invariant(lambda self: matches_a(self.a), "A matches.")
@invariant(lambda self: matches_b(self.b) and matches_a(self.b), "B matches both.")
@invariant(lambda self: not (self.d is not None) or matches_d(self.d), "D matches.")
class Something(DBC):
    a: str
    b: str
    c: Astral
    cs: List[Astral]
    d: Optional[str]

    def __init__(self, a: str, b: str, c: Astral, cs: List[Astral], d: Optional[str] = None) -> None:
        self.a = a
        self.b = b
        self.c = c
        self.cs = cs
        self.d = d


__version__ = "dummy"
__xml_namespace__ = "https://dummy.com"
''',
    ),
    (
        "targeted/astral-character-vs-dot-and-complemented-set",
        '''
@verification
def matches_two(text: str) -> bool:
    """Check the text."""
    pattern = f"^[^ab]{{2}}$"
    return match(pattern, text) is not None


@verification
def matches_one(text: str) -> bool:
    """Check the text."""
    pattern = f"^.x?$"
    return match(pattern, text) is not None


@invariant(lambda self: matches_two(self.b), "B has two characters.")
@invariant(lambda self: matches_one(self.c), "C has one character and maybe an x.")
class Something(DBC):
    b: str
    c: str

    def __init__(self, b: str, c: str) -> None:
        self.b = b
        self.c = c


__version__ = "dummy"
__xml_namespace__ = "https://dummy.com"
''',
    ),
]


# deciding counters: (quick, thorough) minima; workers keep going (up to 2x the wall
# budget) until their share of these is reached, so that a loaded machine does not turn
# the verdict inconclusive
MINIMA = {
    "schemas_checked_for_validity": (40, 150),
    "refs_resolved": (100, 1000),
    "documents_validated": (300, 4000),
    "documents_with_constrained_values": (150, 2000),
    "values_exactly_at_a_bound": (80, 1000),
    "pattern_constrained_values": (60, 500),
    "pattern_constrained_values_with_astral_characters": (20, 100),
}
SHARED_MINIMA = ("documents_validated", "documents_with_constrained_values",
                 "values_exactly_at_a_bound", "pattern_constrained_values")


def share_met(chk: harness.Check, minima, names, n_shards: int) -> bool:
    for name in names:
        need = chk.pick(*minima[name]) * 1.5 / n_shards
        if chk.counters.get(name, 0) < need:
            return False
    return True


def check_model(chk: harness.Check, name: str, text: str, rng, n_instances: int,
                deadline: float, with_instances: bool) -> None:
    schema = jschema.open_schema(chk, name, text)
    if schema is None:
        return
    # ---- (a) the schema itself
    chk.count("schemas_checked_for_validity")
    chk.count("refs_resolved", sum(1 for _ in jschema.iter_refs(schema.root)))
    for key, witness in schema.validity_problems():
        chk.violation(key, dict(witness, model=name, text=text, schema=schema.text[:6000]))
    if not with_instances:
        chk.case()
        return
    # ---- (b) documents of satisfying instances
    op = jschema.open_model(chk, name, text, rng, schema=schema)
    if op is None:
        chk.case()
        return
    try:
        n_docs = 0
        for inst, doc, definition in jschema.documents(chk, op, n_instances, deadline):
            n_docs += 1
            if definition not in schema.definitions:
                chk.violation(
                    "schema-lacks-definition-of-concrete-class",
                    {"model": name, "text": text, "class": inst.cls, "definition": definition},
                )
                continue
            errors = schema.errors(definition, doc)
            chk.count("documents_validated")
            constrained = False
            nested = False
            for v in jschema.visits(op.pm, inst):
                if v.kind == "object":
                    nested = nested or bool(v.path)
                    continue
                recs = op.rec.for_value(v.owner.cls, v.prop.name, v.prop.type, item=(v.kind == "item"))
                if not recs:
                    continue
                constrained = True
                lo, hi, pats = jschema.effective(recs)
                kind = op.rec.value_kind(v.t)
                for bound in (lo, hi):
                    if bound is not None:
                        chk.hist("validated_constraints", f"{bound[1].kind}/{kind}/{bound[2]}/{bound[1].guard_form}")
                        if len(v.value) == bound[0]:
                            chk.count("values_exactly_at_a_bound")
                for r, origin in pats:
                    chk.hist("validated_constraints", f"pattern/{kind}/{origin}/{r.guard_form}")
                    chk.count("pattern_constrained_values")
                    if jschema.has_astral(v.value):
                        chk.count("pattern_constrained_values_with_astral_characters")
            if constrained:
                chk.count("documents_with_constrained_values")
            if any(op.rec.misread_candidates(v.owner.cls, v.prop.name) for v in jschema.visits(op.pm, inst) if v.kind == "value"):
                chk.count("documents_with_guard_on_other_property")
            sample = None
            if n_docs == 1 and len(chk.samples) < chk.max_samples:
                sample = {"model": name, "class": inst.cls, "definition": definition,
                          "document": json.dumps(doc)[:600], "errors": len(errors)}
            chk.case(distinct_key=(name, inst.cls) if (constrained or nested) else None, sample=sample)
            if errors:
                for leaf in jschema.leaf_errors(errors, doc):
                    key, detail = jschema.classify_rejection(op, inst, doc, leaf)
                    chk.violation(
                        key,
                        {"model": name, "text": text, "class": inst.cls, "definition": definition,
                         "instance": repr(inst)[:20000], "document_json": json.dumps(doc),
                         "detail": detail},
                    )
        chk.hist("recogniser", "invariants_recognised", op.rec.recognised)
        chk.hist("recogniser", "invariants_unrecognised_ignored", op.rec.unrecognised)
    finally:
        op.close()


def model_list(chk: harness.Check, n_mmg: int) -> List[Tuple[str, Optional[str], bool]]:
    """(name, text or None for MMG index, with_instances); generated models first."""
    result: List[Tuple[str, Optional[str], bool]] = []
    for name, text in TARGETED:
        result.append((name, text, True))
    for i in range(n_mmg):
        result.append((f"mmg/{chk.seed}/{i}", None, True))
    for name, text in corpus.models(include_v3=False):
        deep = name.startswith("common_meta_models/") or name.startswith("main/jsonschema/")
        if chk.tier == "thorough":
            deep = True
        result.append((f"corpus/{name}", text, deep))
    return result


def worker(args) -> Tuple[Dict[str, Any], List[Tuple[str, str, bool]]]:
    argv, shard, n_shards, n_mmg, n_instances = args
    chk = harness.Check("C11", "exploration", RULE, argv)
    budget = chk.wall_budget(150, 720)
    deadline = chk.t0 + budget
    models = model_list(chk, n_mmg)
    mine = [m for idx, m in enumerate(models) if idx % n_shards == shard]
    for idx, (name, text, deep) in enumerate(mine):
        # the generated models may use 80 % of the budget, the rest is kept for the corpus
        limit = chk.t0 + 0.8 * budget if text is None else deadline
        if time.time() > limit:
            if text is None and not share_met(chk, MINIMA, SHARED_MINIMA, n_shards) and time.time() < chk.t0 + chk.pick(2.0, 1.5) * budget:
                limit = chk.t0 + chk.pick(2.0, 1.5) * budget
                chk.count("models_run_past_the_budget_to_reach_minimum_counts")
            else:
                chk.count("models_skipped_for_budget")
                continue
        if text is None:
            index = int(name.rsplit("/", 1)[1])
            m = jschema.generate_model(chk.rng("model", index), index)
            text = m.text
            for k, v in m.features.items():
                chk.hist("mmg_features", k, v)
        try:
            check_model(chk, name, text, chk.rng("inst", name), n_instances, limit, deep)
        except RecursionError:
            chk.count("models_recursion_skipped")
    if shard == 0 and chk.tier == "thorough" and time.time() < deadline:
        # the big fixture: validity of its schema only (instances of v3 need hand-made data)
        check_model(chk, "corpus/aas_core_meta.v3", corpus.v3(), chk.rng("v3"), 0, deadline, False)
    samples = [(p, t, verdict) for (p, t), verdict in jschema.PATTERN_SAMPLES.items()]
    return chk.export(), samples


def node_leg(chk: harness.Check, samples: List[Tuple[str, str, bool]]) -> None:
    if not samples:
        chk.count("node_cross_checks", 0)
        return
    rng = chk.rng("node")
    rng.shuffle(samples)
    samples = samples[: chk.pick(1500, 8000)]
    verdicts = jschema.node_verdicts([(p, t) for p, t, _ in samples])
    if verdicts is None:
        chk.unavailable_leg("node (non-u RegExp cross-check of the UTF-16 pattern evaluation): node not found or failed")
        return
    for (pattern, text, python_verdict), node_verdict in zip(samples, verdicts):
        chk.count("node_cross_checks")
        if isinstance(node_verdict, str):
            chk.violation(
                "schema-invalid/pattern-rejected-by-ecmascript-engine",
                {"pattern": pattern, "text": text, "node": node_verdict},
            )
            continue
        chk.hist("node_cross_check", f"python={python_verdict},node={node_verdict}")
        if node_verdict != python_verdict:
            chk.violation(
                f"pattern-utf16/node-and-python-re-disagree/python={python_verdict}-node={node_verdict}",
                {"pattern": pattern, "text": text, "utf16_units": [hex(ord(c)) for c in jschema.utf16_units(text)][:80]},
            )


def main(argv) -> int:
    chk = harness.Check("C11", "exploration", RULE, argv)
    n_mmg = chk.pick(56, 900)
    n_instances = chk.pick(40, 120)
    n_shards = int(os.environ.get("VF_WORKERS", "8"))
    samples: List[Tuple[str, str, bool]] = []
    with concurrent.futures.ProcessPoolExecutor(max_workers=n_shards) as pool:
        jobs = [
            pool.submit(worker, (list(argv), s, n_shards, n_mmg, n_instances))
            for s in range(n_shards)
        ]
        for job in jobs:
            try:
                exported, some = job.result()
                chk.merge(exported)
                samples.extend(some)
            except Exception as err:
                chk.harness_error(f"worker failed: {err!r}\n{traceback.format_exc()[-1500:]}")
    node_leg(chk, samples)
    for counter, (quick, thorough) in MINIMA.items():
        chk.require_min(counter, chk.pick(quick, thorough))
    chk.assume("an instance is 'satisfying' when Python evaluates every invariant lambda of every reachable object and constrained value to True (vf.pyexec)")
    chk.assume("minLength/maxLength count characters as json-schema defines them (code points), only `pattern` works on UTF-16 code units")
    chk.assume("models on which the jsonschema target or the Python generator reports errors or crashes are counted and skipped (C01/C02)")
    return chk.finish()
