"""E1: seed meta-models that ship with the repository."""
import functools
import pathlib
from typing import List, Tuple

from vf import env

DATA = env.REPO / "dev" / "test_data"


@functools.lru_cache(maxsize=None)
def models(include_v3: bool = False) -> List[Tuple[str, str]]:
    """Return ``(relative name, text)`` of every meta-model under dev/test_data."""
    result = []
    seen = set()
    paths = sorted(DATA.glob("common_meta_models/*.py")) + sorted(
        DATA.glob("**/meta_model.py")
    )
    for path in paths:
        try:
            text = path.read_text(encoding="utf-8")
        except (OSError, UnicodeDecodeError):
            continue
        if not include_v3 and "aas_core_meta.v3" in path.name:
            continue
        if text in seen:
            continue
        seen.add(text)
        result.append((path.relative_to(DATA).as_posix(), text))
    return result


def v3() -> str:
    return (DATA / "common_meta_models" / "aas_core_meta.v3.py").read_text(
        encoding="utf-8"
    )


def small_common() -> List[Tuple[str, str]]:
    return [
        (p.name, p.read_text(encoding="utf-8"))
        for p in sorted(DATA.glob("common_meta_models/*.py"))
        if "v3" not in p.name
    ]
