"""
C15 helpers: "bounds mode" meta-model generator, an independent recogniser of the
*documented* invariant shapes and a brute-force oracle that lets Python itself evaluate
the recognised invariants.

Nothing in this module imports ``aas_core_codegen``:

* :func:`generate` writes meta-model *source text* (plus the generator's own labels,
  used only for a harness self-check and for evidence histograms),
* :func:`atoms_of_invariant` classifies the body of one invariant (a Python ``ast``
  node taken from :class:`vf.pyexec.PyModel`) by the shapes that
  ``infer_for_schema`` documents as understood: an optional guard
  (``self.p is None or ...`` / ``not (self.p is not None) or ...``) around a single
  ``len(.)`` comparison against an integer constant, a call of a pattern verification
  function, a membership in a constant set, or a conjunction of pattern calls /
  memberships,
* :class:`Oracle` evaluates every recognised atom with ``eval`` on tiny shadow values
  (strings / bytearrays / lists of each length 0..N, every literal of the universe),
  so all arithmetic (strict vs. non-strict, operand order, merging along inheritance
  and constrained-primitive chains, set intersection) is decided by Python.
"""
import ast
import random
import types
from typing import Any, Dict, List, Optional, Sequence, Set, Tuple

from vf import mmgen, pyexec

# ---------------------------------------------------------------------------
# Recogniser (ast only)
# ---------------------------------------------------------------------------

LEN_OPS = {ast.Lt: "<", ast.LtE: "<=", ast.Eq: "==", ast.Gt: ">", ast.GtE: ">="}

SELF = "<self>"


class Atom:
    """One recognised constraint: ``kind`` on ``target`` (a property name or SELF)."""

    def __init__(self, kind: str, target: str, node: ast.AST, detail: str) -> None:
        self.kind = kind  # len | pattern | set
        self.target = target
        self.node = node  # the sub-expression, evaluated by Python
        self.detail = detail  # operator form, function name or set name
        #: R = must be inferred, A = may be inferred (mixed conjunction),
        #: G = conditional on ANOTHER property: must not be inferred
        self.status = "R"
        self.guard: Optional[str] = None  # none | is-none | implication
        self.owner = ""  # class that declares the invariant
        self.func = None

    def sig(self) -> Tuple[str, str, str]:
        return (self.kind, self.target, self.status)


def _target(node: ast.AST, on_self: bool) -> Optional[str]:
    if (
        isinstance(node, ast.Attribute)
        and isinstance(node.value, ast.Name)
        and node.value.id == "self"
    ):
        return None if on_self else node.attr
    if on_self and isinstance(node, ast.Name) and node.id == "self":
        return SELF
    return None


def _len_target(node: ast.AST, on_self: bool) -> Optional[str]:
    if (
        isinstance(node, ast.Call)
        and isinstance(node.func, ast.Name)
        and node.func.id == "len"
        and len(node.args) == 1
        and not node.keywords
    ):
        return _target(node.args[0], on_self)
    return None


def _int_constant(node: ast.AST) -> bool:
    if isinstance(node, ast.UnaryOp) and isinstance(node.op, ast.USub):
        node = node.operand
    return isinstance(node, ast.Constant) and type(node.value) is int


def _len_atom(node: ast.AST, on_self: bool) -> Optional[Atom]:
    if not (isinstance(node, ast.Compare) and len(node.ops) == 1):
        return None
    op = LEN_OPS.get(type(node.ops[0]))
    if op is None:
        return None
    left, right = node.left, node.comparators[0]
    target = _len_target(left, on_self)
    if target is not None and _int_constant(right):
        return Atom("len", target, node, f"len{op}k")
    target = _len_target(right, on_self)
    if target is not None and _int_constant(left):
        return Atom("len", target, node, f"k{op}len")
    return None


def _pattern_atom(node: ast.AST, on_self: bool, pm: pyexec.PyModel) -> Optional[Atom]:
    if not (
        isinstance(node, ast.Call)
        and isinstance(node.func, ast.Name)
        and len(node.args) == 1
        and not node.keywords
    ):
        return None
    fn = pm.functions.get(node.func.id)
    if fn is None or not fn.is_verification or fn.pattern is None:
        return None
    target = _target(node.args[0], on_self)
    if target is None:
        return None
    return Atom("pattern", target, node, fn.name)


def _set_atom(node: ast.AST, on_self: bool, pm: pyexec.PyModel) -> Optional[Atom]:
    if on_self:
        # documented: sets are not matched on constrained primitives
        return None
    if not (
        isinstance(node, ast.Compare)
        and len(node.ops) == 1
        and isinstance(node.ops[0], ast.In)
        and isinstance(node.comparators[0], ast.Name)
    ):
        return None
    const = pm.constants.get(node.comparators[0].id)
    if const is None or const.call != "constant_set":
        return None
    target = _target(node.left, on_self)
    if target is None:
        return None
    return Atom("set", target, node, const.name)


def _guard(node: ast.AST) -> Optional[Tuple[str, str, ast.AST]]:
    """Match ``self.g is None or X`` / ``not (self.g is not None) or X``."""
    if not (isinstance(node, ast.BoolOp) and isinstance(node.op, ast.Or)):
        return None
    if len(node.values) != 2:
        return None
    first, second = node.values

    def is_none_test(test: ast.AST, op_type: type) -> Optional[str]:
        if (
            isinstance(test, ast.Compare)
            and len(test.ops) == 1
            and isinstance(test.ops[0], op_type)
            and isinstance(test.comparators[0], ast.Constant)
            and test.comparators[0].value is None
        ):
            return _target(test.left, False)
        return None

    prop = is_none_test(first, ast.Is)
    if prop is not None:
        return prop, "is-none", second
    if isinstance(first, ast.UnaryOp) and isinstance(first.op, ast.Not):
        prop = is_none_test(first.operand, ast.IsNot)
        if prop is not None:
            return prop, "implication", second
    return None


def atoms_of_invariant(body: ast.AST, pm: pyexec.PyModel, on_self: bool) -> List[Atom]:
    """Return the recognised atoms of one invariant body ([] = unrecognised shape)."""
    guard_prop, guard_form, core = None, "none", body
    if not on_self:
        guarded = _guard(body)
        if guarded is not None:
            guard_prop, guard_form, core = guarded

    atoms: List[Atom] = []
    single = (
        _len_atom(core, on_self)
        or _pattern_atom(core, on_self, pm)
        or _set_atom(core, on_self, pm)
    )
    if single is not None:
        atoms = [single]
    elif isinstance(core, ast.BoolOp) and isinstance(core.op, ast.And):
        found = []
        for value in core.values:
            atom = _pattern_atom(value, on_self, pm) or _set_atom(value, on_self, pm)
            found.append(atom)
        atoms = [a for a in found if a is not None]
        pure = all(a is not None for a in found) and len({a.kind for a in atoms}) == 1
        if not pure:
            for atom in atoms:
                atom.status = "A"
    for atom in atoms:
        atom.guard = guard_form
        if guard_prop is not None and atom.target != guard_prop:
            atom.status = "G"
    return atoms


# ---------------------------------------------------------------------------
# Oracle
# ---------------------------------------------------------------------------

STR_SENTINEL = "\x7fnot-in-any-set"


class Expected:
    """What the recognised invariants say about one value slot."""

    def __init__(self) -> None:
        self.atoms: List[Atom] = []  # every atom that targets the slot (R, A and G)
        self.levels: Set[str] = set()  # own | inherited | cprim (of R atoms)

    def of(self, kind: str, *status: str) -> List[Atom]:
        return [a for a in self.atoms if a.kind == kind and a.status in status]


class Oracle:
    def __init__(self, text: str) -> None:
        self.pm = pyexec.PyModel(text, execute=True)
        pm = self.pm
        self.own_atoms: Dict[str, List[Tuple[pyexec.RefInvariant, List[Atom]]]] = {}
        biggest = 0
        for name in pm.order:
            cls = pm.classes[name]
            if cls.is_enum:
                continue
            on_self = pm.is_constrained_primitive(name)
            entries = []
            for inv in cls.own_invariants:
                atoms = atoms_of_invariant(inv.node.body, pm, on_self)
                for atom in atoms:
                    atom.owner = name
                    atom.func = self._compile(atom.node)
                entries.append((inv, atoms))
                for node in ast.walk(inv.node.body):
                    if isinstance(node, ast.Constant) and type(node.value) is int:
                        biggest = max(biggest, abs(node.value))
            self.own_atoms[name] = entries
        self.n_max = biggest + 3
        # universes of literals
        self.str_universe: List[str] = [STR_SENTINEL]
        for const in pm.constants.values():
            if const.call == "constant_set" and isinstance(const.value, frozenset):
                for value in const.value:
                    if isinstance(value, str) and value not in self.str_universe:
                        self.str_universe.append(value)

    def _compile(self, node: ast.AST):
        lam = ast.Lambda(
            args=ast.arguments(
                posonlyargs=[], args=[ast.arg(arg="self")], kwonlyargs=[],
                kw_defaults=[], defaults=[],
            ),
            body=node,
        )
        expr = ast.fix_missing_locations(ast.Expression(body=lam))
        return eval(compile(expr, "<atom>", "eval"), self.pm.ns)  # noqa: S307

    # -- structure ----------------------------------------------------------
    def classes(self) -> List[str]:
        return [n for n in self.pm.order if self.pm.is_class(n)]

    def slots(self, cls: str) -> List[Tuple[str, str, pyexec.TypeRef]]:
        """(property, level, type) for every value slot of the class."""
        result = []
        for _, prop in self.pm.all_props(cls):
            type_ = prop.type.strip_optional()
            result.append((prop.name, "value", type_))
            if type_.kind == "list" and type_.inner is not None:
                result.append((prop.name, "items", type_.inner.strip_optional()))
        return result

    def base_kind(self, type_: pyexec.TypeRef) -> str:
        """str | bytearray | list | enum:<name> | other"""
        if type_.kind == "list":
            return "list"
        if type_.kind != "atomic":
            return "other"
        prim = self.pm.primitive_of(type_.name)
        if prim is not None:
            return prim
        if self.pm.is_enum(type_.name):
            return "enum:" + type_.name
        return "other"

    def expected(self, cls: str, prop: str, level: str, type_: pyexec.TypeRef) -> Expected:
        pm = self.pm
        exp = Expected()
        if level == "value":
            for anc in pm.ancestors(cls) + [cls]:
                for _, atoms in self.own_atoms.get(anc, []):
                    for atom in atoms:
                        if atom.target == prop:
                            exp.atoms.append(atom)
                            if atom.status == "R":
                                exp.levels.add("own" if anc == cls else "inherited")
        if type_.kind == "atomic" and pm.is_constrained_primitive(type_.name):
            for anc in pm.ancestors(type_.name) + [type_.name]:
                for _, atoms in self.own_atoms.get(anc, []):
                    for atom in atoms:
                        if atom.target == SELF:
                            exp.atoms.append(atom)
                            if atom.status == "R":
                                exp.levels.add("cprim")
        return exp

    # -- evaluation by Python -------------------------------------------------
    @staticmethod
    def value_of_length(base: str, n: int) -> Any:
        if base == "str":
            return "a" * n
        if base == "bytearray":
            return bytearray(n)
        if base == "list":
            return ["a"] * n
        raise ValueError(base)

    @staticmethod
    def holds(atom: Atom, value: Any) -> bool:
        if atom.target == SELF:
            return bool(atom.func(value))
        return bool(atom.func(types.SimpleNamespace(**{atom.target: value})))

    def len_admitted(self, atoms: Sequence[Atom], base: str) -> List[bool]:
        result = []
        for n in range(self.n_max + 1):
            value = self.value_of_length(base, n)
            result.append(all(self.holds(a, value) for a in atoms))
        return result

    def universe(self, base: str) -> List[Any]:
        if base.startswith("enum:"):
            return list(self.pm.ns[base[5:]])
        return list(self.str_universe)

    def literals_admitted(self, atoms: Sequence[Atom], base: str) -> List[bool]:
        return [all(self.holds(a, v) for a in atoms) for v in self.universe(base)]

    def patterns(self, atoms: Sequence[Atom]) -> Set[str]:
        return {self.pm.functions[a.detail].pattern for a in atoms}


# ---------------------------------------------------------------------------
# Generator ("bounds mode")
# ---------------------------------------------------------------------------

GREEK = [
    "alpha", "beta", "gamma", "kappa", "sigma", "omega", "theta", "zeta", "iota",
    "rho", "tau", "phi", "chi", "psi", "omicron", "upsilon",
]

PATTERN_POOL = [
    ("matches_lower", "^[a-z]*$"),
    ("matches_alnum", "^[a-zA-Z0-9]+$"),
    ("matches_anything", "^.*$"),
    ("matches_words", "^[a-z]+( [a-z]+)*$"),
    ("matches_short_id", "^[a-zA-Z][a-zA-Z0-9_]*$"),
]

STR_VALUES = ["a", "bb", "ccc", "dddd", "eeeee", "ab"]
ENUM_LITERALS = ["Aa", "Bb", "Cc", "Dd", "Ee"]

MODES = [
    ("consistent", 0.74),
    ("crossing-levels", 0.05),
    ("crossing-same-class", 0.04),
    ("zero-min", 0.05),
    ("dup-exact", 0.02),
    ("guard-other", 0.06),
    ("empty-set", 0.04),
]


class Dom:
    """Plan for one length domain: all recognised bounds are implied by [lo, hi]."""

    def __init__(self, rng: random.Random) -> None:
        self.lo = rng.randint(1, 6)
        self.hi = self.lo + rng.choice([0, 0, 1, 2, 3, 5])


class GProp:
    def __init__(self, name: str, base: str, optional: bool, type_src: str) -> None:
        self.name = name
        self.base = base  # str | bytearray | list | enum
        self.optional = optional
        self.type_src = type_src
        self.dom: Optional[Dom] = None  # for lengthables
        self.str_like = False  # pattern / str-set membership make sense

    def annotation(self) -> str:
        return f"Optional[{self.type_src}]" if self.optional else self.type_src


class GInv:
    def __init__(self, expr: str, label: List[Tuple[str, str, str]], shape: str) -> None:
        self.expr = expr
        self.label = label  # expected atoms as (kind, target, status)
        self.shape = shape  # for histograms


class GClass:
    def __init__(self, name: str, bases: List[str]) -> None:
        self.name = name
        self.bases = bases
        self.abstract = False
        self.props: List[GProp] = []
        self.all_props: List[GProp] = []
        self.invs: List[GInv] = []


class GCprim:
    def __init__(self, name: str, bases: List[str], prim: str, dom: Dom) -> None:
        self.name = name
        self.bases = bases  # primitive or other cprims
        self.prim = prim
        self.dom = dom
        self.invs: List[GInv] = []


class GenModel:
    def __init__(self) -> None:
        self.text = ""
        self.mode = "consistent"
        self.shape = ""
        self.labels: Dict[Tuple[str, str], GInv] = {}  # (class, description) -> inv
        self.shapes: List[str] = []


class Generator:
    def __init__(self, rng: random.Random) -> None:
        self.rng = rng
        self.m = GenModel()
        self.cprims: List[GCprim] = []
        self.classes: List[GClass] = []
        self.patterns: List[Tuple[str, str]] = []
        self.str_sets: List[Tuple[str, List[str], Optional[str]]] = []
        self.enum_sets: List[Tuple[str, List[str], Optional[str]]] = []
        self.enum_literals: List[str] = []
        self.used_names: Set[str] = set()

    # -- small helpers ------------------------------------------------------
    def chance(self, p: float) -> bool:
        return self.rng.random() < p

    def fresh_prop_name(self) -> str:
        while True:
            name = f"{self.rng.choice(['the', 'some', 'my'])}_{self.rng.choice(GREEK)}"
            if name not in self.used_names:
                self.used_names.add(name)
                return name

    # -- length atoms ---------------------------------------------------------
    def len_src(self, subject: str, kind: str, value: int) -> Tuple[str, str]:
        """Render ``len(subject)`` bounded below/above/exactly by ``value``."""
        rng = self.rng
        ln = f"len({subject})"
        if kind == "min":
            forms = [(f"{ln} >= {value}", "len>=k"), (f"{value} <= {ln}", "k<=len")]
            if value >= 1:
                forms += [(f"{ln} > {value - 1}", "len>k"), (f"{value - 1} < {ln}", "k<len")]
        elif kind == "max":
            forms = [
                (f"{ln} <= {value}", "len<=k"), (f"{value} >= {ln}", "k>=len"),
                (f"{ln} < {value + 1}", "len<k"), (f"{value + 1} > {ln}", "k>len"),
            ]
        else:
            forms = [(f"{ln} == {value}", "len==k"), (f"{value} == {ln}", "k==len")]
        return rng.choice(forms)

    def consistent_len(self, subject: str, dom: Dom, allow_exact: bool) -> Tuple[str, str, str]:
        rng = self.rng
        kinds = ["min", "max"]
        if dom.lo == dom.hi and allow_exact:
            kinds += ["exact", "exact"]
        kind = rng.choice(kinds)
        if kind == "min":
            value = rng.randint(1, dom.lo)
        elif kind == "max":
            value = dom.hi + rng.choice([0, 0, 1, 2, 3])
        else:
            value = dom.lo
        src, form = self.len_src(subject, kind, value)
        return src, form, kind

    def guard_wrap(self, guard_prop: str, core: str, needs_parens: bool = False) -> Tuple[str, str]:
        if needs_parens:
            core = f"({core})"
        if self.chance(0.5):
            return f"self.{guard_prop} is None or {core}", "is-none"
        return f"not (self.{guard_prop} is not None) or {core}", "implication"

    def maybe_guard(self, prop: GProp, core: str, needs_parens: bool = False) -> Tuple[str, str]:
        """Guard on the SAME property: always for optionals, sometimes otherwise."""
        if prop.optional or self.chance(0.12):
            return self.guard_wrap(prop.name, core, needs_parens)
        return core, "none"

    # -- building blocks --------------------------------------------------------
    def gen_vocabulary(self) -> None:
        rng = self.rng
        self.patterns = rng.sample(PATTERN_POOL, rng.randint(2, 3))
        self.enum_literals = ENUM_LITERALS[: rng.randint(3, 5)]
        # sets of strings: every "normal" set contains "a" (non-empty intersections)
        n = rng.randint(2, 3)
        for i in range(n):
            values = ["a"] + rng.sample(STR_VALUES[1:], rng.randint(1, 3))
            rng.shuffle(values)
            self.str_sets.append((f"Str_set_{i}", values, None))
        base_name, base_values, _ = self.str_sets[0]
        extra = [v for v in STR_VALUES if v not in base_values]
        sup_values = list(base_values) + rng.sample(extra, rng.randint(1, len(extra)))
        self.str_sets.append(("Str_superset", sup_values, base_name))
        if self.chance(0.4):
            extra = [v for v in STR_VALUES if v not in sup_values]
            top = list(sup_values) + extra[: rng.randint(0, len(extra))]
            self.str_sets.append(("Str_top_set", top, "Str_superset"))
        # disjoint pair for the empty-intersection mode
        self.str_sets.append(("Str_only_bb", ["bb"], None))
        self.str_sets.append(("Str_no_bb", ["ccc", "dddd"], None))
        # sets of enumeration literals
        lits = self.enum_literals
        for i in range(2):
            values = ["Aa"] + rng.sample(lits[1:], rng.randint(1, len(lits) - 1))
            rng.shuffle(values)
            self.enum_sets.append((f"Kind_set_{i}", values, None))
        base_name, base_values, _ = self.enum_sets[0]
        extra = [v for v in lits if v not in base_values]
        sup = list(base_values) + extra[: rng.randint(0, len(extra))]
        self.enum_sets.append(("Kind_superset", sup, base_name))
        self.enum_sets.append(("Kind_only_bb", ["Bb"], None))
        self.enum_sets.append(("Kind_only_cc", ["Cc"], None))

    def normal_str_sets(self) -> List[str]:
        return [s[0] for s in self.str_sets if "a" in s[1]]

    def normal_enum_sets(self) -> List[str]:
        return [s[0] for s in self.enum_sets if "Aa" in s[1]]

    def unrecognised_on_self(self, cp: GCprim) -> GInv:
        rng = self.rng
        k = rng.randint(0, 9)
        k2 = k + rng.randint(1, 4)
        options = [
            (f"len(self) != {k}", "U:len!=k"),
            (f"len(self) + 1 > {k}", "U:arith-left"),
            (f"len(self) > {k} - 1", "U:arith-right"),
            (f"not (len(self) > {k2})", "U:negated-len"),
            (f"len(self) >= {k} and len(self) <= {k2}", "U:and-of-len"),
            (f"len(self) < {k} or len(self) > {k2}", "U:or-of-len"),
        ]
        if cp.prim == "str":
            p, q = self.patterns[0][0], self.patterns[1][0]
            options += [
                ("is_long(self)", "U:non-pattern-call"),
                (f"not {p}(self)", "U:negated-pattern"),
                (f"{p}(self) or {q}(self)", "U:or-of-patterns"),
                (f"self in {rng.choice(self.normal_str_sets())}", "U:set-on-self"),
            ]
        expr, shape = rng.choice(options)
        return GInv(expr, [], shape)

    def gen_cprims(self) -> None:
        rng = self.rng
        n_chains = rng.choice([0, 1, 1, 2])
        for c in range(n_chains):
            prim = rng.choice(["str", "str", "bytearray"])
            dom = Dom(rng)
            letter = "AB"[c]
            shape = rng.choice(["chain1", "chain2", "chain3", "diamond"])
            if shape == "diamond":
                structure = [[prim], [0], [0], [1, 2]]
            else:
                depth = int(shape[-1])
                structure = [[prim]] + [[i] for i in range(depth - 1)]
            chain: List[GCprim] = []
            for i, parents in enumerate(structure):
                bases = [p if isinstance(p, str) else chain[p].name for p in parents]
                cp = GCprim(f"Cp_{letter}{i}", bases, prim, dom)
                chain.append(cp)
                self.cprims.append(cp)
            for cp in chain:
                subject = "self"
                exact_used = False
                for _ in range(rng.choice([0, 1, 1, 2])):
                    src, form, kind = self.consistent_len(subject, dom, not exact_used)
                    exact_used = exact_used or kind == "exact"
                    cp.invs.append(GInv(src, [("len", SELF, "R")], f"R:{form}:self"))
                if prim == "str":
                    if self.chance(0.35):
                        fn = rng.choice(self.patterns)[0]
                        cp.invs.append(GInv(f"{fn}(self)", [("pattern", SELF, "R")], "R:pattern:self"))
                    if self.chance(0.12):
                        f1, f2 = self.patterns[0][0], self.patterns[1][0]
                        cp.invs.append(
                            GInv(f"{f1}(self) and {f2}(self)",
                                 [("pattern", SELF, "R"), ("pattern", SELF, "R")],
                                 "R:and-of-patterns:self"))
                    if self.chance(0.08):
                        fn = rng.choice(self.patterns)[0]
                        cp.invs.append(
                            GInv(f"{fn}(self) and len(self) >= 1", [("pattern", SELF, "A")],
                                 "A:pattern-and-other:self"))
                if self.chance(0.3):
                    cp.invs.append(self.unrecognised_on_self(cp))

    def gen_prop(self) -> GProp:
        rng = self.rng
        name = self.fresh_prop_name()
        optional = self.chance(0.4)
        str_cprims = [c for c in self.cprims if c.prim == "str"]
        any_cprims = list(self.cprims)
        menu = ["str", "str", "bytearray", "list-str", "enum"]
        if any_cprims:
            menu += ["cprim", "cprim", "cprim", "list-cprim"]
        choice = rng.choice(menu)
        if choice == "str":
            prop = GProp(name, "str", optional, "str")
            prop.dom = Dom(rng)
            prop.str_like = True
        elif choice == "bytearray":
            prop = GProp(name, "bytearray", optional, "bytearray")
            prop.dom = Dom(rng)
        elif choice == "list-str":
            prop = GProp(name, "list", optional, "List[str]")
            prop.dom = Dom(rng)
        elif choice == "enum":
            prop = GProp(name, "enum", optional, "Kind")
        elif choice == "cprim":
            cp = rng.choice(any_cprims)
            prop = GProp(name, cp.prim, optional, cp.name)
            prop.dom = cp.dom
            prop.str_like = cp.prim == "str"
        else:
            cp = rng.choice(any_cprims)
            prop = GProp(name, "list", optional, f"List[{cp.name}]")
            prop.dom = Dom(rng)
        del str_cprims
        return prop

    def gen_classes(self) -> None:
        rng = self.rng
        shape = rng.choice(
            ["chain1", "chain2", "chain2", "chain3", "chain3", "chain4", "diamond", "vee"]
        )
        self.m.shape = shape
        if shape == "diamond":
            structure = [[], [0], [0], [1, 2]]
        elif shape == "vee":
            structure = [[], [], [0, 1]]
        else:
            structure = [[]] + [[i] for i in range(int(shape[-1]) - 1)]
        for i, parents in enumerate(structure):
            cls = GClass(f"Cls_{i}", [self.classes[p].name for p in parents])
            inherited: List[GProp] = []
            for p in parents:
                for prop in self.classes[p].all_props:
                    if prop not in inherited:
                        inherited.append(prop)
            n_new = rng.randint(2, 4) if not parents else rng.choice([0, 0, 1])
            for _ in range(n_new):
                cls.props.append(self.gen_prop())
            cls.all_props = inherited + cls.props
            has_children = any(i in ps for ps in structure)
            cls.abstract = has_children and self.chance(0.5)
            self.classes.append(cls)

    # -- invariants on properties ---------------------------------------------
    def recognised_inv(self, cls: GClass, prop: GProp, exact_used: Set[str]) -> Optional[GInv]:
        rng = self.rng
        kinds = []
        if prop.dom is not None:
            kinds += ["len", "len", "len"]
        if prop.str_like:
            kinds += ["pattern", "set", "and-patterns", "and-sets"]
        if prop.base == "enum":
            kinds += ["set", "set", "and-sets"]
        if not kinds:
            return None
        kind = rng.choice(kinds)
        subject = f"self.{prop.name}"
        if kind == "len":
            src, form, k = self.consistent_len(subject, prop.dom, prop.name not in exact_used)
            if k == "exact":
                exact_used.add(prop.name)
            expr, guard = self.maybe_guard(prop, src)
            return GInv(expr, [("len", prop.name, "R")], f"R:{form}:{guard}")
        if kind == "pattern":
            fn = rng.choice(self.patterns)[0]
            expr, guard = self.maybe_guard(prop, f"{fn}({subject})")
            return GInv(expr, [("pattern", prop.name, "R")], f"R:pattern:{guard}")
        if kind == "and-patterns":
            fns = rng.sample([p[0] for p in self.patterns], 2)
            core = " and ".join(f"{fn}({subject})" for fn in fns)
            expr, guard = self.maybe_guard(prop, core, needs_parens=True)
            return GInv(expr, [("pattern", prop.name, "R")] * 2, f"R:and-of-patterns:{guard}")
        sets = self.normal_enum_sets() if prop.base == "enum" else self.normal_str_sets()
        if kind == "set":
            expr, guard = self.maybe_guard(prop, f"{subject} in {rng.choice(sets)}")
            return GInv(expr, [("set", prop.name, "R")], f"R:set:{guard}")
        chosen = rng.sample(sets, 2)
        core = " and ".join(f"{subject} in {s}" for s in chosen)
        expr, guard = self.maybe_guard(prop, core, needs_parens=True)
        return GInv(expr, [("set", prop.name, "R")] * 2, f"R:and-of-sets:{guard}")

    def unrecognised_inv(self, cls: GClass) -> Optional[GInv]:
        """An invariant in a shape that must be ignored."""
        rng = self.rng
        props = [p for p in cls.all_props if p.dom is not None or p.base == "enum"]
        if not props:
            return None
        prop = rng.choice(props)
        s = f"self.{prop.name}"
        k = rng.randint(0, 9)
        k2 = k + rng.randint(1, 4)
        options: List[Tuple[str, str]] = []
        if prop.dom is not None:
            options += [
                (f"len({s}) != {k}", "U:len!=k"),
                (f"{k} != len({s})", "U:k!=len"),
                (f"len({s}) + 1 > {k}", "U:arith-left"),
                (f"len({s}) - 1 < {k2}", "U:arith-left"),
                (f"len({s}) <= {k} + 1", "U:arith-right"),
                (f"not (len({s}) > {k2})", "U:negated-len"),
                (f"not (len({s}) == {k})", "U:negated-len"),
                (f"len({s}) >= {k} and len({s}) <= {k2}", "U:and-of-len"),
                (f"len({s}) < {k} or len({s}) > {k2}", "U:or-of-len"),
                (f"len({s}) == {k} or len({s}) == {k2}", "U:or-of-len"),
            ]
            others = [p for p in cls.all_props if p is not prop and p.dom is not None and not p.optional]
            if others and not prop.optional:
                o = rng.choice(others)
                options.append((f"len({s}) <= len(self.{o.name})", "U:len-vs-len"))
            optionals = [p for p in cls.all_props if p is not prop and p.optional]
            if optionals and not prop.optional:
                q = rng.choice(optionals).name
                options += [
                    (f"self.{q} is not None or len({s}) <= {k2}", "U:or-is-not-none"),
                    (f"len({s}) <= {k2} or self.{q} is None", "U:guard-in-second-position"),
                    (f"self.{q} is None or len({s}) <= {k2} or len({s}) == {k2 + 2}",
                     "U:three-way-or"),
                    (f"not (self.{q} is not None) or (len({s}) >= {k} and len({s}) <= {k2})",
                     "U:guarded-and-of-len"),
                ]
        if prop.dom is not None and prop.optional:
            # the guard form with more than two operands is *not* the recognised
            # ``self.p is None or <constraint>`` form
            options += [
                (f"{s} is None or len({s}) <= {k2} or len({s}) == {k2 + 2}", "U:three-way-or-same-property"),
                (f"{s} is None or len({s}) >= {k + 1} or len({s}) == 0", "U:three-way-or-same-property"),
            ]
        if prop.str_like and prop.optional:
            q1, q2 = self.patterns[0][0], self.patterns[1][0]
            t1, t2 = rng.sample(self.normal_str_sets(), 2)
            options += [
                (f"{s} is None or {q1}({s}) or {q2}({s})", "U:three-way-or-same-property"),
                (f"{s} is None or {s} in {t1} or {s} in {t2}", "U:three-way-or-same-property"),
            ]
        if prop.str_like:
            p1, p2 = self.patterns[0][0], self.patterns[1][0]
            s1, s2 = rng.sample(self.normal_str_sets(), 2)
            options += [
                (f"is_long({s})", "U:non-pattern-call"),
                (f"not {p1}({s})", "U:negated-pattern"),
                (f"{p1}({s}) or {p2}({s})", "U:or-of-patterns"),
                (f"not ({s} in {s1})", "U:negated-set"),
                (f"{s} in {s1} or {s} in {s2}", "U:or-of-sets"),
            ]
        if prop.base == "enum":
            s1, s2 = rng.sample(self.normal_enum_sets(), 2)
            options += [
                (f"not ({s} in {s1})", "U:negated-set"),
                (f"{s} in {s1} or {s} in {s2}", "U:or-of-sets"),
                (f"{s} == Kind.Aa or {s} in {s2}", "U:or-of-sets"),
            ]
        expr, shape = rng.choice(options)
        if prop.optional and not shape.startswith(("U:or-is", "U:guard-in", "U:three", "U:guarded")):
            # keep the model None-safe: nest the unrecognised core under a guard,
            # which turns the consequent into something the inference cannot match
            # only if the core itself is unrecognised (it is).
            expr, _ = self.guard_wrap(prop.name, expr, needs_parens=True)
            shape += "+guard"
        return GInv(expr, [], shape)

    def ambiguous_inv(self, cls: GClass) -> Optional[GInv]:
        rng = self.rng
        props = [p for p in cls.all_props if p.str_like and not p.optional]
        if not props:
            return None
        prop = rng.choice(props)
        s = f"self.{prop.name}"
        if self.chance(0.5):
            fn = rng.choice(self.patterns)[0]
            return GInv(f"{fn}({s}) and len({s}) >= 1", [("pattern", prop.name, "A")],
                        "A:pattern-and-other")
        st = rng.choice(self.normal_str_sets())
        if self.chance(0.5):
            return GInv(f"{s} in {st} and len({s}) >= 1", [("set", prop.name, "A")],
                        "A:set-and-other")
        fn = rng.choice(self.patterns)[0]
        return GInv(f"{fn}({s}) and {s} in {st}",
                    [("pattern", prop.name, "A"), ("set", prop.name, "A")],
                    "A:pattern-and-set")

    def gen_invariants(self) -> None:
        rng = self.rng
        # focus: a lengthable property declared at a root so that all levels see it
        roots = [c for c in self.classes if not c.bases]
        candidates = [p for c in roots for p in c.props if p.dom is not None]
        focus = rng.choice(candidates) if candidates else None
        for cls in self.classes:
            exact_used: Set[str] = set()
            for prop in cls.all_props:
                p = 0.75 if prop is focus else 0.35
                if self.chance(p):
                    inv = self.recognised_inv(cls, prop, exact_used)
                    if inv is not None:
                        cls.invs.append(inv)
                    if prop is focus and self.chance(0.3):
                        src, form, k = self.consistent_len(
                            f"self.{prop.name}", prop.dom, prop.name not in exact_used)
                        if k == "exact":
                            exact_used.add(prop.name)
                        expr, guard = self.maybe_guard(prop, src)
                        cls.invs.append(GInv(expr, [("len", prop.name, "R")], f"R:{form}:{guard}"))
            for _ in range(rng.choice([0, 0, 1, 1, 2])):
                inv = self.unrecognised_inv(cls)
                if inv is not None:
                    cls.invs.append(inv)
            if self.chance(0.12):
                inv = self.ambiguous_inv(cls)
                if inv is not None:
                    cls.invs.append(inv)
        self.apply_mode(focus)
        for cls in self.classes:
            rng.shuffle(cls.invs)

    # -- deliberate special cases -----------------------------------------------
    def apply_mode(self, focus: Optional[GProp]) -> None:
        rng = self.rng
        mode = rng.choices([m for m, _ in MODES], [w for _, w in MODES])[0]
        if mode != "consistent" and focus is None and mode not in ("guard-other", "empty-set"):
            mode = "consistent"
        holders = [c for c in self.classes if focus in c.all_props] if focus else []

        def add_len(cls: GClass, kind: str, value: int) -> None:
            src, form = self.len_src(f"self.{focus.name}", kind, value)
            expr, guard = self.maybe_guard(focus, src)
            cls.invs.append(GInv(expr, [("len", focus.name, "R")], f"R:{form}:{guard}"))

        if mode == "crossing-levels":
            if len(holders) < 2:
                mode = "crossing-same-class"
            else:
                upper, lower = sorted(rng.sample(range(len(holders)), 2))
                first, second = rng.sample(["min", "max"], 2)
                pivot = focus.dom.hi + rng.randint(4, 6)
                for cls, kind in ((holders[upper], first), (holders[lower], second)):
                    if rng.random() < 0.2:
                        add_len(cls, "exact", pivot + 1 if kind == "min" else pivot - 1)
                    else:
                        add_len(cls, kind, pivot + 1 if kind == "min" else pivot - 1)
        if mode == "crossing-same-class":
            cls = rng.choice(holders)
            pivot = focus.dom.hi + rng.randint(4, 6)
            add_len(cls, "min", pivot + 1)
            add_len(cls, rng.choice(["max", "max", "exact"]), pivot - 1)
        elif mode == "zero-min":
            cls = rng.choice(holders)
            s = f"self.{focus.name}"
            src, form = rng.choice([
                (f"len({s}) >= 0", "len>=k"), (f"0 <= len({s})", "k<=len"),
                (f"len({s}) > -1", "len>k"), (f"len({s}) == 0", "len==k"),
                (f"len({s}) < 1", "len<k"), (f"0 == len({s})", "k==len"),
            ])
            expr, guard = self.maybe_guard(focus, src)
            cls.invs.append(GInv(expr, [("len", focus.name, "R")], f"R:{form}:{guard}"))
            if self.chance(0.6):
                add_len(rng.choice(holders), "max", focus.dom.hi + 1)
        elif mode == "dup-exact":
            cls = rng.choice(holders)
            value = rng.randint(1, 9)
            for src, form in (
                (f"len(self.{focus.name}) == {value}", "len==k"),
                (f"{value} == len(self.{focus.name})", "k==len"),
            ):
                expr, guard = self.maybe_guard(focus, src)
                cls.invs.append(GInv(expr, [("len", focus.name, "R")], f"R:{form}:{guard}"))
        elif mode == "guard-other":
            done = False
            for cls in rng.sample(self.classes, len(self.classes)):
                optionals = [p for p in cls.all_props if p.optional]
                targets = [p for p in cls.all_props if not p.optional
                           and (p.dom is not None or p.base == "enum")]
                pairs = [(q, p) for q in optionals for p in targets if q is not p]
                if not pairs:
                    continue
                q, p = rng.choice(pairs)
                s = f"self.{p.name}"
                options = []
                if p.dom is not None:
                    src, form, _ = self.consistent_len(s, p.dom, False)
                    options.append((src, [("len", p.name, "G")], f"G:{form}", False))
                if p.str_like:
                    fn = rng.choice(self.patterns)[0]
                    options.append((f"{fn}({s})", [("pattern", p.name, "G")], "G:pattern", False))
                    st = rng.choice(self.normal_str_sets())
                    options.append((f"{s} in {st}", [("set", p.name, "G")], "G:set", False))
                    f2 = rng.choice(self.patterns)[0]
                    options.append((f"{fn}({s}) and {f2}(self.{q.name})" if q.str_like else
                                    f"{fn}({s}) and {f2}({s})",
                                    None, "G:and-of-patterns", True))
                if p.base == "enum":
                    st = rng.choice(self.normal_enum_sets())
                    options.append((f"{s} in {st}", [("set", p.name, "G")], "G:set", False))
                core, label, shape, parens = rng.choice(options)
                expr, guard = self.guard_wrap(q.name, core, parens)
                if label is None:
                    # conjunction under a guard: conjuncts on the guard property are
                    # recognised, the others are conditional on another property
                    label = []
                    for part in core.split(" and "):
                        on_guard = f"(self.{q.name})" in part
                        label.append(("pattern", q.name if on_guard else p.name,
                                      "R" if on_guard else "G"))
                cls.invs.append(GInv(expr, label, f"{shape}:{guard}"))
                done = True
                break
            if not done:
                mode = "consistent"
        elif mode == "empty-set":
            done = False
            for cls in rng.sample(self.classes, len(self.classes)):
                targets = [p for p in cls.all_props if p.str_like or p.base == "enum"]
                if not targets:
                    continue
                p = rng.choice(targets)
                holders_p = [c for c in self.classes if p in c.all_props]
                pair = (["Kind_only_bb", "Kind_only_cc"] if p.base == "enum"
                        else ["Str_only_bb", "Str_no_bb"])
                rng.shuffle(pair)
                for st in pair:
                    target_cls = rng.choice(holders_p)
                    expr, guard = self.maybe_guard(p, f"self.{p.name} in {st}")
                    target_cls.invs.append(GInv(expr, [("set", p.name, "R")], f"R:set:{guard}"))
                done = True
                break
            if not done:
                mode = "consistent"
        self.m.mode = mode

    # -- rendering ----------------------------------------------------------------
    def render(self) -> str:
        rng = self.rng
        out: List[str] = [mmgen.IMPORTS, ""]
        out.append("class Kind(Enum):")
        for lit in self.enum_literals:
            out.append(f'    {lit} = "{lit.upper()}"')
        out += ["", ""]
        for name, values, subset in self.str_sets:
            vals = ", ".join(f'"{v}"' for v in values)
            sup = f", superset_of=[{subset}]" if subset else ""
            desc = ', description="A set."' if self.chance(0.3) else ""
            out.append(f"{name}: Set[str] = constant_set(values=[{vals}]{desc}{sup})")
        for name, values, subset in self.enum_sets:
            vals = ", ".join(f"Kind.{v}" for v in values)
            sup = f", superset_of=[{subset}]" if subset else ""
            out.append(f"{name}: Set[Kind] = constant_set(values=[{vals}]{sup})")
        out += ["", ""]
        for fn, pattern in self.patterns:
            out.append("@verification")
            out.append(f"def {fn}(text: str) -> bool:")
            if self.chance(0.5):
                out.append(f'    pattern = f"{mmgen.Generator.fstring_src(pattern)}"')
                out.append("    return match(pattern, text) is not None")
            else:
                escaped = pattern.replace("\\", "\\\\").replace('"', '\\"')
                out.append(f'    return match("{escaped}", text) is not None')
            out += ["", ""]
        out += ["@verification", "def is_long(text: str) -> bool:",
                "    return len(text) > 2", "", ""]

        counter = [0]

        def emit_invariants(owner: str, invs: List[GInv]) -> None:
            for inv in invs:
                counter[0] += 1
                desc = f"{owner} invariant {counter[0]}"
                self.m.labels[(owner, desc)] = inv
                self.m.shapes.append(inv.shape)
                if self.chance(0.3):
                    out.append("@invariant(")
                    out.append(f"    lambda self: {inv.expr},")
                    out.append(f'    "{desc}"')
                    out.append(")")
                else:
                    out.append(f'@invariant(lambda self: {inv.expr}, "{desc}")')

        for cp in self.cprims:
            emit_invariants(cp.name, cp.invs)
            out.append(f"class {cp.name}({', '.join(cp.bases)}, DBC):")
            out += ["    pass", "", ""]
        for cls in self.classes:
            emit_invariants(cls.name, cls.invs)
            if cls.abstract:
                out.append("@abstract")
            out.append(f"class {cls.name}({', '.join(cls.bases + ['DBC'])}):")
            for prop in cls.props:
                out.append(f"    {prop.name}: {prop.annotation()}")
            if cls.props:
                out.append("")
            required = [p for p in cls.all_props if not p.optional]
            optional = [p for p in cls.all_props if p.optional]
            if not cls.all_props:
                out += ["    pass", "", ""]
                continue
            out.append("    def __init__(")
            out.append("        self,")
            for p in required:
                out.append(f"        {p.name}: {p.annotation()},")
            for p in optional:
                out.append(f"        {p.name}: {p.annotation()} = None,")
            out.append("    ) -> None:")
            body = []
            for base in cls.bases:
                bc = next(c for c in self.classes if c.name == base)
                if bc.all_props:
                    args = ", ".join(f"{p.name}={p.name}" for p in bc.all_props)
                    body.append(f"        {base}.__init__(self, {args})")
            for p in cls.props:
                body.append(f"        self.{p.name} = {p.name}")
            out += body or ["        pass"]
            out += ["", ""]
        out.append('__version__ = "V0.1"')
        out.append('__xml_namespace__ = "https://dummy.com/gen"')
        out.append("")
        del rng
        return "\n".join(out)

    def generate(self) -> GenModel:
        self.gen_vocabulary()
        self.gen_cprims()
        self.gen_classes()
        self.gen_invariants()
        self.m.text = self.render()
        return self.m


def generate(rng: random.Random) -> GenModel:
    return Generator(rng).generate()
