"""
Verdict bookkeeping shared by all checks.

A check creates one :class:`Check`, feeds it observations and violations and calls
:meth:`Check.finish`, which writes the evidence file and decides the exit status:

* 0 — held on everything observed (KNOWN-FINDING lines may have been printed),
* 1 — at least one violation not listed in ``known_findings.json``
  (``VIOLATION property=<id> replay=<path>`` printed for each distinct mechanism),
* 2 — inconclusive (a deciding counter stayed below its threshold),
* 3 — harness error (two references disagree, a worker died, ...).
"""
import argparse
import hashlib
import json
import os
import pathlib
import random
import sys
import time
import traceback
from typing import Any, Dict, List, Optional, Sequence, Tuple

from vf import env

KNOWN_PATH = env.VERIF / "known_findings.json"
# runs against a seeded (mutated) tree are pointed elsewhere (tools/seedtest.py), so that
# they never overwrite the evidence of the unchanged tree
EVIDENCE_DIR = pathlib.Path(os.environ.get("VERIF_EVIDENCE_DIR") or env.VERIF / "evidence")
REPLAY_DIR = pathlib.Path(os.environ.get("VERIF_REPLAY_DIR") or env.VERIF / "replays")

MAX_VIOLATION_LINES = 25


def subseed(seed: int, *parts: Any) -> int:
    text = "/".join([str(seed)] + [str(p) for p in parts])
    return int.from_bytes(hashlib.sha256(text.encode()).digest()[:8], "big")


def jsonable(x: Any, depth: int = 0) -> Any:
    """Convert ``x`` to something json.dump accepts (lossy but readable)."""
    if depth > 8:
        return repr(x)[:200]
    if x is None or isinstance(x, (bool, int)):
        return x
    if isinstance(x, float):
        if x != x or x in (float("inf"), float("-inf")):
            return repr(x)
        return x
    if isinstance(x, str):
        try:
            x.encode("utf-8")
            return x if len(x) <= 200000 else x[:200000] + f"...[{len(x)} chars]"
        except UnicodeEncodeError:
            return "repr:" + ascii(x)
    if isinstance(x, (bytes, bytearray)):
        return "hex:" + bytes(x).hex()
    if isinstance(x, dict):
        return {str(k): jsonable(v, depth + 1) for k, v in list(x.items())[:200]}
    if isinstance(x, (list, tuple, set, frozenset)):
        seq = list(x)
        if isinstance(x, (set, frozenset)):
            seq = sorted(seq, key=repr)
        return [jsonable(v, depth + 1) for v in seq[:200]]
    return repr(x)[:400]


class Check:
    def __init__(
        self,
        property_id: str,
        level: str = "exploration",
        rule: str = "",
        argv: Optional[Sequence[str]] = None,
    ) -> None:
        parser = argparse.ArgumentParser(prog=f"vf.run {property_id}")
        parser.add_argument("--tier", choices=["quick", "thorough"], default=None)
        parser.add_argument("--seed", type=int, default=None)
        parser.add_argument("--replay", default=None)
        parser.add_argument("--budget", type=float, default=None, help="wall seconds")
        args = parser.parse_args(list(argv) if argv is not None else [])

        env.use_private_tmp()
        self.property_id = property_id
        self.level = level
        self.rule = rule
        self.tier = args.tier or os.environ.get("VERIF_TIER") or "quick"
        if self.tier not in ("quick", "thorough"):
            self.tier = "quick"
        seed_text = os.environ.get("VERIF_SEED", "")
        try:
            env_seed = int(seed_text) if seed_text.strip() else 0
        except ValueError:
            env_seed = int.from_bytes(
                hashlib.sha256(seed_text.encode()).digest()[:4], "big"
            )
        self.seed = args.seed if args.seed is not None else env_seed
        self.replay = args.replay
        self.budget = args.budget
        self.t0 = time.time()

        self.evaluations = 0
        self.distinct: set = set()
        self.samples: List[Any] = []
        self.max_samples = 8
        self.counters: Dict[str, int] = {}
        self.histograms: Dict[str, Dict[str, int]] = {}
        self.assumptions: List[str] = []
        self.extra: Dict[str, Any] = {}
        self.inconclusive: List[str] = []
        self.harness_errors: List[str] = []
        self.unavailable: List[str] = []

        self.violations: Dict[str, Dict[str, Any]] = {}  # key -> first witness
        self.violation_counts: Dict[str, int] = {}
        self.known_hits: Dict[str, int] = {}
        self.exhaustive: Optional[bool] = None

        self.known: Dict[str, Dict[str, Any]] = {}
        self.known_prefixes: List[Tuple[str, Dict[str, Any]]] = []
        # "contains": one defect that shows at many call sites (*e.g.*, every generator
        # asserts on an enumeration without literals); the key of the entry is the part of
        # the mechanism that names the defect, whatever the site
        self.known_contains: List[Tuple[str, Dict[str, Any]]] = []
        if KNOWN_PATH.exists():
            data = json.loads(KNOWN_PATH.read_text())
            for entry in data.get("findings", []):
                if entry.get("property") != property_id:
                    continue
                if entry.get("status", "known") != "known":
                    continue
                if entry.get("match") == "prefix":
                    self.known_prefixes.append((entry["key"], entry))
                elif entry.get("match") == "contains":
                    self.known_contains.append((entry["key"], entry))
                else:
                    self.known[entry["key"]] = entry

    # -- budget ---------------------------------------------------------
    def pick(self, quick: Any, thorough: Any) -> Any:
        return quick if self.tier == "quick" else thorough

    def wall_budget(self, quick: float, thorough: float) -> float:
        if self.budget is not None:
            return self.budget
        return quick if self.tier == "quick" else thorough

    def elapsed(self) -> float:
        return time.time() - self.t0

    def set_worker_minimums(self, minimums: Dict[str, int], n_workers: int) -> None:
        """Remember this worker's share of the minimum observation counts."""
        import math

        self.worker_minimums = {
            name: int(math.ceil(value / max(1, n_workers) * 1.25))
            for name, value in minimums.items()
        }

    def should_stop(self, budget: float, hard_factor: float = 4.0) -> bool:
        """
        Decide whether a worker should stop generating work.

        Past the wall budget a worker keeps going until it has contributed its share of
        the minimum observation counts (a loaded machine makes runs longer rather than
        inconclusive), but never beyond ``hard_factor`` times the budget.
        """
        elapsed = self.elapsed()
        if elapsed <= budget:
            return False
        if elapsed > budget * hard_factor:
            return True
        minimums = getattr(self, "worker_minimums", None)
        if not minimums:
            return True
        return all(self.counters.get(name, 0) >= value for name, value in minimums.items())

    def rng(self, *parts: Any) -> random.Random:
        return random.Random(subseed(self.seed, self.property_id, *parts))

    # -- observations ---------------------------------------------------
    def count(self, name: str, n: int = 1) -> None:
        self.counters[name] = self.counters.get(name, 0) + n

    def hist(self, name: str, key: Any, n: int = 1) -> None:
        h = self.histograms.setdefault(name, {})
        k = str(key)
        h[k] = h.get(k, 0) + n

    def case(self, distinct_key: Any = None, sample: Any = None, n: int = 1) -> None:
        """Record ``n`` evaluated cases; ``distinct_key`` (hashable) when non-trivial."""
        self.evaluations += n
        if distinct_key is not None:
            self.distinct.add(distinct_key)
        if sample is not None and len(self.samples) < self.max_samples:
            self.samples.append(jsonable(sample))

    def add_distinct(self, keys) -> None:
        self.distinct.update(keys)

    def sample(self, sample: Any) -> None:
        if len(self.samples) < self.max_samples:
            self.samples.append(jsonable(sample))

    def assume(self, text: str) -> None:
        if text not in self.assumptions:
            self.assumptions.append(text)

    def unavailable_leg(self, text: str) -> None:
        if text not in self.unavailable:
            self.unavailable.append(text)

    def require_min(self, counter: str, minimum: int) -> None:
        got = self.counters.get(counter, 0)
        if got < minimum:
            self.inconclusive.append(f"counter {counter}={got} < required {minimum}")

    def mark_inconclusive(self, why: str) -> None:
        self.inconclusive.append(why)

    def harness_error(self, why: str) -> None:
        self.harness_errors.append(why)

    # -- violations -----------------------------------------------------
    def _known_entry(self, key: str) -> Optional[Dict[str, Any]]:
        entry = self.known.get(key)
        if entry is not None:
            return entry
        for prefix, e in self.known_prefixes:
            if key.startswith(prefix):
                return e
        for part, e in self.known_contains:
            if part in key:
                return e
        return None

    def violation(self, key: str, witness: Dict[str, Any]) -> bool:
        """
        Record a violation with the mechanism ``key``.

        Return True if it is a *new* violation (not a known finding).
        """
        entry = self._known_entry(key)
        if entry is not None:
            k = entry["key"]
            self.known_hits[k] = self.known_hits.get(k, 0) + 1
            return False
        self.violation_counts[key] = self.violation_counts.get(key, 0) + 1
        if key not in self.violations:
            self.violations[key] = jsonable(witness)
        return True

    # -- merge results of workers ----------------------------------------
    def export(self) -> Dict[str, Any]:
        return {
            "evaluations": self.evaluations,
            "distinct": list(self.distinct),
            "samples": self.samples,
            "counters": self.counters,
            "histograms": self.histograms,
            "violations": self.violations,
            "violation_counts": self.violation_counts,
            "known_hits": self.known_hits,
            "inconclusive": self.inconclusive,
            "harness_errors": self.harness_errors,
            "unavailable": self.unavailable,
        }

    def merge(self, other: Dict[str, Any]) -> None:
        self.evaluations += other["evaluations"]
        for d in other["distinct"]:
            self.distinct.add(tuple(d) if isinstance(d, list) else d)
        for s in other["samples"]:
            if len(self.samples) < self.max_samples:
                self.samples.append(s)
        for k, v in other["counters"].items():
            self.counters[k] = self.counters.get(k, 0) + v
        for name, h in other["histograms"].items():
            for k, v in h.items():
                self.hist(name, k, v)
        for k, w in other["violations"].items():
            self.violations.setdefault(k, w)
        for k, v in other["violation_counts"].items():
            self.violation_counts[k] = self.violation_counts.get(k, 0) + v
        for k, v in other["known_hits"].items():
            self.known_hits[k] = self.known_hits.get(k, 0) + v
        self.inconclusive.extend(other["inconclusive"])
        self.harness_errors.extend(other["harness_errors"])
        for u in other["unavailable"]:
            self.unavailable_leg(u)

    # -- finish -----------------------------------------------------------
    def finish(self) -> int:
        wall = time.time() - self.t0
        EVIDENCE_DIR.mkdir(exist_ok=True)

        # An exception that left *repository* code and that the check did not expect
        # (its trace-back runs through aas_core_codegen/) is an observation about the
        # repository, not a failure of the harness: on the unchanged tree no check sees one.
        if not self.violations and self.harness_errors:
            marker = str(env.REPO / "aas_core_codegen") + "/"
            from_repo = [e for e in self.harness_errors if marker in e]
            if from_repo:
                last = [ln for ln in from_repo[0].strip().splitlines() if ln.strip()][-1]
                self.violation(
                    "uncaught-exception-from-repository|" + normalize_message(last, 70),
                    {"trace_backs": [e[-3000:] for e in from_repo[:3]]},
                )

        replay_paths: Dict[str, str] = {}
        if self.violations:
            rdir = REPLAY_DIR / self.property_id
            rdir.mkdir(parents=True, exist_ok=True)
            for key, witness in self.violations.items():
                h = hashlib.sha256(key.encode()).hexdigest()[:12]
                path = rdir / f"{h}.json"
                path.write_text(
                    json.dumps(
                        {
                            "property": self.property_id,
                            "mechanism": key,
                            "seed": self.seed,
                            "tier": self.tier,
                            "count": self.violation_counts.get(key, 1),
                            "witness": witness,
                        },
                        indent=1,
                        ensure_ascii=True,
                    )
                )
                replay_paths[key] = str(path)

        distinct_n = len(self.distinct)
        coverage: Dict[str, Any] = {
            "evaluations": self.evaluations,
            "distinct_nontrivial": distinct_n,
            "rule": self.rule,
            "samples": self.samples if self.samples else ["<none recorded>"],
            "counters": dict(sorted(self.counters.items())),
            "histograms": {
                name: dict(sorted(h.items(), key=lambda kv: -kv[1])[:40])
                for name, h in sorted(self.histograms.items())
            },
            "known_findings_hit": dict(sorted(self.known_hits.items())),
            "unavailable_legs": self.unavailable,
            "inconclusive_reasons": self.inconclusive,
            "harness_errors": self.harness_errors,
            "new_violation_mechanisms": sorted(self.violations.keys())[:50],
        }
        if self.exhaustive is not None:
            coverage["exhaustive"] = self.exhaustive
        coverage.update(self.extra)

        if self.violations:
            # a witnessed violation stands whatever else went wrong in the harness
            verdict, rc = "violated", 1
        elif self.harness_errors:
            verdict, rc = "harness-error", 3
        elif self.inconclusive or self.evaluations < 1 or distinct_n < 2:
            verdict, rc = "inconclusive", 2
            if not self.inconclusive:
                self.inconclusive.append(
                    f"too few observations: evaluations={self.evaluations}, "
                    f"distinct={distinct_n}"
                )
        else:
            verdict, rc = "held-on-observed", 0
        coverage["verdict"] = verdict

        evidence = {
            "property_id": self.property_id,
            "tier": self.tier,
            "seed": self.seed,
            "level": self.level,
            "coverage": coverage,
            "assumptions": self.assumptions,
            "wall_s": round(wall, 2),
            "violations": len(self.violations),
        }
        (EVIDENCE_DIR / f"{self.property_id}.json").write_text(
            json.dumps(evidence, indent=1, ensure_ascii=True, sort_keys=False) + "\n"
        )

        out = sys.stdout
        out.write(
            f"[{self.property_id}] tier={self.tier} seed={self.seed} "
            f"evaluations={self.evaluations} distinct_nontrivial={distinct_n} "
            f"wall={wall:.1f}s verdict={verdict}\n"
        )
        for name, val in sorted(self.counters.items()):
            out.write(f"  counter {name}={val}\n")
        for u in self.unavailable:
            out.write(f"  UNAVAILABLE-LEG: {u}\n")
        for key, n in sorted(self.known_hits.items()):
            entry = self._known_entry(key) or {}
            out.write(
                f"KNOWN-FINDING: property={self.property_id} {key} "
                f"({entry.get('what', '')}; seen {n}x)\n"
            )
        for why in self.inconclusive:
            out.write(f"INCONCLUSIVE: property={self.property_id} {why}\n")
        for why in self.harness_errors:
            out.write(f"HARNESS-ERROR: property={self.property_id} {why}\n")
        for i, (key, path) in enumerate(sorted(replay_paths.items())):
            if i >= MAX_VIOLATION_LINES:
                out.write(f"  ... {len(replay_paths) - i} more mechanisms\n")
                break
            out.write(f"VIOLATION property={self.property_id} replay={path}\n")
            out.write(f"  mechanism: {key} (x{self.violation_counts.get(key, 1)})\n")
        out.flush()
        return rc


def normalize_message(text: str, limit: int = 80) -> str:
    """Abstract quoted names, reprs and numbers away from a message."""
    import re

    text = re.sub(r"'[^']*'", "Q", text)
    text = re.sub(r'"[^"]*"', "Q", text)
    text = re.sub(r"<[^<>]* at 0x[0-9a-fA-F]+>", "OBJ", text)
    text = re.sub(r"0x[0-9a-fA-F]+", "HEX", text)
    text = re.sub(r"[0-9]+", "N", text)
    text = text[:limit]
    # a quote cut in half by the limit would make keys unstable
    for quote in ("'", '"'):
        if text.count(quote) % 2 == 1:
            text = text[: text.rindex(quote)]
    return text.strip()


def crash_signature(exc: BaseException, repo_root: str = str(env.REPO)) -> str:
    """Mechanism key of an escaped exception: class + innermost repo function."""
    tb = traceback.extract_tb(exc.__traceback__)
    inner = None
    for frame in tb:
        if frame.filename.startswith(repo_root) and "/aas_core_codegen/" in frame.filename:
            inner = frame
    cls = type(exc).__name__
    if inner is None:
        where = "outside-repo"
    else:
        rel = inner.filename.split("/aas_core_codegen/", 1)[1]
        where = f"{rel}:{inner.name}"
    head = ""
    if cls in ("ViolationError", "AssertionError", "NotImplementedError", "ValueError", "KeyError"):
        # First line of the contract/assertion text distinguishes contracts of
        # the same function; values (quoted names, numbers) are abstracted away.
        lines = [line.strip() for line in str(exc).strip().splitlines() if line.strip()]
        if cls == "ViolationError":
            # icontract: "File ..., line N in <module>:\n<condition>: ..."
            lines = [line for line in lines if not line.startswith("File ")]
        if lines:
            head = normalize_message(lines[0])
    if not head and inner is not None and inner.line:
        # a bare assert / exception without a message: the source line tells the
        # sites of one function apart
        head = normalize_message("at: " + inner.line.strip())
    key = f"{cls}@{where}"
    if head:
        key += f"|{head}"
    return key


def format_exc(exc: BaseException, limit: int = 12) -> str:
    return "".join(
        traceback.format_exception(type(exc), exc, exc.__traceback__, limit=-limit)
    )[-6000:]
