"""
E3 + E4: an independent reference front end and Python-semantics executor.

Nothing here imports ``aas_core_codegen``.  A meta-model is valid Python once the
marker names exist, so :class:`PyModel` (a) extracts the structure with ``ast`` only
and (b) ``exec``s the (lightly rewritten) source with shim markers so that invariant
lambdas, verification functions, constructors and constants are evaluated by Python
itself.
"""
import __future__

import ast
import enum
import re
import typing
from typing import Any, Dict, List, Optional, Sequence, Tuple

PRIMITIVES = ("bool", "int", "float", "str", "bytearray")


class TypeRef:
    """A declared type: atomic name, or List/Optional/Set of an inner type."""

    def __init__(self, kind: str, name: str = "", inner: Optional["TypeRef"] = None):
        self.kind = kind  # "atomic" | "list" | "optional" | "set" | "unknown"
        self.name = name
        self.inner = inner

    def __repr__(self) -> str:
        if self.kind == "atomic":
            return self.name
        if self.kind == "unknown":
            return f"?{self.name}"
        return f"{self.kind.capitalize()}[{self.inner!r}]"

    def __eq__(self, other: object) -> bool:
        return isinstance(other, TypeRef) and repr(self) == repr(other)

    def __hash__(self) -> int:
        return hash(repr(self))

    @property
    def optional(self) -> bool:
        return self.kind == "optional"

    def strip_optional(self) -> "TypeRef":
        return self.inner if self.kind == "optional" and self.inner else self


def parse_type(node: Optional[ast.AST]) -> TypeRef:
    if node is None:
        return TypeRef("unknown", "<none>")
    if isinstance(node, ast.Name):
        return TypeRef("atomic", node.id)
    if isinstance(node, ast.Constant) and isinstance(node.value, str):
        try:
            inner = ast.parse(node.value, mode="eval").body
        except SyntaxError:
            return TypeRef("unknown", node.value)
        return parse_type(inner)
    if isinstance(node, ast.Subscript) and isinstance(node.value, ast.Name):
        kind = {"List": "list", "Optional": "optional", "Set": "set"}.get(node.value.id)
        sub = node.slice
        if kind is not None and not isinstance(sub, ast.Tuple):
            return TypeRef(kind, inner=parse_type(sub))
    try:
        return TypeRef("unknown", ast.unparse(node))
    except Exception:
        return TypeRef("unknown", "<?>")


class RefInvariant:
    def __init__(self, body_src: str, description: Optional[str], lineno: int, node):
        self.body_src = body_src  # source of the lambda *body*
        self.description = description
        self.lineno = lineno
        self.node = node  # ast.Lambda
        self.func = None  # compiled callable, set after exec


class RefProp:
    def __init__(self, name: str, type_: TypeRef, lineno: int):
        self.name = name
        self.type = type_
        self.lineno = lineno


class RefArg:
    def __init__(self, name: str, type_: TypeRef, default: Optional[ast.AST]):
        self.name = name
        self.type = type_
        self.default = default


class RefMethod:
    def __init__(self, name: str, decorators: List[str], args: List[RefArg], returns: TypeRef, node):
        self.name = name
        self.decorators = decorators
        self.args = args
        self.returns = returns
        self.node = node

    @property
    def implementation_specific(self) -> bool:
        return "implementation_specific" in self.decorators


class RefClass:
    def __init__(self, name: str, node: ast.ClassDef):
        self.name = name
        self.node = node
        self.lineno = node.lineno
        self.bases: List[str] = []  # declared bases without DBC / primitives / Enum
        self.raw_bases: List[str] = []
        self.primitive_base: Optional[str] = None
        self.decorators: List[str] = []
        self.abstract = False
        self.implementation_specific = False
        self.own_with_model_type: Optional[bool] = None
        self.own_props: List[RefProp] = []
        self.own_invariants: List[RefInvariant] = []  # top-to-bottom source order
        self.own_methods: List[RefMethod] = []
        self.init: Optional[RefMethod] = None
        self.is_enum = False
        self.literals: List[Tuple[str, Any]] = []
        self.pyclass: Any = None


class RefFunction:
    def __init__(self, name: str, node: ast.FunctionDef):
        self.name = name
        self.node = node
        self.decorators = [_deco_name(d) for d in node.decorator_list]
        self.args = [
            RefArg(a.arg, parse_type(a.annotation), None) for a in node.args.args
        ]
        self.returns = parse_type(node.returns)
        self.pattern: Optional[str] = None  # for pattern functions, if constant
        self.func = None

    @property
    def implementation_specific(self) -> bool:
        return "implementation_specific" in self.decorators

    @property
    def is_verification(self) -> bool:
        return "verification" in self.decorators


class RefConstant:
    def __init__(self, name: str, type_: TypeRef, call: str, node):
        self.name = name
        self.type = type_
        self.call = call  # constant_set / constant_str / ...
        self.node = node
        self.superset_of: List[str] = []
        self.value: Any = None


def _deco_name(node: ast.AST) -> str:
    if isinstance(node, ast.Call):
        node = node.func
    if isinstance(node, ast.Name):
        return node.id
    if isinstance(node, ast.Attribute):
        return node.attr
    return ""


class _ConstantSet(frozenset):
    """Marker type so that nested ``superset_of`` references can be recognised."""


class ShimError(Exception):
    pass


class PyModel:
    """Structure (E3) and executable semantics (E4) of one meta-model text."""

    def __init__(self, text: str, execute: bool = True) -> None:
        self.text = text
        self.tree = ast.parse(text)
        self.classes: Dict[str, RefClass] = {}  # all ClassDefs incl. enums, cprims
        self.functions: Dict[str, RefFunction] = {}
        self.constants: Dict[str, RefConstant] = {}
        self.xml_namespace: Optional[str] = None
        self.version: Optional[str] = None
        self.order: List[str] = []  # class names in declaration order
        self.ns: Dict[str, Any] = {}
        self._extract()
        if execute:
            self._exec()

    # ---------------------------------------------------------------- E3
    def _extract(self) -> None:
        for node in self.tree.body:
            if isinstance(node, ast.ClassDef):
                self._extract_class(node)
            elif isinstance(node, ast.FunctionDef):
                fn = RefFunction(node.name, node)
                fn.pattern = _constant_pattern(node)
                self.functions[node.name] = fn
            elif isinstance(node, ast.AnnAssign) and isinstance(node.target, ast.Name):
                call = ""
                if isinstance(node.value, ast.Call) and isinstance(
                    node.value.func, ast.Name
                ):
                    call = node.value.func.id
                const = RefConstant(
                    node.target.id, parse_type(node.annotation), call, node
                )
                if isinstance(node.value, ast.Call):
                    for kw in node.value.keywords:
                        if kw.arg == "superset_of" and isinstance(kw.value, ast.List):
                            const.superset_of = [
                                e.id for e in kw.value.elts if isinstance(e, ast.Name)
                            ]
                    if (
                        call == "constant_set"
                        and len(node.value.args) >= 3
                        and isinstance(node.value.args[2], ast.List)
                    ):
                        const.superset_of = [
                            e.id
                            for e in node.value.args[2].elts
                            if isinstance(e, ast.Name)
                        ]
                self.constants[node.target.id] = const
            elif isinstance(node, ast.Assign):
                for target in node.targets:
                    if isinstance(target, ast.Name) and isinstance(
                        node.value, ast.Constant
                    ):
                        if target.id == "__xml_namespace__":
                            self.xml_namespace = node.value.value
                        elif target.id == "__version__":
                            self.version = node.value.value

    def _extract_class(self, node: ast.ClassDef) -> None:
        cls = RefClass(node.name, node)
        self.order.append(node.name)
        for base in node.bases:
            if not isinstance(base, ast.Name):
                cls.raw_bases.append(ast.unparse(base))
                continue
            cls.raw_bases.append(base.id)
            if base.id == "DBC":
                continue
            if base.id == "Enum":
                cls.is_enum = True
                continue
            if base.id in PRIMITIVES:
                cls.primitive_base = base.id
                continue
            cls.bases.append(base.id)
        for deco in node.decorator_list:
            name = _deco_name(deco)
            cls.decorators.append(name)
            if name == "abstract":
                cls.abstract = True
            elif name == "implementation_specific":
                cls.implementation_specific = True
            elif name == "serialization" and isinstance(deco, ast.Call):
                for kw in deco.keywords:
                    if kw.arg == "with_model_type" and isinstance(kw.value, ast.Constant):
                        cls.own_with_model_type = bool(kw.value.value)
            elif name == "invariant" and isinstance(deco, ast.Call):
                cond = deco.args[0] if deco.args else None
                desc_node = deco.args[1] if len(deco.args) > 1 else None
                for kw in deco.keywords:
                    if kw.arg == "condition":
                        cond = kw.value
                    elif kw.arg == "description":
                        desc_node = kw.value
                desc = None
                if desc_node is not None:
                    try:
                        desc = ast.literal_eval(desc_node)
                    except Exception:
                        desc = None
                if isinstance(cond, ast.Lambda):
                    cls.own_invariants.append(
                        RefInvariant(ast.unparse(cond.body), desc, deco.lineno, cond)
                    )
        for item in node.body:
            if isinstance(item, ast.AnnAssign) and isinstance(item.target, ast.Name):
                cls.own_props.append(
                    RefProp(item.target.id, parse_type(item.annotation), item.lineno)
                )
            elif isinstance(item, ast.Assign) and cls.is_enum:
                for target in item.targets:
                    if isinstance(target, ast.Name):
                        try:
                            cls.literals.append(
                                (target.id, ast.literal_eval(item.value))
                            )
                        except Exception:
                            cls.literals.append((target.id, None))
            elif isinstance(item, ast.FunctionDef):
                args = []
                positional = item.args.args
                defaults = [None] * (len(positional) - len(item.args.defaults)) + list(
                    item.args.defaults
                )
                for arg, default in zip(positional, defaults):
                    if arg.arg == "self":
                        continue
                    args.append(RefArg(arg.arg, parse_type(arg.annotation), default))
                method = RefMethod(
                    item.name,
                    [_deco_name(d) for d in item.decorator_list],
                    args,
                    parse_type(item.returns),
                    item,
                )
                if item.name == "__init__":
                    cls.init = method
                else:
                    cls.own_methods.append(method)
        self.classes[node.name] = cls

    # -- derived structure (reference semantics = Python's own inheritance) -----
    def primitive_of(self, name: str, _seen: Tuple[str, ...] = ()) -> Optional[str]:
        """Return the primitive a class constrains, if it is a constrained primitive."""
        if name in PRIMITIVES:
            return name
        cls = self.classes.get(name)
        if cls is None or name in _seen:
            return None
        if cls.primitive_base is not None:
            return cls.primitive_base
        for base in cls.bases:
            prim = self.primitive_of(base, _seen + (name,))
            if prim is not None:
                return prim
        return None

    def is_constrained_primitive(self, name: str) -> bool:
        return name not in PRIMITIVES and self.primitive_of(name) is not None

    def is_enum(self, name: str) -> bool:
        cls = self.classes.get(name)
        return cls is not None and cls.is_enum

    def is_class(self, name: str) -> bool:
        cls = self.classes.get(name)
        return (
            cls is not None and not cls.is_enum and self.primitive_of(name) is None
        )

    def ancestors(self, name: str) -> List[str]:
        """Transitive closure of declared bases (set semantics, deterministic order)."""
        result: List[str] = []
        seen = set()

        def visit(n: str) -> None:
            cls = self.classes.get(n)
            if cls is None:
                return
            for base in cls.bases:
                if base not in seen and base in self.classes:
                    seen.add(base)
                    visit(base)
                    result.append(base)

        visit(name)
        return result

    def descendants(self, name: str) -> List[str]:
        return [n for n in self.order if name in self.ancestors(n)]

    def concrete_descendants(self, name: str) -> List[str]:
        return [n for n in self.descendants(name) if not self.classes[n].abstract]

    def all_props(self, name: str) -> List[Tuple[str, RefProp]]:
        """Inherited (ancestors first, de-duplicated) then own: (declaring class, prop)."""
        result: List[Tuple[str, RefProp]] = []
        seen = set()
        for anc in self.ancestors(name) + [name]:
            for prop in self.classes[anc].own_props:
                if prop.name not in seen:
                    seen.add(prop.name)
                    result.append((anc, prop))
        return result

    def all_invariants(self, name: str) -> List[Tuple[str, RefInvariant]]:
        result = []
        for anc in self.ancestors(name) + [name]:
            for inv in self.classes[anc].own_invariants:
                result.append((anc, inv))
        return result

    def with_model_type(self, name: str) -> bool:
        """``with_model_type`` as propagated down the hierarchy (set anywhere above)."""
        for n in [name] + self.ancestors(name):
            if self.classes[n].own_with_model_type:
                return True
        return False

    def init_args(self, name: str) -> Optional[List[RefArg]]:
        """Arguments of the effective constructor (own or the nearest inherited one)."""
        cls = self.classes[name]
        if cls.init is not None:
            return cls.init.args
        return None

    # ---------------------------------------------------------------- E4
    def _exec(self) -> None:
        tree = ast.parse(self.text)
        body = []
        for node in tree.body:
            if isinstance(node, (ast.Import, ast.ImportFrom)):
                continue
            if isinstance(node, ast.ClassDef):
                new_bases = []
                for base in node.bases:
                    if isinstance(base, ast.Name) and (
                        base.id == "DBC" or base.id in PRIMITIVES
                    ):
                        continue
                    new_bases.append(base)
                node.bases = new_bases
            body.append(node)
        tree.body = self._bases_first(body)
        ast.fix_missing_locations(tree)
        code = compile(
            tree,
            "<meta-model>",
            "exec",
            flags=__future__.annotations.compiler_flag,
            dont_inherit=True,
        )
        ns = self._shim_namespace()
        exec(code, ns)  # noqa: S102 - the meta-model is Python by construction
        self.ns = ns
        for name, cls in self.classes.items():
            cls.pyclass = ns.get(name)
            # decorators apply bottom-up; we recorded top-to-bottom
            recorded = list(reversed(ns["__invariants__"].get(name, [])))
            if len(recorded) == len(cls.own_invariants):
                for inv, (func, desc) in zip(cls.own_invariants, recorded):
                    inv.func = func
                    if inv.description is None:
                        inv.description = desc
        for name, fn in self.functions.items():
            fn.func = ns.get(name)
        for name, const in self.constants.items():
            const.value = ns.get(name)

    @staticmethod
    def _bases_first(body: List[ast.stmt]) -> List[ast.stmt]:
        """
        Move class definitions behind their bases (stable otherwise).

        The front end resolves base classes by name, so a meta-model may name a base
        that is defined further down; Python itself needs the bases first.
        """
        classes = {n.name: n for n in body if isinstance(n, ast.ClassDef)}
        placed: List[ast.stmt] = []
        done: set = set()

        def place(node: ast.ClassDef, stack: Tuple[str, ...] = ()) -> None:
            if node.name in done or node.name in stack:
                return
            for base in node.bases:
                if isinstance(base, ast.Name) and base.id in classes:
                    place(classes[base.id], stack + (node.name,))
            done.add(node.name)
            placed.append(node)

        def is_enum(node: ast.stmt) -> bool:
            return isinstance(node, ast.ClassDef) and any(
                isinstance(b, ast.Name) and b.id == "Enum" for b in node.bases
            )

        # enumerations first: constants defined at module level may refer to them
        for node in body:
            if is_enum(node):
                place(node)
        for node in body:
            if isinstance(node, ast.ClassDef):
                place(node)
            else:
                placed.append(node)
        return placed

    def _shim_namespace(self) -> Dict[str, Any]:
        invariants: Dict[str, List[Tuple[Any, Any]]] = {}

        def invariant(condition=None, description=None, **kwargs):
            def decorator(cls):
                invariants.setdefault(cls.__name__, []).append((condition, description))
                return cls

            return decorator

        def mark(func_or_cls=None, **kwargs):
            return func_or_cls

        def serialization(**kwargs):
            def decorator(cls):
                return cls

            return decorator

        def contract(*args, **kwargs):
            def decorator(func):
                return func

            return decorator

        def constant_set(values=None, description=None, superset_of=None, *rest, **kw):
            if rest or kw:
                raise ShimError("unexpected arguments to constant_set")
            result = set(values if values is not None else [])
            for subset in superset_of or []:
                result |= set(subset)
            return _ConstantSet(result)

        def constant_value(value=None, description=None, *rest, **kw):
            if rest or kw:
                raise ShimError("unexpected arguments to constant_*")
            return value

        ns: Dict[str, Any] = {
            "__name__": "meta_model",
            "__invariants__": invariants,
            "Enum": enum.Enum,
            "match": re.match,
            "List": typing.List,
            "Optional": typing.Optional,
            "Set": typing.Set,
            "invariant": invariant,
            "ensure": contract,
            "require": contract,
            "abstract": mark,
            "implementation_specific": mark,
            "verification": mark,
            "non_mutating": mark,
            "serialization": serialization,
            "constant_set": constant_set,
            "constant_str": constant_value,
            "constant_int": constant_value,
            "constant_float": constant_value,
            "constant_bool": constant_value,
            "constant_bytearray": constant_value,
        }
        return ns

    # -- instances -----------------------------------------------------------
    def new_instance(self, cls_name: str, values: Dict[str, Any]) -> Any:
        """Build a shadow instance by direct attribute assignment (no constructor)."""
        pycls = self.classes[cls_name].pyclass
        obj = object.__new__(pycls)
        for key, value in values.items():
            object.__setattr__(obj, key, value)
        return obj

    def construct(self, cls_name: str, kwargs: Dict[str, Any]) -> Any:
        """Build an instance through the meta-model's own ``__init__`` chain."""
        pycls = self.classes[cls_name].pyclass
        return pycls(**kwargs)


def _constant_pattern(node: ast.FunctionDef) -> Optional[str]:
    """
    Evaluate the pattern of a *pattern verification function* if it is built only
    from string constants and f-strings over previously assigned string variables.
    """
    env: Dict[str, str] = {}
    body = [
        stmt
        for stmt in node.body
        if not (
            isinstance(stmt, ast.Expr)
            and isinstance(stmt.value, ast.Constant)
            and isinstance(stmt.value.value, str)
        )
    ]
    if not body or not isinstance(body[-1], ast.Return):
        return None
    for stmt in body[:-1]:
        if not (
            isinstance(stmt, ast.Assign)
            and len(stmt.targets) == 1
            and isinstance(stmt.targets[0], ast.Name)
        ):
            return None
        try:
            value = eval(  # noqa: S307
                compile(ast.Expression(stmt.value), "<pattern>", "eval"), {}, dict(env)
            )
        except Exception:
            return None
        if not isinstance(value, str):
            return None
        env[stmt.targets[0].id] = value
    ret = body[-1].value
    # expected: match(<pattern>, <arg>) is not None
    if (
        isinstance(ret, ast.Compare)
        and isinstance(ret.left, ast.Call)
        and isinstance(ret.left.func, ast.Name)
        and ret.left.func.id == "match"
        and len(ret.left.args) == 2
    ):
        try:
            value = eval(  # noqa: S307
                compile(ast.Expression(ret.left.args[0]), "<pattern>", "eval"),
                {},
                dict(env),
            )
        except Exception:
            return None
        if isinstance(value, str):
            return value
    return None
