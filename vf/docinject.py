"""
Workload engine of C20: put *hostile text* into every place of a meta-model from which
the generators copy text into generated files.

* :class:`Sites` finds those places in **any** meta-model text with ``ast`` (docstrings of
  the module, classes, enumerations, constrained primitives, properties, enumeration
  literals, functions and methods; ``description=`` of constants; invariant messages;
  ``constant_str`` values; string members of ``constant_set``; enumeration literal values;
  pattern strings of verification functions) and splices new Python literals there.
* :func:`build_doc` writes reStructuredText descriptions which use every docutils
  construct that ``aas_core_codegen.intermediate.doc.DocutilsElementTransformer``
  dispatches on (text, ``:class:``/``:attr:``/``:paramref:``/``:constraintref:``/
  ``:const:`` roles, literal, paragraph, emphasis, bullet list / list item, note,
  hyper-reference, field bodies of ``:constraint X:``/``:param x:``/``:returns:``) and
  plants a *payload* in a chosen set of contexts.

Nothing here imports ``aas_core_codegen``; which texts the front end admits is decided by
calling the real front end (see ``vf.checks.c20``).
"""
import ast
import re
from typing import Dict, List, Optional, Sequence, Tuple

# ---------------------------------------------------------------------------------
# Payloads
# ---------------------------------------------------------------------------------

# name -> text.  The names appear in mechanism keys and must stay stable.
PAYLOADS_CORE: Dict[str, str] = {
    "double-quote": '"',
    "single-quote": "'",
    "triple-double-quote": '"""',
    "backslash": "\\",
    "backslash-n": "\\n",
    "backslash-u": "\\user",
    "backslash-double-quote": '\\"',
    "star-slash": "*/",
    "slash-star": "/*",
    "slash-slash": "//",
    "xml-close-summary": "</summary>",
    "ampersand": "&",
    "less-than": "<",
    "cdata-end": "]]>",
    "xml-comment-open": "<!--",
    "javadoc-inline-tag": "{@",
    "dollar-brace": "${",
    "backtick": "`",
    "percent-s": "%s",
    "brace-open": "{",
    "brace-close": "}",
    "newline": "\n",
    "carriage-return": "\r",
    "line-separator": "\u2028",
}

PAYLOADS_EXTRA: Dict[str, str] = {
    "triple-single-quote": "'''",
    "four-double-quotes": '""""',
    "backslash-x": "\\x",
    "backslash-single-quote": "\\'",
    "double-backslash": "\\\\",
    "xml-open-summary": "<summary>",
    "greater-than": ">",
    "entity-amp": "&amp;",
    "entity-unknown": "&nosuch;",
    "xml-comment-close": "-->",
    "xml-pi": "<?x",
    "javadoc-link": "{@link x}",
    "javadoc-code-close": "{@code x}}",
    "at-sign": "@param",
    "template-hole": "${x}",
    "format-hole": "{0}",
    "double-brace": "{{",
    "percent": "%",
    "percent-d": "%d",
    "hash": "#",
    "dollar": "$",
    "tab": "\t",
    "nul": "\x00",
    "delete": "\x7f",
    "non-ascii": "\u00e9\u00df",
    "astral": "\U0001F600",
    "paragraph-separator": "\u2029",
    "next-line": "\u0085",
    "byte-order-mark": "\ufeff",
    "question-greater": "?>",
    "pipe": "|",
    "semicolon-brace": ";}",
    "quote-plus": '" + "',
    "quote-semicolon": '";',
}

# Payloads for the pattern category are fragments of *regular expressions* (they must
# stay valid patterns for the front end's regex parser).
PAYLOADS_PATTERN: Dict[str, str] = {
    "double-quote": '"',
    "single-quote": "'",
    "slash": "/",
    "backtick": "`",
    "dollar-brace": "\\$\\{",
    "percent-s": "%s",
    "escaped-backslash": "\\\\",
    "escaped-dot": "\\.",
    "hash": "#",
    "at-sign": "@",
    "less-than": "<",
    "ampersand": "&",
    "star-slash": "[*]/",
    "brace-quantifier": "x{2}",
    "non-ascii": "\u00e9",
    "astral": "\U0001F600",
    "hex-escape": "\\x22",
    "unicode-escape": "\\u0027",
}

CATEGORIES = [
    "description-inner",
    "description-trailing",
    "invariant-message",
    "constant-str-value",
    "constant-set-value",
    "enum-literal-value",
    "constraint-id",
    "pattern",
]

RST_SPECIAL = set("\\*`|_")


def rst_escape(text: str) -> str:
    """Backslash-escape the characters reStructuredText would interpret."""
    return "".join("\\" + ch if ch in RST_SPECIAL else ch for ch in text)


# Contexts of the description categories: name -> (template, escape?).
# ``{P}`` is replaced by the payload (raw or reST-escaped).
INNER_CONTEXTS: Dict[str, Tuple[str, bool]] = {
    "text-glued": ("some word{P}word here", False),
    "text-spaced": ("some word {P} word here", False),
    "text-glued-escaped": ("some word{P}word here", True),
    "text-spaced-escaped": ("some word {P} word here", True),
    "literal": ("some ``code{P}code`` here", False),
    "literal-spaced": ("some ``code {P} code`` here", False),
    "emphasis": ("some *very{P}much* here", False),
    "emphasis-escaped": ("some *very{P}much* here", True),
    "hyperlink": ("see https://example.com/a{P}b for more", False),
    "bullet": ("* first item{P}item\n* second ``item {P}`` item", False),
    "bullet-escaped": ("* first item{P}item\n* second item", True),
    "note": (".. note::\n\n    Mind the gap{P}gap here.", False),
    "note-escaped": (".. note::\n\n    Mind the gap{P}gap here.", True),
}

TRAILING_CONTEXTS: Dict[str, Tuple[str, bool]] = {
    "trail-spaced": ("ends with {P}", False),
    "trail-glued": ("ends with{P}", False),
    "trail-spaced-escaped": ("ends with {P}", True),
    "trail-glued-escaped": ("ends with{P}", True),
    "trail-literal": ("ends with ``code{P}``", False),
}


def fill(template: str, payload: str, escaped: bool) -> str:
    return template.replace("{P}", rst_escape(payload) if escaped else payload)


# ---------------------------------------------------------------------------------
# Sites
# ---------------------------------------------------------------------------------

CONSTANT_FUNCS = {
    "constant_bool", "constant_int", "constant_float", "constant_str",
    "constant_bytearray", "constant_set",
}
PRIMITIVES = {"bool", "int", "float", "str", "bytearray"}


class Site:
    def __init__(self, kind: str, node: ast.Constant, owner: str = "", name: str = "") -> None:
        self.kind = kind
        self.node = node
        self.owner = owner  # enclosing class / enum name, or ""
        self.name = name  # entity name
        self.args: List[str] = []  # argument names (signatures)
        self.returns = False
        self.original = node.value


def _call_name(node: ast.AST) -> str:
    if isinstance(node, ast.Call):
        node = node.func
    if isinstance(node, ast.Name):
        return node.id
    if isinstance(node, ast.Attribute):
        return node.attr
    return ""


def _is_str(node: Optional[ast.AST]) -> bool:
    return isinstance(node, ast.Constant) and isinstance(node.value, str)


class Sites:
    """All text-bearing places of one meta-model."""

    def __init__(self, text: str) -> None:
        self.text = text
        self.tree = ast.parse(text)
        self.sites: List[Site] = []
        self.classes: List[str] = []  # classes proper (not enums / constrained primitives)
        self.enums: Dict[str, List[str]] = {}
        self.cprims: List[str] = []
        self.props: Dict[str, List[str]] = {}
        self.constants: List[str] = []
        self._scan()

    # -- discovery ---------------------------------------------------------------
    def _scan(self) -> None:
        body = self.tree.body
        bases_of: Dict[str, List[str]] = {}
        for node in body:
            if isinstance(node, ast.ClassDef):
                bases_of[node.name] = [b.id for b in node.bases if isinstance(b, ast.Name)]

        def constrained(name: str, seen: Tuple[str, ...] = ()) -> bool:
            if name in PRIMITIVES:
                return True
            if name in seen:
                return False
            return any(constrained(b, seen + (name,)) for b in bases_of.get(name, []))

        if body and isinstance(body[0], ast.Expr) and _is_str(body[0].value):
            self.sites.append(Site("doc-module", body[0].value))
        for node in body:
            if isinstance(node, ast.FunctionDef):
                self._function(node, "doc-function", "")
                for sub in node.body:
                    if (
                        isinstance(sub, ast.Assign)
                        and len(sub.targets) == 1
                        and isinstance(sub.targets[0], ast.Name)
                        and sub.targets[0].id == "pattern"
                        and isinstance(sub.value, ast.JoinedStr)
                        and len(sub.value.values) == 1
                        and _is_str(sub.value.values[0])
                    ):
                        site = Site("pattern", sub.value.values[0], "", node.name)
                        site.fstring = sub.value  # type: ignore
                        self.sites.append(site)
            elif isinstance(node, ast.AnnAssign) and isinstance(node.target, ast.Name):
                if isinstance(node.value, ast.Call) and _call_name(node.value) in CONSTANT_FUNCS:
                    self.constants.append(node.target.id)
                    self._constant(node.target.id, node.value)
            elif isinstance(node, ast.ClassDef):
                is_enum = "Enum" in bases_of.get(node.name, [])
                is_cprim = not is_enum and constrained(node.name)
                if is_enum:
                    self.enums[node.name] = []
                elif is_cprim:
                    self.cprims.append(node.name)
                else:
                    self.classes.append(node.name)
                    self.props[node.name] = []
                for deco in node.decorator_list:
                    if isinstance(deco, ast.Call) and _call_name(deco) == "invariant":
                        message = None
                        if len(deco.args) >= 2 and _is_str(deco.args[1]):
                            message = deco.args[1]
                        for kw in deco.keywords:
                            if kw.arg == "description" and _is_str(kw.value):
                                message = kw.value
                        if message is not None:
                            self.sites.append(Site("inv-message", message, node.name))
                kind = "doc-enum" if is_enum else "doc-cprim" if is_cprim else "doc-class"
                items = node.body
                if items and isinstance(items[0], ast.Expr) and _is_str(items[0].value):
                    self.sites.append(Site(kind, items[0].value, node.name, node.name))
                for i, item in enumerate(items):
                    follower = items[i + 1] if i + 1 < len(items) else None
                    has_doc = isinstance(follower, ast.Expr) and _is_str(follower.value)
                    if is_enum and isinstance(item, ast.Assign) and len(item.targets) == 1 \
                            and isinstance(item.targets[0], ast.Name):
                        literal = item.targets[0].id
                        self.enums[node.name].append(literal)
                        if _is_str(item.value):
                            self.sites.append(Site("enum-value", item.value, node.name, literal))
                        if has_doc:
                            self.sites.append(Site("doc-literal", follower.value, node.name, literal))
                    elif isinstance(item, ast.AnnAssign) and isinstance(item.target, ast.Name) \
                            and not is_enum and not is_cprim:
                        self.props[node.name].append(item.target.id)
                        if has_doc:
                            self.sites.append(
                                Site("doc-property", follower.value, node.name, item.target.id)
                            )
                    elif isinstance(item, ast.FunctionDef) and item.name != "__init__":
                        self._function(item, "doc-method", node.name)

    def _function(self, node: ast.FunctionDef, kind: str, owner: str) -> None:
        if node.body and isinstance(node.body[0], ast.Expr) and _is_str(node.body[0].value):
            site = Site(kind, node.body[0].value, owner, node.name)
            site.args = [a.arg for a in node.args.args if a.arg != "self"]
            site.returns = not (
                node.returns is None
                or (isinstance(node.returns, ast.Constant) and node.returns.value is None)
            )
            self.sites.append(site)

    def _constant(self, name: str, call: ast.Call) -> None:
        func = _call_name(call)
        for kw in call.keywords:
            if kw.arg == "description" and _is_str(kw.value):
                self.sites.append(Site("doc-constant", kw.value, "", name))
            if func == "constant_str" and kw.arg == "value" and _is_str(kw.value):
                self.sites.append(Site("const-str", kw.value, "", name))
            if func == "constant_set" and kw.arg == "values" and isinstance(kw.value, ast.List):
                # only sets that no other set names as its subset (keep models valid)
                for element in kw.value.elts:
                    if _is_str(element):
                        self.sites.append(Site("const-set-str", element, "", name))

    # -- splicing ----------------------------------------------------------------
    def render(self, replacements: Dict[int, str]) -> str:
        """Return the text with ``sites[i]`` replaced by the *source* ``replacements[i]``."""
        lines = self.text.split("\n")
        blines = [line.encode("utf-8") for line in lines]
        starts = [0]
        for b in blines:
            starts.append(starts[-1] + len(b) + 1)
        data = "\n".join(lines).encode("utf-8")
        edits = []
        for index, source in replacements.items():
            node = self.sites[index].node
            target = getattr(self.sites[index], "fstring", node)
            begin = starts[target.lineno - 1] + target.col_offset
            end = starts[target.end_lineno - 1] + target.end_col_offset
            edits.append((begin, end, source.encode("utf-8")))
        edits.sort(reverse=True)
        previous_begin = None
        for begin, end, source in edits:
            assert previous_begin is None or end <= previous_begin, "overlapping sites"
            data = data[:begin] + source + data[end:]
            previous_begin = begin
        return data.decode("utf-8")


def py_literal(value: str) -> str:
    """Python source of a string constant with the given value (always one line)."""
    literal = repr(value)
    # ``repr`` leaves U+2028 etc. printable; make everything outside ASCII an escape so
    # that the meta-model source itself stays harmless.
    out = []
    for ch in literal:
        code = ord(ch)
        if code < 128:
            out.append(ch)
        elif code <= 0xFFFF:
            out.append("\\u%04x" % code)
        else:
            out.append("\\U%08x" % code)
    return "".join(out)


def fstring_literal(value: str) -> str:
    """Python source of an f-string without replacement fields whose value is ``value``."""
    body = py_literal(value)
    quote = body[0]
    inner = body[1:-1].replace("{", "{{").replace("}", "}}")
    return "f" + quote + inner + quote


# ---------------------------------------------------------------------------------
# Descriptions
# ---------------------------------------------------------------------------------

SUMMARY_VERBS = ["Represent", "Describe", "Provide", "Identify", "Define", "Check"]
NOUNS = ["thing", "element", "value", "item", "entry", "part", "unit", "record"]

SUPPORTS_CONSTRAINTS = {"doc-module", "doc-class", "doc-enum", "doc-cprim", "doc-property"}
SIGNATURES = {"doc-function", "doc-method"}


class Names:
    """What a description may refer to."""

    def __init__(self, sites: Sites) -> None:
        self.types = sites.classes + list(sites.enums) + sites.cprims
        self.props = [(c, p) for c, ps in sites.props.items() for p in ps]
        self.literals = [(e, l) for e, ls in sites.enums.items() for l in ls]
        self.constants = list(sites.constants)


def reference_paragraph(site: Site, names: Names, rng, constraint_ids: Sequence[str]) -> str:
    """A remark that uses every reference role the front end registers."""
    parts = ["This relates to"]
    if names.types:
        parts.append(f":class:`{rng.choice(names.types)}`,")
    if names.props:
        cls, prop = rng.choice(names.props)
        if cls == site.owner and site.kind in ("doc-class", "doc-property", "doc-method"):
            parts.append(f":attr:`{prop}` and")
        parts.append(f":attr:`{cls}.{prop}`,")
    if names.literals:
        enum, literal = rng.choice(names.literals)
        parts.append(f":attr:`{enum}.{literal}`,")
    if names.constants:
        parts.append(f":const:`{rng.choice(names.constants)}`,")
    if constraint_ids:
        parts.append(f":constraintref:`{rng.choice(list(constraint_ids))}`,")
    if site.kind in SIGNATURES and site.args:
        parts.append(f":paramref:`{rng.choice(site.args)}`,")
    parts.append("*emphasized* text, ``literal`` text and https://example.com/some/path here.")
    return " ".join(parts)


def build_doc(
    site: Site,
    names: Names,
    rng,
    counter: int,
    payload: Optional[str] = None,
    inner: Sequence[str] = (),
    trailing: Optional[str] = None,
    constraint_id: Optional[str] = None,
    known_constraints: Sequence[str] = (),
    shape: int = 0,
) -> str:
    """
    Write a description for ``site``.

    ``inner``: names of INNER_CONTEXTS that carry the payload; ``trailing``: name of the
    TRAILING_CONTEXTS entry that ends the *whole* description (``shape`` selects whether
    that end is the summary, a remark or a field body).  ``constraint_id``: define a
    constraint with this identifier (only where constraints are admitted).
    """
    verb = "Check" if site.kind in SIGNATURES else rng.choice(SUMMARY_VERBS[:5])
    noun = rng.choice(NOUNS)
    p = payload or ""
    blocks: List[str] = []

    summary = f"{verb} the {noun} number {counter}"
    trailing_text = None
    if trailing:
        trailing_template, trailing_escaped = _ctx(TRAILING_CONTEXTS, trailing)
        trailing_text = fill(trailing_template, p, trailing_escaped)

    def with_inner(prefix: str, names_: Sequence[str]) -> List[str]:
        result = []
        for name in names_:
            template, escaped = INNER_CONTEXTS[name]
            piece = fill(template, p, escaped)
            if name.startswith(("bullet", "note")):
                result.append(piece)
            else:
                result.append(f"{prefix} {piece}.")
        return result

    fields_allowed = site.kind in SUPPORTS_CONSTRAINTS or site.kind in SIGNATURES

    if trailing_text is not None and (shape % 3 == 0 or (shape % 3 == 2 and not fields_allowed)):
        # the summary is the whole description and ends with the payload
        return f"{summary} that {trailing_text}"

    inline = [n for n in inner if not n.startswith(("bullet", "note"))]
    blockish = [n for n in inner if n.startswith(("bullet", "note"))]
    if inline:
        template, escaped = INNER_CONTEXTS[inline[0]]
        summary += " with " + fill(template, p, escaped)
    blocks.append(summary + ".")
    blocks.append(reference_paragraph(site, names, rng, known_constraints))
    blocks.extend(with_inner("Furthermore, there is", inline[1:]))
    blocks.extend(with_inner("", blockish))

    if trailing_text is not None and shape % 3 == 1:
        blocks.append(f"The last remark {trailing_text}")
        return "\n\n".join(blocks)

    fields: List[str] = []
    field_payload = ""
    if inline:
        template, escaped = INNER_CONTEXTS[inline[-1]]
        field_payload = " with " + fill(template, p, escaped)
    if site.kind in SUPPORTS_CONSTRAINTS and constraint_id is not None:
        body = f"The {noun} shall be fine{field_payload}."
        if trailing_text is not None:
            body = f"The {noun} shall be fine and {trailing_text}"
        fields.append(f":constraint {constraint_id}:\n\n    {body}")
    elif site.kind in SIGNATURES:
        for arg in site.args:
            fields.append(f":param {arg}: the {noun} to be checked{field_payload}")
        if site.returns:
            fields.append(f":returns: the result of the check{field_payload}")
        if trailing_text is not None and fields:
            fields[-1] = fields[-1] + " and " + trailing_text
    if fields:
        blocks.append("\n".join(fields))
    elif trailing_text is not None:
        blocks.append(f"The last remark {trailing_text}")
    return "\n\n".join(blocks)


def _ctx(table: Dict[str, Tuple[str, bool]], name: Optional[str]) -> Tuple[str, bool]:
    assert name is not None
    return table[name]


# ---------------------------------------------------------------------------------
# The base model that has every kind of site ("kitchen sink")
# ---------------------------------------------------------------------------------

KITCHEN_SINK = '''"""
Provide a meta-model for testing.

Some remark about :class:`Concrete_thing`.
"""

from enum import Enum
from re import match
from typing import List, Optional, Set

from icontract import invariant, DBC, ensure

from aas_core_meta.marker import (
    abstract,
    serialization,
    implementation_specific,
    verification,
    constant_set,
    non_mutating,
)

__version__ = "V1"

__xml_namespace__ = "https://dummy.com/gen"


@verification
def matches_something(text: str) -> bool:
    """
    Check that :paramref:`text` matches.

    :param text: Text to be checked
    :returns: True if the :paramref:`text` conforms to the pattern
    """
    pattern = f"^[a-z]+$"

    return match(pattern, text) is not None


@verification
def matches_other(text: str) -> bool:
    """Check that :paramref:`text` matches the other pattern."""
    pattern = f"^[A-Z][0-9]*$"

    return match(pattern, text) is not None


@verification
def is_fine(value: int) -> bool:
    """
    Check that :paramref:`value` is fine.

    :param value: to be checked
    :returns: True if fine
    """
    return value > 0


@verification
@implementation_specific
def check_special(text: str) -> bool:
    """
    Check that :paramref:`text` is special.

    :param text: Text to be checked
    :returns: True if special
    """
    return len(text) % 2 == 0


class Color_kind(Enum):
    """Represent a color."""

    Red = "RED"
    """Represent the red color."""

    Dark_blue = "dark-blue"
    """Represent the blue color."""

    Green = "green"


Some_str_const: str = constant_str(
    value="some text", description="Represent a text constant."
)

Other_str_const: str = constant_str(value="other text")

Some_int_const: int = constant_int(value=42, description="Represent an int constant.")

Some_str_set: Set[str] = constant_set(
    values=["red", "green", "blue"], description="Represent a set of strings."
)

Some_color_set: Set[Color_kind] = constant_set(
    values=[Color_kind.Red], description="Represent a set of colors."
)


@invariant(lambda self: len(self) >= 1, "The text must be non-empty.")
@invariant(lambda self: matches_something(self), "The text must match.")
class Short_text(str, DBC):
    """Represent a short text."""


@abstract
@serialization(with_model_type=True)
@invariant(lambda self: len(self.ID_short) > 0, "ID short must be non-empty.")
class Abstract_thing(DBC):
    """
    Represent an abstract thing.

    Some remark.
    """

    ID_short: str
    """Identify the thing."""

    def __init__(self, ID_short: str) -> None:
        self.ID_short = ID_short


@invariant(
    lambda self: not (self.count is not None) or is_fine(self.count),
    "Count must be fine.",
)
@invariant(lambda self: self.label in Some_str_set, "Label must be in the set.")
@invariant(lambda self: check_special(self.label), "Label must be special.")
@invariant(lambda self: matches_other(self.label), "Label must match the other.")
class Concrete_thing(Abstract_thing):
    """Represent a concrete thing."""

    label: str
    """Label the thing."""

    color: Color_kind
    """Color the thing."""

    text: Short_text
    """Describe the thing."""

    count: Optional[int]
    """Count the thing."""

    parts: Optional[List["Abstract_thing"]]
    """List the parts."""

    @implementation_specific
    @non_mutating
    def count_or_default(self, fallback: int) -> int:
        """
        Return the count or a default.

        :param fallback: what to return if no count
        :returns: the count or :paramref:`fallback`
        """
        return self.count if self.count is not None else fallback

    def __init__(
        self,
        ID_short: str,
        label: str,
        color: Color_kind,
        text: Short_text,
        count: Optional[int] = None,
        parts: Optional[List["Abstract_thing"]] = None,
    ) -> None:
        Abstract_thing.__init__(self, ID_short=ID_short)
        self.label = label
        self.color = color
        self.text = text
        self.count = count
        self.parts = parts


class Container(DBC):
    """Contain things."""

    things: List[Concrete_thing]
    """List the things."""

    def __init__(self, things: List[Concrete_thing]) -> None:
        self.things = things
'''

# A tiny model for probing which (payload, context) pairs the front end admits.
PROBE = '''"""Provide a probe."""

from enum import Enum
from re import match
from typing import List, Optional, Set

from icontract import invariant, DBC, ensure

from aas_core_meta.marker import (
    abstract,
    serialization,
    implementation_specific,
    verification,
    constant_set,
    non_mutating,
)

__version__ = "V1"

__xml_namespace__ = "https://dummy.com/gen"


@verification
def is_fine(value: int) -> bool:
    """Check the value."""
    return value > 0


class Kind(Enum):
    """Represent a kind."""

    One = "one"
    """Represent one."""


@invariant(lambda self: is_fine(self.count), "Count must be fine.")
class Thing(DBC):
    """Represent a thing."""

    count: int
    """Count the thing."""

    def __init__(self, count: int) -> None:
        self.count = count
'''


# ---------------------------------------------------------------------------------
# Variants
# ---------------------------------------------------------------------------------

class Variant:
    def __init__(self, text: str, payload: Optional[str], category: str) -> None:
        self.text = text
        self.payload = payload
        self.category = category
        self.sites_changed = 0
        self.contexts: List[str] = []


def clean_variant(sites: Sites, rng) -> Variant:
    """Rewrite every description with the payload-free builder (all constructs used)."""
    names = Names(sites)
    replacements: Dict[int, str] = {}
    constraint_sites = [i for i, s in enumerate(sites.sites) if s.kind in SUPPORTS_CONSTRAINTS]
    known = [f"C-{k + 1}" for k in range(len(constraint_sites))]
    counter = 0
    for i, site in enumerate(sites.sites):
        if not site.kind.startswith("doc-"):
            continue
        counter += 1
        cid = known[constraint_sites.index(i)] if i in constraint_sites else None
        text = build_doc(
            site, names, rng, counter, payload="plain",
            inner=["text-glued", "literal", "emphasis", "hyperlink", "bullet", "note"],
            constraint_id=cid, known_constraints=known, shape=1,
        )
        replacements[i] = py_literal(text)
    variant = Variant(sites.render(replacements), None, "no-payload")
    variant.sites_changed = len(replacements)
    return variant


def description_variant(
    sites: Sites, rng, payload: str, inner: Sequence[str], trailing: Optional[str]
) -> Variant:
    names = Names(sites)
    constraint_sites = [i for i, s in enumerate(sites.sites) if s.kind in SUPPORTS_CONSTRAINTS]
    all_ids = [f"C-{k + 1}" for k in range(len(constraint_sites))]

    def build_all(known: Sequence[str]) -> Dict[int, str]:
        texts: Dict[int, str] = {}
        counter = 0
        for i, site in enumerate(sites.sites):
            if not site.kind.startswith("doc-"):
                continue
            counter += 1
            cid = all_ids[constraint_sites.index(i)] if i in constraint_sites else None
            rotated = list(inner)
            if rotated:
                shift = counter % len(rotated)
                rotated = rotated[shift:] + rotated[:shift]
            texts[i] = build_doc(
                site, names, rng, counter, payload=payload, inner=rotated, trailing=trailing,
                constraint_id=cid, known_constraints=known, shape=counter,
            )
        return texts

    # Only constraints that a description really defines may be referenced: build once to
    # learn which ones are defined, then again (same random choices) with references.
    state = rng.getstate()
    first = build_all(())
    defined = [
        cid for cid, i in zip(all_ids, constraint_sites)
        if f":constraint {cid}:" in first.get(i, "")
    ]
    rng.setstate(state)
    texts = build_all(defined)
    replacements = {i: py_literal(text) for i, text in texts.items()}
    variant = Variant(
        sites.render(replacements), payload,
        "description-trailing" if trailing else "description-inner",
    )
    variant.sites_changed = len(replacements)
    variant.contexts = list(inner) + ([trailing] if trailing else [])
    return variant


def constraint_id_variant(sites: Sites, rng, payload: str) -> Variant:
    names = Names(sites)
    replacements: Dict[int, str] = {}
    constraint_sites = [i for i, s in enumerate(sites.sites) if s.kind in SUPPORTS_CONSTRAINTS]
    known = []
    for k in range(len(constraint_sites)):
        form = k % 3
        known.append(
            f"C{payload}{k + 1}" if form == 0 else f"C{k + 1}{payload}" if form == 1
            else f"{payload}C{k + 1}"
        )
    counter = 0
    for i, site in enumerate(sites.sites):
        if not site.kind.startswith("doc-"):
            continue
        counter += 1
        cid = known[constraint_sites.index(i)] if i in constraint_sites else None
        text = build_doc(
            site, names, rng, counter, payload="plain", inner=["literal"],
            constraint_id=cid, known_constraints=known, shape=1,
        )
        replacements[i] = py_literal(text)
    variant = Variant(sites.render(replacements), payload, "constraint-id")
    variant.sites_changed = len(constraint_sites)
    return variant


POSITIONS = ["inner", "trailing", "leading", "alone", "doubled"]


def place(payload: str, position: str, stem: str) -> str:
    if position == "inner":
        return f"{stem} a{payload}b"
    if position == "trailing":
        return f"{stem} ends{payload}"
    if position == "leading":
        return f"{payload}{stem} begins"
    if position == "alone":
        return payload
    return f"{stem} {payload}{payload} twice"


def value_variant(sites: Sites, rng, payload: str, category: str) -> Variant:
    kind = {
        "invariant-message": "inv-message",
        "constant-str-value": "const-str",
        "constant-set-value": "const-set-str",
        "enum-literal-value": "enum-value",
    }[category]
    replacements: Dict[int, str] = {}
    k = 0
    for i, site in enumerate(sites.sites):
        if site.kind != kind:
            continue
        position = POSITIONS[k % len(POSITIONS)]
        if position == "alone" and kind in ("inv-message", "enum-value", "const-set-str") and k >= len(POSITIONS):
            position = "inner"  # values must stay unique
        if kind == "inv-message":
            value = place(payload, position, f"Condition {k + 1} must hold")
            if position == "alone":
                value = payload
        else:
            value = place(payload, position, f"v{k + 1}")
        replacements[i] = py_literal(value)
        k += 1
    variant = Variant(sites.render(replacements), payload, category)
    variant.sites_changed = len(replacements)
    return variant


def pattern_variant(sites: Sites, rng, fragment: str) -> Variant:
    replacements: Dict[int, str] = {}
    k = 0
    for i, site in enumerate(sites.sites):
        if site.kind != "pattern":
            continue
        original = site.original
        body = original[1:-1] if original.startswith("^") and original.endswith("$") else original
        if k % 2 == 0:
            value = f"^{body}{fragment}$"
        else:
            value = f"^{fragment}{body}$"
        replacements[i] = fstring_literal(value)
        k += 1
    variant = Variant(sites.render(replacements), fragment, "pattern")
    variant.sites_changed = len(replacements)
    return variant


IDENT_RE = re.compile(r"[a-zA-Z_][a-zA-Z_0-9]*")
